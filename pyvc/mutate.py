"""Run a check against a scratch copy of the repository with one textual mutation applied (self-test of the machinery).

usage: python3-vt -m pyvc.mutate <prop> <relative file> <old text> <new text> [check args...]
"""
import os
import shutil
import subprocess
import sys
import tempfile


def run_mutant(prop, rel, old, new, extra=(), quiet=False):
    d = tempfile.mkdtemp(prefix='pyvc_mut_')
    try:
        for sub in ('rsocket', 'reactivestreams'):
            shutil.copytree(os.path.join('/repo', sub), os.path.join(d, sub),
                            ignore=shutil.ignore_patterns('__pycache__'))
        p = os.path.join(d, rel)
        s = open(p).read()
        if s.count(old) != 1:
            return None, 'pattern occurs %d times' % s.count(old)
        open(p, 'w').write(s.replace(old, new))
        env = dict(os.environ, PYVC_REPO=d)
        r = subprocess.run([sys.executable, '-m', 'pyvc.check', prop, '--no-evidence'] + list(extra),
                           capture_output=True, text=True, env=env, cwd=os.path.dirname(os.path.dirname(os.path.abspath(__file__))))
        return r.returncode, r.stdout + r.stderr
    finally:
        shutil.rmtree(d, ignore_errors=True)


if __name__ == '__main__':
    rc, out = run_mutant(sys.argv[1], sys.argv[2], sys.argv[3], sys.argv[4], sys.argv[5:])
    print(out)
    print('exit', rc)
