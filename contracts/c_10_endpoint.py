"""Endpoint-level contracts on RSocketBase / StreamControl (K-SOCK implementations):
finish_stream (C10), registration and the five request methods (C01, C08, C13), dispatch of received frames
(C01, C12, C13), stop_all_streams (C11), the receiver loop body (C12)."""
import z3

from pyvc.values import *   # noqa
from pyvc.engine import LoopSpec, EXC
from pyvc.engine import BoundMethod
from pyvc.harness import harness, new_obj, OpaqueLog
from pyvc import models as M
from pyvc import aio
from contracts.khandler import frame, is_frame, payload_is, FR

BASE = 'rsocket/rsocket_base.py::RSocketBase'
SC = 'rsocket/stream_control.py::StreamControl'
CACHE = 'rsocket/frame_fragment_cache.py::FrameFragmentCache'
SERVER = 'rsocket/rsocket_server.py::RSocketServer'
CLIENT = 'rsocket/rsocket_client.py::RSocketClient'


def mk_endpoint(E, cls=SERVER, handlers=None, symbolic_queue=True):
    """RSocketBase object (no transport, no tasks) with arbitrary stream table, reassembly cache and send queue."""
    E.import_module('asyncio')
    sock = new_obj(E, cls)
    table = M.new_smap(E, 'streams')
    table.valfn = handlers or (lambda E_, m, k: SOpaque('handler', 'table[%s]' % z3.simplify(I(k))))
    x = z3.Int('inv.x')
    E.path.add(z3.ForAll([x], z3.Implies(z3.Select(table.has, x), z3.And(x >= 1, x <= 0x7FFFFFFF))))
    sc = new_obj(E, SC, _first_stream_id=1, _current_stream_id=E.fresh_int('cur', 0, 0x7FFFFFFF), _streams=table,
                 _maximum_stream_id=0x7FFFFFFF)
    cache = E.call(E.lookup(CACHE), [])
    ctable = M.new_smap(E, 'cache')
    ctable.valfn = lambda E_, m, k: SOpaque('frame', 'partial[%s]' % z3.simplify(I(k)))
    cache.attrs['_frames_by_stream_id'] = ctable
    # the endpoint may be in the middle of closing (close() sets the flag, then awaits its tasks): the per-stream contracts
    # hold in that window too
    sock.attrs.update(_stream_control=sc, _frame_fragment_cache=cache, _honor_lease=False, _fragment_size_bytes=None,
                      _handler=SOpaque('app-handler', 'request-handler'), _is_closing=E.fresh_bool('endpoint-is-closing'))
    if symbolic_queue:
        sock.attrs['_send_queue'] = aio.new_symbolic_queue(E, E.lookup('rsocket/queue_peekable.py::QueuePeekable'), 'sendq')
    return sock, table, ctable


@harness('e.finish_stream', ['C10', 'C13', 'C03', 'C09', 'C08', 'C07'], functions=[BASE + '.finish_stream', SC + '.finish_stream', CACHE + '.remove',
                                                                              SC + '.handle_stream'])
def finish_stream(E):
    sock, table, ctable = mk_endpoint(E)
    h0, c0 = table.has, ctable.has
    s = E.fresh_int('sid')
    log = OpaqueLog(E)
    sc_ = sock.attrs['_stream_control']
    # history: a frame for the stream is dispatched while it is live (if it is), the stream ends, a late frame arrives
    was_live = E.decide(M.smap_has(E, table, s), 'stream-was-live')
    f_before = frame(E, 'PayloadFrame', s)
    r_before = E.call(E.getattr(sc_, 'handle_stream'), [f_before])
    n_before = len([c for c in log.calls if c[0].kind == 'handler'])
    E.prove('dispatch:a_frame_for_a_live_stream_is_delivered_once_and_for_an_unknown_one_dropped',
            (E.truth(r_before) is True and n_before == 1) if was_live else (E.truth(r_before) is False and n_before == 0))
    E.call(E.getattr(sock, 'finish_stream'), [s])
    f_late = frame(E, 'PayloadFrame', s)
    r_late = E.call(E.getattr(sc_, 'handle_stream'), [f_late])
    E.prove('finish:a_frame_arriving_after_the_stream_ended_reaches_nobody[no handler remembered past its release]',
            E.truth(r_late) is False and len([c for c in log.calls if c[0].kind == 'handler']) == n_before)
    if E.path.choice(2, 'id-reused-after-the-late-frame') == 1:
        # ... and the id can be used again at once: a new interaction registered under it receives its frames
        newh = SOpaque('handler', 'new-interaction')
        E.assume(z3.And(I(s) >= 1, I(s) <= 0x7FFFFFFF))        # a stream id (requires of register_stream)
        E.call(E.getattr(sc_, 'register_stream'), [s, newh])
        f_new = frame(E, 'PayloadFrame', s)
        r_new = E.call(E.getattr(sc_, 'handle_stream'), [f_new])
        got = [c for c in log.calls if c[0] is newh]
        E.prove('finish:the_id_can_be_used_again[frames of the new interaction reach its handler, whatever was looked up before]',
                E.truth(r_new) is True and len(got) == 1 and got[0][1] == 'frame_received' and got[0][2][0] is f_new)
        return
    E.cover('finished')
    x = z3.Int(E.path.fresh_name('sk.x'))
    E.prove('finish:removed_from_stream_table_only', z3.Select(table.has, x) == z3.And(z3.Select(h0, x), x != I(s)))
    E.prove('finish:removed_from_reassembly_cache_only', z3.Select(ctable.has, x) == z3.And(z3.Select(c0, x), x != I(s)))
    try:
        E.call(E.getattr(sock.attrs['_stream_control'], 'assert_stream_id_available'), [s])
        E.prove('finish:id_can_be_used_again', True)
    except PyExc:
        E.prove('finish:id_can_be_used_again', False)


def alloc_stub(E, sock, table):
    """contract of StreamControl.allocate_stream (proved under C13): returns a fresh id of the endpoint's parity, not in the table"""
    out = {}

    def stub(E_, f, a, k):
        r = E_.fresh_int('allocated', 1, 0x7FFFFFFF)
        E_.path.add(z3.Not(z3.Select(table.has, I(r))))
        out.setdefault('ids', []).append(r)
        a[0].attrs['_current_stream_id'] = r
        return r
    E.stubs[SC + '.allocate_stream'] = stub
    return out


def sent_ids(E, sock):
    s = sock.attrs['_send_queue'].attrs['_sym']
    return s


def _request(kind):
    def run(E):
        sock, table, ctable = mk_endpoint(E, CLIENT)
        h0 = table.has
        al = alloc_stub(E, sock, table)
        shape = E.path.choice(3, 'payload')
        data = None if shape == 0 else E.fresh_bytes('data')
        md = None if shape != 2 else E.fresh_bytes('metadata')
        p = E.call(E.lookup('rsocket/payload.py::Payload'), [data, md])
        sent = []
        E.stubs[BASE + '.send_frame'] = lambda E_, f, a, k: sent.append(a[1])
        P = E.prove
        x = z3.Int(E.path.fresh_name('sk.x'))
        if kind == 'request_response':
            fut = E.call(E.getattr(sock, 'request_response'), [p])
            E.cover('requested')
            sid = al['ids'][0]
            P('rr:one_fresh_id', len(al['ids']) == 1)
            P('rr:exactly_one_frame', len(sent) == 1 and is_frame(sent[0], 'RequestResponseFrame'))
            f = sent[0]
            P('rr:frame_on_the_allocated_stream_with_the_payload', E.getattr(f, 'stream_id') is sid and E.getattr(f, 'data') is data
              and E.getattr(f, 'metadata') is md)
            hnd = M.smap_get_value(E, table, sid)
            P('rr:requester_registered_under_that_id', isinstance(hnd, SObj) and hnd.cls.name == 'RequestResponseRequester'
              and hnd.attrs['stream_id'] is sid)
            P('rr:caller_gets_the_future_of_that_requester', fut is hnd.attrs['_future'])
            P('rr:only_that_id_added', z3.Select(table.has, x) == z3.Or(z3.Select(h0, x), x == I(sid)))
        elif kind == 'fire_and_forget':
            fut = E.call(E.getattr(sock, 'fire_and_forget'), [p])
            E.cover('requested')
            sid = al['ids'][0]
            P('fnf:exactly_one_frame', len(sent) == 1 and is_frame(sent[0], 'RequestFireAndForgetFrame'))
            f = sent[0]
            P('fnf:frame_on_the_allocated_stream_with_the_payload', E.getattr(f, 'stream_id') is sid and E.getattr(f, 'data') is data
              and E.getattr(f, 'metadata') is md)
            P('fnf:returns_sent_future', fut is E.getattr(f, 'sent_future') and fut.attrs['state'] == 'pending')
            P('fnf:nothing_registered', table.has.eq(h0))
            # when the frame has been written the sender resolves sent_future; the callback releases the id
            E.call(E.getattr(fut, 'set_result'), [None])
            for cb, f_ in list(E.path.ghost.get('call_soon', [])):
                E.call(cb, [f_])
            P('fnf:id_released_when_sent', z3.Not(z3.Select(table.has, I(sid))))
        elif kind in ('request_stream', 'request_channel'):
            if kind == 'request_stream':
                r = E.call(E.getattr(sock, 'request_stream'), [p])
                cname = 'RequestStreamRequester'
            else:
                pub = SOpaque('publisher', 'local') if E.path.choice(2, 'publisher') else None
                r = E.call(E.getattr(sock, 'request_channel'), [p, pub])
                cname = 'RequestChannelRequester'
            E.cover('requested')
            sid = al['ids'][0]
            P('%s:requester_registered_under_fresh_id' % kind, isinstance(r, SObj) and r.cls.name == cname and r.attrs['stream_id'] is sid
              and M.smap_get_value(E, table, sid) is r)
            P('%s:nothing_emitted_before_subscribe' % kind, len(sent) == 0)
            P('%s:only_that_id_added' % kind, z3.Select(table.has, x) == z3.Or(z3.Select(h0, x), x == I(sid)))
            P('%s:requester_holds_the_payload' % kind, (r.attrs.get('payload') or r.attrs.get('_payload')) is p)
        else:
            mdp = E.fresh_bytes('push')
            fut = E.call(E.getattr(sock, 'metadata_push'), [mdp])
            E.cover('requested')
            P('push:one_METADATA_PUSH_on_stream_0', len(sent) == 1 and is_frame(sent[0], 'MetadataPushFrame')
              and E.getattr(sent[0], 'stream_id') == 0 and E.getattr(sent[0], 'metadata') is mdp)
            P('push:no_stream_id_used', not al.get('ids') and table.has.eq(h0))
            P('push:returns_sent_future', fut is E.getattr(sent[0], 'sent_future'))
    return run


for _k in ('request_response', 'fire_and_forget', 'request_stream', 'request_channel', 'metadata_push'):
    harness('e.%s' % _k, ['C01', 'C08', 'C13', 'C10'],
            functions=[BASE + '.' + _k, BASE + '.register_new_stream', BASE + '._register_stream', BASE + '._allocate_stream',
                       BASE + '.send_request'],
            assumptions=['StreamControl.allocate_stream used through its contract (C13)'])(_request(_k))


# --------------------------------------------------------------------------- dispatch of a received frame

HNF = BASE + '._handle_next_frame'


@harness('e.handle_next_frame', ['C01', 'C12', 'C13', 'C07'], functions=[HNF, BASE + '._handle_frame_by_type', SC + '.handle_stream',
                                                                      'rsocket/frame.py::is_fragmentable_frame'])
def handle_next_frame(E):
    sock, table, ctable = mk_endpoint(E)
    h0, c0 = table.has, ctable.has
    log = OpaqueLog(E)
    kinds = ['InvalidFrame', 'PayloadFrame', 'RequestNFrame', 'CancelFrame', 'ErrorFrame', 'RequestResponseFrame', 'KeepAliveFrame']
    kind = kinds[E.path.choice(len(kinds), 'frame-kind')]
    sid = E.fresh_int('sid', 0, 0x7FFFFFFF)
    if kind == 'InvalidFrame':
        f = E.call(E.lookup(FR + 'InvalidFrame'), [])
    else:
        f = frame(E, kind, 0 if kind == 'KeepAliveFrame' else sid)     # peer legality: KEEPALIVE uses stream 0
    appended = []

    st = {'partial': False}

    def cache_append(E_, fn, a, k):
        appended.append(a[1])
        if E_.path.choice(2, 'reassembly') == 1:
            st['partial'] = True
            return None                                           # still partial
        return a[1]                                               # complete frame
    E.stubs[CACHE + '.append'] = cache_append
    by_type = []
    table_arg = {E.lookup(FR + 'RequestResponseFrame'): SOpaque('callable', 'handle_request_response'),
                 E.lookup(FR + 'KeepAliveFrame'): SOpaque('callable', 'handle_keep_alive'),
                 E.lookup(FR + 'ErrorFrame'): SOpaque('callable', 'handle_error')}
    log.returns['__call__'] = lambda E_, o, m, a, k: (by_type.append((o, a)), aio.Awaitable('ready'))[1]
    P = E.prove
    try:
        E.await_value(E.call(E.getattr(sock, '_handle_next_frame'), [f, table_arg]))
    except PyExc as e:
        # the only exception dispatch itself may raise: a request frame that reuses a live id is rejected (C13); where the
        # library makes that check (here or in the per-type handler) is not part of the contract - see e.reuse_of_live_id
        E.cover('rejected')
        P('dispatch:raises_only_to_reject_a_request_that_reuses_a_live_id',
          e.value.cls.issubclass(E.lookup('rsocket/exceptions.py::RSocketStreamIdInUse')) and kind == 'RequestResponseFrame'
          and z3.Select(h0, I(sid)))
        P('dispatch:rejected_request_delivered_nowhere', not [c for c in log.calls if c[0].kind == 'handler'] and not by_type)
        P('dispatch:table_and_cache_untouched_by_dispatch', z3.And(table.has.eq(h0), ctable.has.eq(c0)))
        return
    E.cover('dispatched')
    delivered = [c for c in log.calls if c[0].kind == 'handler']
    P('dispatch:table_and_cache_untouched_by_dispatch', z3.And(table.has.eq(h0), ctable.has.eq(c0)))
    if kind == 'InvalidFrame':
        P('dispatch:invalid_marker_changes_nothing', not delivered and not by_type and not appended)
        return
    fragmentable = kind in ('PayloadFrame', 'RequestResponseFrame')
    P('dispatch:fragmentable_frames_go_through_reassembly_once', (appended == [f]) if fragmentable else (not appended))
    if st['partial']:
        P('dispatch:partial_frame_is_not_delivered', not delivered and not by_type)
        return
    if kind in ('RequestResponseFrame', 'KeepAliveFrame'):
        P('dispatch:connection_and_request_frames_by_type', len(by_type) == 1 and by_type[0][1][0] is f and not delivered
          and by_type[0][0] is table_arg[f.cls])
    elif kind == 'ErrorFrame' and E.decide(mk_bool(I(sid) == 0), 'stream0'):
        P('dispatch:stream_0_error_to_connection_handler', len(by_type) == 1 and by_type[0][0] is table_arg[f.cls] and not delivered)
    else:
        present = z3.Select(h0, I(sid))
        if delivered:
            P('dispatch:delivered_once_to_the_handler_registered_under_the_frames_id',
              len(delivered) == 1 and delivered[0][1] == 'frame_received' and delivered[0][2][0] is f
              and delivered[0][0].ident == 'table[%s]' % z3.simplify(I(sid)))
            P('dispatch:only_if_registered', z3.Or(present, I(sid) == 0))
        else:
            P('dispatch:unknown_stream_dropped', z3.Or(z3.Not(present), I(sid) == 0))
        P('dispatch:stream_frames_never_by_type', not by_type or kind == 'ErrorFrame')


def _handle_request(kind):
    mname = {'response': 'handle_request_response', 'stream': 'handle_request_stream', 'channel': 'handle_request_channel',
             'fnf': 'handle_fire_and_forget'}[kind]
    fcls = {'response': 'RequestResponseFrame', 'stream': 'RequestStreamFrame', 'channel': 'RequestChannelFrame',
            'fnf': 'RequestFireAndForgetFrame'}[kind]
    hm = {'response': 'request_response', 'stream': 'request_stream', 'channel': 'request_channel', 'fnf': 'request_fire_and_forget'}[kind]

    def run(E):
        sock, table, ctable = mk_endpoint(E)
        h0 = table.has
        sid = E.fresh_int('sid', 1, 0x7FFFFFFF)
        data, md = E.fresh_bytes('data'), E.fresh_bytes('md')
        f = frame(E, fcls, sid, data=data, metadata=md)
        if kind in ('stream', 'channel'):
            E.setattr(f, 'initial_request_n', E.fresh_int('n', 1, 0x7FFFFFFF))
        app = sock.attrs['_handler']
        fut = aio.new_future(E)
        pub = SOpaque('publisher', 'app-publisher')
        rsub = SOpaque('subscriber', 'app-subscriber')
        if kind == 'channel':
            # the application may answer a channel with a publisher, a subscriber, both or neither
            if E.path.choice(2, 'handler-returns-no-publisher') == 1:
                pub = None
            if E.path.choice(2, 'handler-returns-no-subscriber') == 1:
                rsub = None
            E.setattr(f, 'flags_complete', E.path.choice(2, 'requester-has-no-publisher[complete flag]') == 1)
        ret = {'response': fut, 'stream': pub, 'channel': (pub, rsub), 'fnf': None}[kind]
        subscription = SOpaque('subscription', 'app-subscription')
        # the handler method is a coroutine of the application: it may suspend, and close() / reconnect cancel the receiver task
        # while it does - asyncio delivers that cancellation at this await
        cancelled_in_handler = E.path.choice(2, 'receiver-cancelled-while-the-handler-is-suspended') == 1

        def on_suspend(E_, what):
            if what[0] == 'app-handler':
                E_.throw('CancelledError')
            return None
        E.suspend_hook = on_suspend
        log = OpaqueLog(E, returns={hm: lambda *a: aio.Awaitable('app-handler') if cancelled_in_handler else aio.Awaitable('ready', result=ret),
                                    ('publisher', 'subscribe'): lambda E_, o, m, a, k: E_.call(E_.getattr(a[0], 'on_subscribe'), [subscription])},
                        may_raise=lambda o, m: o.kind == 'app-handler')
        P = E.prove
        x = z3.Int(E.path.fresh_name('sk.x'))
        registered = []
        _orig_reg = E.lookup(BASE + '._register_stream')
        E.stubs[_orig_reg.qualname] = lambda E_, fn, a, k: (registered.append((a[1], a[2])), E_.call_pyfunc(fn, a, k, nostub=True))[1]
        # requires: the id is free.  A request that reuses a live id is rejected before or inside this method - that clause is
        # stated end to end at the receiver (e.reuse_of_live_id), so that it does not pin *where* the check is made.
        E.assume(z3.Not(z3.Select(h0, I(sid))))
        try:
            E.await_value(E.call(E.getattr(sock, mname), [f]))
        except PyExc as e:
            E.cover('raised')
            calls = log.of(app)
            if e.value.cls.name == 'CancelledError':
                P('@C11,C17,C12,C10:request:only_a_real_cancellation_of_the_receiver_surfaces_as_CancelledError', cancelled_in_handler and len(calls) == 1)
                P('request:failed_request_registers_nothing', table.has.eq(h0))
                return
            if e.value.cls.issubclass(E.lookup('rsocket/exceptions.py::RSocketStreamIdInUse')):
                P('reuse:a_free_id_is_never_rejected', False)
            else:
                P('request:other_exceptions_come_from_the_application_handler', len(calls) == 1 and 'from_opaque' in e.value.attrs)
                P('request:failed_request_registers_nothing', table.has.eq(h0))
            return
        E.cover('accepted')
        calls = log.of(app)
        P('@C11,C17,C12,C10:request:a_cancellation_delivered_while_the_handler_is_suspended_is_not_swallowed[close() must be able to end the receiver]',
          not cancelled_in_handler)
        if cancelled_in_handler:
            return
        P('request:handler_method_of_that_type_invoked_once_with_the_frame_payload',
          len(calls) == 1 and calls[0][1] == hm and payload_is(E, calls[0][2][0], data, md))
        if kind == 'fnf':
            P('fnf:nothing_registered', table.has.eq(h0))
            return
        P('request:responder_registered_once_under_the_frames_id', len(registered) == 1 and registered[0][0] is sid)
        hnd = registered[0][1]
        # a channel whose two directions are both closed by the opening exchange itself is over at once and released again
        over = kind == 'channel' and E.truth(hnd.attrs['_sent_complete']) is True and E.truth(hnd.attrs['_received_complete']) is True
        P('request:no_other_stream_touched_and_this_one_registered_unless_already_over',
          z3.Select(table.has, x) == z3.Or(z3.Select(h0, x), z3.And(x == I(sid), not over)))
        want = {'response': 'RequestResponseResponder', 'stream': 'RequestStreamResponder', 'channel': 'RequestChannelResponder'}[kind]
        P('request:responder_of_the_right_kind_bound_to_the_id', isinstance(hnd, SObj) and hnd.cls.name == want and hnd.attrs['stream_id'] is sid)
        if kind == 'response':
            P('response:responder_watches_the_handler_future', hnd.attrs['future'] is fut and len(fut.attrs['callbacks']) == 1)
        if kind == 'stream':
            P('stream:publisher_of_the_handler_subscribed', [c[1] for c in log.of(pub)] == ['subscribe'])
        if kind == 'channel':
            P('channel:handler_subscriber_gets_on_subscribe_and_publisher_is_subscribed',
              (rsub is None or [c[1] for c in log.of(rsub)][:1] == ['on_subscribe']) and (pub is None or [c[1] for c in log.of(pub)] == ['subscribe']))
            # the channel invariant after the opening exchange, whatever the handler returned and whatever the request frame
            # already closed: the stream is registered exactly while a direction is still open
            sc, rc = hnd.attrs['_sent_complete'], hnd.attrs['_received_complete']
            P('channel:registered_exactly_while_a_direction_is_open[after the opening exchange]',
              B(M.smap_has(E, table, sid)) == z3.Not(z3.And(B(E.truth(sc)), B(E.truth(rc)))))
    return run


for _k in ('response', 'stream', 'channel', 'fnf'):
    harness('e.handle_request[%s]' % _k, ['C01', 'C13', 'C12', 'C08', 'C10', 'C07', 'C11', 'C17'],
            functions=[BASE + '.' + {'response': 'handle_request_response', 'stream': 'handle_request_stream',
                                     'channel': 'handle_request_channel', 'fnf': 'handle_fire_and_forget'}[_k],
                       SC + '.assert_stream_id_available', BASE + '._register_stream', 'rsocket/helpers.py::payload_from_frame'],
            assumptions=['application RequestHandler is abstract: any method may raise any Exception',
                         'K-APP: Publisher.subscribe(s) calls s.on_subscribe(subscription) before it returns (as every publisher of '
                         'the library does); a publisher that defers on_subscribe is outside the contract of RequestStreamResponder'])(_handle_request(_k))


# --------------------------------------------------------------------------- stop_all_streams (C11)

SAS = SC + '.stop_all_streams'


@harness('e.stop_all_streams', ['C11', 'C07', 'C10', 'C08', 'C17', 'C09'], functions=[SAS, BASE + '.stop_all_streams', SC + '.finish_stream'],
         replay='e_stop_all_streams',
         assumptions=['the stream table is finite; handlers are abstract (K-HANDLER): frame_received / dispose may raise any Exception '
                      '(they call application code) and do not register new streams',
                      'loop rule over the finite key set of the snapshot: ghost done-set, exit when done = snapshot'])
def stop_all_streams(E):
    sock, table, ctable = mk_endpoint(E)
    h0 = table.has
    REQ = E.lookup('rsocket/handlers/interfaces.py::Requester')
    DISP = E.lookup('rsocket/disposable.py::Disposable')
    isreq = z3.Function('h.is_requester', z3.IntSort(), z3.BoolSort())
    isdisp = z3.Function('h.is_disposable', z3.IntSort(), z3.BoolSort())

    def handlers(E_, m, k):
        return SOpaque('handler', 'table[%s]' % z3.simplify(I(k)), attrs={'_key': I(k)})
    table.valfn = handlers

    def isinst(E_, obj, cls):
        if cls is REQ:
            return mk_bool(isreq(obj.attrs['_key']))
        if cls is DISP:
            return mk_bool(isdisp(obj.attrs['_key']))
        raise Unsupported('isinstance %s' % cls.name)
    E.opaque_isinstance = isinst
    log = OpaqueLog(E, may_raise=lambda o, m: o.kind == 'handler')
    codes = E.lookup('rsocket/error_codes.py::ErrorCode').members
    data = E.fresh_bytes('data')

    def inv(ctx):
        x = z3.Int('sas.x')
        done, snap = ctx.ghost['done'], ctx.ghost['snapshot']
        out = [('every visited stream is released, the others are still registered',
                z3.ForAll([x], z3.Select(table.has, x) == z3.And(z3.Select(snap, x), z3.Not(z3.Select(done, x)))))]
        if ctx.phase == 'step':
            key = ctx.ghost['key']
            calls = [c for c in log.calls[ctx.ghost.get('ncalls', 0):]]
            mine = [c for c in calls if c[0].kind == 'handler']
            out.append(('only the visited handler is touched', all(c[0].ident == 'table[%s]' % z3.simplify(I(key)) for c in mine)))
            fr = [c for c in mine if c[1] == 'frame_received']
            ds = [c for c in mine if c[1] == 'dispose']
            out.append(('a Requester gets exactly one ERROR', z3.If(isreq(I(key)), len(fr) == 1, len(fr) == 0)))
            if fr:
                f = fr[0][2][0]
                out.append(('the ERROR carries the stream id, the code and the data',
                            is_frame(f, 'ErrorFrame') and E.getattr(f, 'stream_id') is key and E.getattr(f, 'error_code') is ctx.ghost['code']
                            and E.getattr(f, 'data') is data))
            raised_in_fr = fr and any('opaque-raise:handler.frame_received:1' in s for s in E.path.sig)
            out.append(('a Disposable is disposed exactly once, also when delivering the ERROR failed',
                        z3.If(isdisp(I(key)), len(ds) == 1, len(ds) == 0)))
        return out

    def havoc(ctx):
        ctx.ghost['ncalls'] = len(log.calls)
        ctx.ghost['code'] = code
        table.has = z3.Array(E.path.fresh_name('streams.has'), z3.IntSort(), z3.BoolSort())
        table.writes = []
    code = [codes['CONNECTION_ERROR'], codes['CANCELED']][E.path.choice(2, 'code')]
    E.loop_specs[(SAS, 0)] = LoopSpec(inv, None, havoc=havoc)
    E.loop_specs[(SAS, 0)].nonterminating = True       # finite-set iteration: terminates because the snapshot is finite
    try:
        E.call(E.getattr(sock, 'stop_all_streams'), [code, data])
    except PyExc as e:
        E.cover('escaped')
        E.prove('stop_all:exception_safe[a raising handler must not stop the clean-up of the other streams]', False)
        return
    E.cover('stopped')
    x = z3.Int(E.path.fresh_name('sk.x'))
    E.prove('stop_all:every_stream_of_the_table_released', z3.Not(z3.Select(table.has, x)))


# --------------------------------------------------------------------------- receiver loop body (C12)

RL = BASE + '._receiver_listen'


@harness('e.receiver_listen.body', ['C12', 'C11', 'C01', 'C14', 'C15', 'C16'], functions=[RL],
         assumptions=['Transport.next_frame_generator is abstract: returns None (EOF), raises RSocketTransportError, or an async iterable of frames',
                      '_handle_next_frame is used through its weakest contract here: returns, or raises any exception'])
def receiver_body(E):
    sock, table, ctable = mk_endpoint(E)
    sid = E.fresh_int('sid', 0, 0x7FFFFFFF)
    f1, f2 = SOpaque('frame', 'frame1', attrs={'stream_id': sid}), SOpaque('frame', 'frame2', attrs={'stream_id': E.fresh_int('sid2', 0, 0x7FFFFFFF)})
    transport = SOpaque('transport', 'transport')
    tf = aio.new_future(E, 'result', transport)
    E.stubs[SERVER + '._current_transport'] = lambda E_, f, a, k: tf
    rounds = [0]

    def next_gen(E_, o, m, a, k):
        rounds[0] += 1
        if rounds[0] == 1:
            return aio.Awaitable('ready', result=[f1, f2])
        return aio.Awaitable('ready', result=None)      # EOF
    log = OpaqueLog(E, returns={'next_frame_generator': next_gen})
    handled = []
    outcome = E.path.choice(5, 'handler-outcome')
    perr = E.make_exc(E.lookup('rsocket/exceptions.py::RSocketProtocolError'))
    perr.attrs['error_code'] = E.lookup('rsocket/error_codes.py::ErrorCode').members['REJECTED_SETUP']
    perr.attrs['data'] = 'x'
    terr = E.make_exc(E.lookup('rsocket/exceptions.py::RSocketTransportError'))
    gerr = E.make_exc('ValueError', 'application bug')
    cerr = E.make_exc('CancelledError')

    tables = []

    def hnf(E_, fn, a, k):
        handled.append(a[1])
        tables.append(a[2] if len(a) > 2 else k.get('async_frame_handler_by_type'))
        if a[1] is f1 and outcome:
            raise PyExc([None, perr, terr, gerr, cerr][outcome])
        return aio.Awaitable('ready')
    E.stubs[HNF] = hnf
    errors = []
    E.stubs[BASE + '.send_error'] = lambda E_, fn, a, k: errors.append((a[1], a[2]))
    P = E.prove
    try:
        E.await_value(E.call(E.getattr(E.lookup(BASE), '_receiver_listen'), [sock]))
    except PyExc as e:
        E.cover('left-the-loop')
        P('receiver:only_transport_errors_and_cancellation_leave_the_loop', outcome in (2, 4) and e.value is [None, perr, terr, gerr, cerr][outcome])
        P('receiver:no_error_frame_for_transport_errors', not errors)
        return
    E.cover('loop-continued-until-eof')
    P('receiver:other_failures_do_not_leave_the_loop', outcome in (0, 1, 3))
    # the by-type dispatch table handed to _handle_next_frame: every connection-level / request frame type goes to this
    # endpoint's own handler of that type (the protocol's mapping, written out here - not read from the code)
    want = {'RequestResponseFrame': 'handle_request_response', 'RequestStreamFrame': 'handle_request_stream',
            'RequestChannelFrame': 'handle_request_channel', 'SetupFrame': 'handle_setup',
            'RequestFireAndForgetFrame': 'handle_fire_and_forget', 'MetadataPushFrame': 'handle_metadata_push',
            'ResumeFrame': 'handle_resume', 'LeaseFrame': 'handle_lease', 'KeepAliveFrame': 'handle_keep_alive',
            'ErrorFrame': 'handle_error'}
    t0 = tables[0] if tables else None
    ok = isinstance(t0, dict) and {getattr(c, 'name', None) for c in t0} == set(want)
    if ok:
        for c, m in t0.items():
            ok = ok and isinstance(m, BoundMethod) and m.self_obj is sock and m.func.name == want[c.name]
    P('receiver:by_type_table_maps_each_frame_type_to_this_endpoints_handler_of_that_type', ok and all(t is t0 or t == t0 for t in tables))
    P('receiver:next_frame_still_processed', handled == [f1, f2])
    if outcome == 0:
        P('receiver:no_error_frame_without_failure', not errors)
    elif outcome == 1:
        P('receiver:protocol_error_answered_once_on_the_offending_stream', errors == [(sid, perr)])
    else:
        P('receiver:application_failure_answered_once_on_the_offending_stream', errors == [(sid, gerr)])


@harness('e.connection_level_handlers', ['C01', 'C12', 'C20'], functions=[BASE + '.handle_metadata_push', BASE + '.handle_error',
                                                                      BASE + '._on_connection_error', 'rsocket/helpers.py::payload_from_frame'],
         assumptions=['the application handler is abstract (K-HANDLER): its methods are called and may raise'])
def connection_level_handlers(E):
    sock, table, ctable = mk_endpoint(E)
    app = sock.attrs['_handler']
    log = OpaqueLog(E, returns={'on_metadata_push': lambda *a: aio.Awaitable('ready'), 'on_error': lambda *a: aio.Awaitable('ready'),
                                'on_connection_error': lambda *a: aio.Awaitable('ready')})
    h0, c0 = table.has, ctable.has
    sent = []
    E.stubs[BASE + '.send_frame'] = lambda E_, f_, a, k: sent.append(a[1])
    which = E.path.choice(3, 'which')
    P = E.prove
    if which == 0:
        md = E.fresh_bytes('metadata')
        f = frame(E, 'MetadataPushFrame', 0, metadata=md)
        E.await_value(E.call(E.getattr(sock, 'handle_metadata_push'), [f]))
        E.cover('metadata-push')
        calls = log.of(app)
        P('metadata_push:delivered_exactly_once_to_the_application_handler', len(calls) == 1 and calls[0][1] == 'on_metadata_push' and len(calls[0][2]) == 1)
        if len(calls) == 1 and len(calls[0][2]) == 1:
            p = calls[0][2][0]
            P('metadata_push:payload_carries_exactly_the_pushed_metadata_and_no_data', payload_is(E, p, None, md))
    elif which == 1:
        codes = E.lookup('rsocket/error_codes.py::ErrorCode').members
        code = [codes['CONNECTION_ERROR'], codes['REJECTED_SETUP'], codes['INVALID_SETUP'], codes['UNSUPPORTED_SETUP']][E.path.choice(4, 'code')]
        data = E.fresh_bytes('edata')
        f = frame(E, 'ErrorFrame', 0, error_code=code, data=data, metadata=None)
        E.await_value(E.call(E.getattr(sock, 'handle_error'), [f]))
        E.cover('connection-error-frame')
        calls = log.of(app)
        P('error:stream_0_error_reported_exactly_once_to_the_application_handler', len(calls) == 1 and calls[0][1] == 'on_error' and len(calls[0][2]) == 2)
        if len(calls) == 1 and len(calls[0][2]) == 2:
            P('error:with_the_frames_code_and_data', calls[0][2][0] is code and payload_is(E, calls[0][2][1], data, None))
    else:
        ex = E.make_exc('OSError', 'connect failed')
        E.await_value(E.call(E.getattr(sock, '_on_connection_error'), [ex]))
        E.cover('connection-error')
        calls = log.of(app)
        P('connection_error:reported_exactly_once_with_this_endpoint_and_the_exception',
          len(calls) == 1 and calls[0][1] == 'on_connection_error' and len(calls[0][2]) == 2 and calls[0][2][0] is sock and calls[0][2][1] is ex)
    P('connection_level:no_stream_state_touched_and_nothing_sent', z3.And(table.has.eq(h0), ctable.has.eq(c0)) if not sent else False)


@harness('e.exception_to_error_frame', ['C12', 'C16', 'C08'], functions=['rsocket/frame.py::exception_to_error_frame', BASE + '.send_error'],
         replay='e_exception_to_error_frame')
def exc_to_error(E):
    sid = E.fresh_int('sid', 0, 0x7FFFFFFF)
    kind = E.path.choice(6, 'kind')
    codes = E.lookup('rsocket/error_codes.py::ErrorCode').members
    if kind == 0:
        ex = E.call(E.lookup('rsocket/exceptions.py::RSocketProtocolError'), [codes['REJECTED_SETUP']], dict(data='why'))
    elif kind == 1:
        ex = E.make_exc('ValueError', 'oops')
    elif kind == 3:
        ex = E.make_exc('KeyError', 7)                       # application exceptions carry any arguments: a non-string key,
    elif kind == 4:
        ex = E.make_exc('LookupError', b'raw', 3)            # several arguments of mixed types,
    elif kind == 5:
        ex = E.make_exc('RuntimeError')                      # or none at all
    else:
        # an application exception may carry any attributes of its own
        ex = E.make_exc('ValueError', 'validation failed')
        ex.attrs['data'] = {'field': 'x'}
        ex.attrs['error_code'] = 12345
    fr = E.call(E.lookup('rsocket/frame.py::exception_to_error_frame'), [sid, ex])
    E.cover('converted')
    E.prove('error_frame:ERROR_on_the_given_stream', is_frame(fr, 'ErrorFrame') and E.getattr(fr, 'stream_id') is sid)
    E.prove('error_frame:code', E.getattr(fr, 'error_code') is (codes['REJECTED_SETUP'] if kind == 0 else codes['APPLICATION_ERROR']))
    E.prove('error_frame:data_is_bytes[so that the frame can be serialised]', is_byteslike(E.getattr(fr, 'data')))


# --------------------------------------------------------------------------- K-SOCK: the emission methods the handlers rely on

@harness('e.send_payload_error_complete', ['C01', 'C08', 'C05'], functions=[BASE + '.send_payload', BASE + '.send_error', BASE + '.send_complete',
                                                                         BASE + '.get_fragment_size_bytes', 'rsocket/frame_builders.py::to_payload_frame'])
def send_methods(E):
    sock, table, ctable = mk_endpoint(E)
    fs = E.fresh_int('fs', 64) if E.path.choice(2, 'fragmentation') else None
    sock.attrs['_fragment_size_bytes'] = fs
    sent = []
    E.stubs[BASE + '.send_frame'] = lambda E_, f, a, k: sent.append(a[1])
    sid = E.fresh_int('sid', 1, 0x7FFFFFFF)
    which = E.path.choice(3, 'method')
    if which == 0:
        data, md = E.fresh_bytes('data'), E.fresh_bytes('md')
        p = E.call(E.lookup('rsocket/payload.py::Payload'), [data, md])
        comp, nxt = E.fresh_bool('complete'), E.fresh_bool('is_next')
        E.call(E.getattr(sock, 'send_payload'), [sid, p], dict(complete=comp, is_next=nxt))
        E.cover('payload')
        E.prove('send_payload:exactly_one_PAYLOAD_frame', len(sent) == 1 and is_frame(sent[0], 'PayloadFrame'))
        f = sent[0]
        E.prove('send_payload:own_stream_same_bytes', E.getattr(f, 'stream_id') is sid and E.getattr(f, 'data') is data and E.getattr(f, 'metadata') is md)
        E.prove('send_payload:flags', E.getattr(f, 'flags_complete') is comp and E.getattr(f, 'flags_next') is nxt)
        E.prove('send_payload:configured_fragment_size', E.getattr(f, 'fragment_size_bytes') is fs)
    elif which == 1:
        codes = E.lookup('rsocket/error_codes.py::ErrorCode').members
        ex = E.make_exc('ValueError', 'boom')
        E.call(E.getattr(sock, 'send_error'), [sid, ex])
        E.cover('error')
        E.prove('send_error:exactly_one_ERROR_frame_on_the_stream', len(sent) == 1 and is_frame(sent[0], 'ErrorFrame') and E.getattr(sent[0], 'stream_id') is sid)
        E.prove('send_error:application_error_code', E.getattr(sent[0], 'error_code') is codes['APPLICATION_ERROR'])
    else:
        E.call(E.getattr(sock, 'send_complete'), [sid])
        E.cover('complete')
        f = sent[0] if sent else None
        E.prove('send_complete:one_empty_PAYLOAD_complete_without_next', len(sent) == 1 and is_frame(f, 'PayloadFrame') and E.getattr(f, 'stream_id') is sid
                and E.getattr(f, 'flags_complete') is True and E.getattr(f, 'flags_next') is False and E.getattr(f, 'data') is None
                and E.getattr(f, 'metadata') is None)


# --------------------------------------------------------------------------- C13: reuse of a live id, end to end through the receiver

def _reuse_end_to_end(kind, fragmented):
    """A request frame whose id is still active arrives - as one frame, or as the frame that completes a fragmented
    request (the reassembly contract of C03: the completing PAYLOAD makes the cache return the whole request frame).
    The contract is stated at the receiver loop, so it does not depend on *where* the library checks the id."""
    fcls = {'response': 'RequestResponseFrame', 'stream': 'RequestStreamFrame', 'channel': 'RequestChannelFrame',
            'fnf': 'RequestFireAndForgetFrame'}[kind]

    def run(E):
        sock, table, ctable = mk_endpoint(E)
        h0 = table.has
        sid = E.fresh_int('sid', 1, 0x7FFFFFFF)
        request = frame(E, fcls, sid, data=E.fresh_bytes('data'), metadata=E.fresh_bytes('md'))
        if kind in ('stream', 'channel'):
            E.setattr(request, 'initial_request_n', E.fresh_int('n', 1, 0x7FFFFFFF))
        if fragmented:
            arriving = frame(E, 'PayloadFrame', sid)                 # last fragment of the request
            E.stubs[CACHE + '.append'] = lambda E_, fn, a, k: request if a[1] is arriving else a[1]
        else:
            arriving = request
            E.stubs[CACHE + '.append'] = lambda E_, fn, a, k: a[1]
        transport = SOpaque('transport', 'transport')
        tf = aio.new_future(E, 'result', transport)
        E.stubs[SERVER + '._current_transport'] = lambda E_, f, a, k: tf
        rounds = [0]

        def next_gen(E_, o, m, a, k):
            rounds[0] += 1
            return aio.Awaitable('ready', result=[arriving] if rounds[0] == 1 else None)
        app = sock.attrs['_handler']
        fut = aio.new_future(E)
        pub = SOpaque('publisher', 'app-publisher')
        subscription = SOpaque('subscription', 'app-subscription')
        log = OpaqueLog(E, returns={'next_frame_generator': next_gen,
                                    'request_response': lambda *a: aio.Awaitable('ready', result=fut),
                                    'request_stream': lambda *a: aio.Awaitable('ready', result=pub),
                                    'request_channel': lambda *a: aio.Awaitable('ready', result=(pub, SOpaque('subscriber', 'app-subscriber'))),
                                    'request_fire_and_forget': lambda *a: aio.Awaitable('ready', result=None),
                                    ('publisher', 'subscribe'): lambda E_, o, m, a, k: E_.call(E_.getattr(a[0], 'on_subscribe'), [subscription])})
        errors = []
        E.stubs[BASE + '.send_error'] = lambda E_, fn, a, k: errors.append((a[1], a[2]))
        E.assume(z3.Select(h0, I(sid)))                              # the id is still active on this endpoint
        E.await_value(E.call(E.getattr(E.lookup(BASE), '_receiver_listen'), [sock]))
        E.cover('processed')
        P = E.prove
        P('reuse:application_handler_not_invoked', not log.of(app))
        P('reuse:existing_stream_not_replaced', table.has.eq(h0) and not table.writes)
        P('reuse:answered_with_exactly_one_ERROR_on_that_stream', len(errors) == 1 and errors[0][0] is sid)
        if len(errors) == 1:
            ex = errors[0][1]
            P('reuse:error_is_REJECTED', isinstance(ex, SObj) and ex.cls.issubclass(E.lookup('rsocket/exceptions.py::RSocketStreamIdInUse'))
              and ex.attrs.get('error_code') is E.lookup('rsocket/error_codes.py::ErrorCode').members['REJECTED'])
    return run


for _k in ('response', 'stream', 'channel', 'fnf'):
    for _fr in (False, True):
        harness('e.reuse_of_live_id[%s,%s]' % (_k, 'last-fragment' if _fr else 'single-frame'), ['C13', 'C12'],
                functions=[RL, BASE + '._handle_next_frame', BASE + '._handle_frame_by_type', SC + '.assert_stream_id_available'],
                assumptions=['reassembly is used through its C03 contract: the frame completing a fragmented request makes the cache '
                             'return the whole request frame (class of the first fragment)',
                             'send_error is used through its contract (e.send_payload_error_complete)'])(_reuse_end_to_end(_k, _fr))


# --------------------------------------------------------------------------- C12: the library's own exceptions through the receiver

def _library_exception(cname):
    """Whatever exception class of rsocket/exceptions.py frame handling raises - constructed by its REAL constructor, as
    the library constructs it - the receiver turns it into exactly one ERROR frame on the offending stream and goes on
    (transport errors excepted: they end the connection).  In particular formatting / converting the exception
    (str(), .data, .error_code) must not itself fail."""
    def run(E):
        sock, table, ctable = mk_endpoint(E)
        cls = E.lookup('rsocket/exceptions.py::' + cname)
        init, _ = cls.lookup('__init__')
        args = []
        if init is not None and hasattr(init, 'node'):
            for p in init.node.args.args[1:]:
                if p.arg == 'error_code':
                    codes = E.lookup('rsocket/error_codes.py::ErrorCode').members
                    args.append(codes[sorted(codes)[E.path.choice(len(codes), 'code')]])
                elif p.arg in ('stream_id', 'mimetype_id', 'auth_type_id', 'frame_type_id'):
                    args.append(E.fresh_int(p.arg, 0, 0x7FFFFFFF))
                elif p.arg == 'data':
                    args.append([None, 'text'][E.path.choice(2, 'data')])
                else:
                    args.append('some-' + p.arg)
            n_default = len(init.node.args.defaults)
            if n_default and E.path.choice(2, 'defaults') == 1:
                args = args[:len(args) - n_default]
        exc = E.call(cls, args)
        sid = E.fresh_int('sid', 0, 0x7FFFFFFF)
        f1 = SOpaque('frame', 'frame1', attrs={'stream_id': sid})
        f2 = SOpaque('frame', 'frame2', attrs={'stream_id': E.fresh_int('sid2', 0, 0x7FFFFFFF)})
        transport = SOpaque('transport', 'transport')
        tf = aio.new_future(E, 'result', transport)
        E.stubs[SERVER + '._current_transport'] = lambda E_, f, a, k: tf
        rounds = [0]

        def next_gen(E_, o, m, a, k):
            rounds[0] += 1
            return aio.Awaitable('ready', result=[f1, f2] if rounds[0] == 1 else None)
        log = OpaqueLog(E, returns={'next_frame_generator': next_gen})
        handled = []

        def hnf(E_, fn, a, k):
            handled.append(a[1])
            if a[1] is f1:
                raise PyExc(exc)
            return aio.Awaitable('ready')
        E.stubs[HNF] = hnf
        sent = []
        E.stubs[BASE + '.send_frame'] = lambda E_, fn, a, k: sent.append(a[1])
        is_transport = cls.issubclass(E.lookup('rsocket/exceptions.py::RSocketTransportError'))
        P = E.prove
        try:
            E.await_value(E.call(E.getattr(E.lookup(BASE), '_receiver_listen'), [sock]))
        except PyExc as e:
            E.cover('left-the-loop')
            P('library_exception:only_a_transport_error_ends_the_receiver[%s]' % cname, is_transport and e.value is exc)
            return
        E.cover('contained')
        P('library_exception:contained[%s]' % cname, not is_transport)
        P('library_exception:next_frame_still_processed', handled == [f1, f2])
        P('library_exception:answered_with_exactly_one_ERROR_on_the_offending_stream',
          len(sent) == 1 and is_frame(sent[0], 'ErrorFrame') and E.getattr(sent[0], 'stream_id') is sid)
        if len(sent) == 1:
            d = E.getattr(sent[0], 'data')
            P('library_exception:ERROR_data_is_bytes_or_absent[serialisable]', d is None or is_byteslike(d))
    return run


def _register_library_exceptions():
    import ast as _ast
    import os as _os
    from pyvc.engine import REPO_ROOT
    src = open(_os.path.join(_os.environ.get('PYVC_REPO', REPO_ROOT), 'rsocket', 'exceptions.py')).read()
    names = [n.name for n in _ast.parse(src).body if isinstance(n, _ast.ClassDef)]
    for nm in names:
        harness('e.receiver.library_exception[%s]' % nm, ['C12'], functions=[RL, 'rsocket/frame.py::exception_to_error_frame', BASE + '.send_error'],
                assumptions=['exception classes are taken from rsocket/exceptions.py as it is on this run; each is constructed by its own '
                             'constructor with arbitrary arguments'])(_library_exception(nm))


_register_library_exceptions()
