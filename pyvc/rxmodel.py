"""Assumed contracts of the rx (v3) / reactivex (v4) libraries, as far as the adapters use them (DESIGN 3).

Subject.on_next(v) calls every subscribed on_next(v) synchronously, in subscription order; on_completed likewise.
create(f) gives an Observable whose subscribe(observer) calls f(observer, scheduler).  Operators are opaque."""
from .values import *   # noqa
from . import engine as ENG
from . import models as M
Builtin = ENG.Builtin


def _cls(name, *bases):
    return M._builtin_class('rx.' + name, *bases)


def _subject_ctor(E, cls, args, kwargs):
    return SObj(cls, {'observers': [], 'completed': False})


def _norm_observer(E, args, kwargs):
    obs = args[0] if args else kwargs.get('observer')
    d = {'on_next': kwargs.get('on_next'), 'on_error': kwargs.get('on_error'), 'on_completed': kwargs.get('on_completed'), 'observer': None}
    if obs is not None and not isinstance(obs, (ENG.PyFunc, ENG.BoundMethod, Builtin)):
        d['observer'] = obs
    elif obs is not None:
        d['on_next'] = obs
        if len(args) > 1:
            d['on_error'] = args[1]
        if len(args) > 2:
            d['on_completed'] = args[2]
    return d


def _signal(E, o, name, *vals):
    if o['observer'] is not None:
        return E.call(E.getattr(o['observer'], name), list(vals))
    f = o.get(name)
    if f is not None:
        return E.call(f, list(vals))


def _disposable(E, action=None):
    return SObj(_cls('Disposable'), {'action': action, 'disposed': False})


def _subject_attr(E, s, name):
    if name == 'on_next':
        return Builtin('Subject.on_next', lambda v: [_signal(E, o, 'on_next', v) for o in list(s.attrs['observers'])] and None)
    if name == 'on_completed':
        def done():
            s.attrs['completed'] = True
            for o in list(s.attrs['observers']):
                _signal(E, o, 'on_completed')
        return Builtin('Subject.on_completed', done)
    if name == 'on_error':
        return Builtin('Subject.on_error', lambda e: [_signal(E, o, 'on_error', e) for o in list(s.attrs['observers'])] and None)
    if name == 'subscribe':
        def subscribe(*a, **k):
            o = _norm_observer(E, a, k)
            s.attrs['observers'].append(o)
            return _disposable(E, Builtin('unsubscribe', lambda: s.attrs['observers'].remove(o) if o in s.attrs['observers'] else None))
        return Builtin('Subject.subscribe', subscribe)
    return M.NOATTR


def _observable_attr(E, ob, name):
    if name == 'subscribe':
        def subscribe(*a, **k):
            o = _norm_observer(E, a, k)
            ob.attrs.setdefault('subscriptions', []).append(o)
            fn = ob.attrs.get('subscribe_fn')
            if fn is not None:
                target = o['observer'] if o['observer'] is not None else SObj(_cls('AnonymousObserver'), dict(o))
                return E.call(fn, [target, None])
            hook = getattr(E, 'rx_subscribe_hook', None)
            if hook is not None:
                return hook(E, ob, o)
            return _disposable(E)
        return Builtin('Observable.subscribe', subscribe)
    if name == 'pipe':
        return Builtin('Observable.pipe', lambda *ops: SObj(_cls('Observable'), {'source': ob, 'operators': list(ops)}))
    return M.NOATTR


def _anon_attr(E, o, name):
    if name in ('on_next', 'on_error', 'on_completed'):
        f = o.attrs.get(name)
        return Builtin('observer.' + name, lambda *v: E.call(f, list(v)) if f is not None else None)
    return M.NOATTR


def _disposable_attr(E, d, name):
    if name == 'dispose':
        def dispose():
            if not d.attrs['disposed']:
                d.attrs['disposed'] = True
                if d.attrs['action'] is not None:
                    E.call(d.attrs['action'], [])
        return Builtin('Disposable.dispose', dispose)
    return M.NOATTR


def make_rx_module(E, name):
    Subject, Observable, Observer = _cls('Subject'), _cls('Observable'), _cls('Observer')
    OnNext, OnError, OnCompleted, Notification = _cls('OnNext'), _cls('OnError'), _cls('OnCompleted'), _cls('Notification')
    Disp = _cls('Disposable')
    M.CLASS_CTOR_MODELS['rx.Subject'] = _subject_ctor
    M.OBJ_ATTR_MODELS['rx.Subject'] = _subject_attr
    M.OBJ_ATTR_MODELS['rx.Observable'] = _observable_attr
    M.OBJ_ATTR_MODELS['rx.AnonymousObserver'] = _anon_attr
    M.OBJ_ATTR_MODELS['rx.Disposable'] = _disposable_attr
    M.CLASS_CTOR_MODELS['rx.Disposable'] = lambda E_, c, a, k: _disposable(E_, a[0] if a else k.get('action'))
    M.CLASS_CTOR_MODELS['rx.OnNext'] = lambda E_, c, a, k: SObj(c, {'value': a[0], 'kind': 'N'})
    M.CLASS_CTOR_MODELS['rx.OnError'] = lambda E_, c, a, k: SObj(c, {'exception': a[0], 'kind': 'E'})
    M.CLASS_CTOR_MODELS['rx.OnCompleted'] = lambda E_, c, a, k: SObj(c, {'kind': 'C'})

    def op(n):
        return Builtin('operators.' + n, lambda *a, **k: SOpaque('operator', n, attrs={'args': a}))
    operators = M.ExternModule(name + '.operators', {n: op(n) for n in ('map', 'filter', 'default_if_empty', 'to_future', 'materialize',
                                                                       'to_list', 'take', 'do_action', 'delay', 'flat_map', 'concat_map')})
    create = Builtin('create', lambda fn: SObj(Observable, {'subscribe_fn': fn}))
    from_future = Builtin('from_future', lambda f: SObj(Observable, {'from_future': f}))
    top = dict(Subject=Subject, Observable=Observable, Observer=Observer, create=create, from_future=from_future, operators=operators,
               OnNext=OnNext, OnError=OnError, OnCompleted=OnCompleted, Notification=Notification, Disposable=Disp,
               ObserverBase=Observer, materialize=operators.attrs['materialize'],
               empty=Builtin('empty', lambda *a: SObj(Observable, {'empty': True})),
               from_iterable=Builtin('from_iterable', lambda it, *a: SObj(Observable, {'iterable': it})),
               of=Builtin('of', lambda *a: SObj(Observable, {'iterable': list(a)})))
    return M.ExternModule(name, top)
