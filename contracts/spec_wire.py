"""Wire-format spec functions (the C02 oracle), written from the RSocket 1.0 frame layouts, NOT from frame.py.

HDR(s, t, F) = be4(s) ++ be2(t*2^10 + F)       F: I=0x200 M=0x100, type bits 0x80/0x40/0x20
MD(m)        = be3(len m) ++ m   if m non-empty else empty
Every function returns an SBytes built from the symbolic field terms.
"""
import z3

from pyvc.values import *   # noqa
from pyvc import models as M

T_SETUP, T_LEASE, T_KEEPALIVE, T_RR, T_FNF, T_STREAM, T_CHANNEL, T_REQUEST_N, T_CANCEL, T_PAYLOAD, T_ERROR, \
    T_MDPUSH, T_RESUME, T_RESUME_OK = range(1, 15)

F_IGNORE, F_METADATA, F_B7, F_B6, F_B5 = 0x200, 0x100, 0x80, 0x40, 0x20


def bit(b):
    """bool/SBool/z3 -> Int term 0/1"""
    if isinstance(b, bool):
        return z3.IntVal(1 if b else 0)
    return z3.If(B(b), z3.IntVal(1), z3.IntVal(0))


def blen(v):
    """length term of bytes-or-None"""
    if v is None:
        return z3.IntVal(0)
    return lift_bytes(v).len_term()


def bval(v):
    return lift_bytes(b'' if v is None else v)


def be(x, k):
    return M.be_bytes(I(x) if not isinstance(x, int) else x, k)


def cat(*parts):
    return M.b_concat_all(parts)


def HDR(stream_id, t, flag_bits):
    """flag_bits: list of 10 booleans MSB first (I, M, b7, b6, b5, 0, 0, 0, 0, 0); type is the 6 bits above them."""
    from pyvc import bitform as BF
    E = M.CUR_ENGINE[0]
    segs = []
    for b in reversed(flag_bits):
        if isinstance(b, bool):
            segs.append(('c', 1 if b else 0, 1))
        else:
            segs.append(('b', B(b)))
    segs.append(('c', t, 6))
    segs = BF.normalize(segs)
    c = BF.as_const(segs)
    w = c if c is not None else BF.to_term(E.path, segs)
    return cat(be(stream_id, 4), be(w, 2))


def cond_bytes(c, v):
    """v if c else b''   (c: z3 Bool)"""
    v = lift_bytes(v)
    c = z3.simplify(c)
    if z3.is_true(c):
        return v
    if z3.is_false(c):
        return lift_bytes(b'')
    n = z3.If(c, v.len_term(), z3.IntVal(0))
    return SBytes(z3.simplify(n), v.at)


def MD(m):
    """3-byte length + metadata when non-empty"""
    m = bval(m)
    ne = m.len_term() > 0
    return cond_bytes(ne, cat(be(m.len_term(), 3), m))


def flags(ignore, md, b7=False, b6=False, b5=False):
    has_md = mk_bool(blen(md) > 0)
    return [ignore, has_md, b7, b6, b5, False, False, False, False, False]


def ENC(t, f):
    """f: dict of field values (engine values).  Returns the expected encoding (without the length prefix)."""
    s, ig, md, d = f['stream_id'], f['flags_ignore'], f.get('metadata'), f.get('data')
    if t == T_SETUP:
        body = cat(be(f['major_version'], 2), be(f['minor_version'], 2), be(f['keep_alive_milliseconds'], 4),
                   be(f['max_lifetime_milliseconds'], 4))
        if f['flags_resume'] is True:
            tok = bval(f['resume_identification_token'])
            body = cat(body, be(tok.len_term(), 2), tok)
        me, de = bval(f['metadata_encoding']), bval(f['data_encoding'])
        body = cat(body, be(me.len_term(), 1), me, be(de.len_term(), 1), de)
        return cat(HDR(s, t, flags(ig, md, b7=f['flags_resume'], b6=f['flags_lease'])), body, MD(md), bval(d))
    if t == T_LEASE:
        return cat(HDR(s, t, flags(ig, md)), be(f['time_to_live'], 4), be(f['number_of_requests'], 4), bval(md))
    if t == T_KEEPALIVE:
        return cat(HDR(s, t, flags(ig, None, b7=f['flags_respond'])), be(f['last_received_position'], 8), bval(d))
    if t in (T_RR, T_FNF):
        return cat(HDR(s, t, flags(ig, md, b7=f['flags_follows'])), MD(md), bval(d))
    if t == T_STREAM:
        return cat(HDR(s, t, flags(ig, md, b7=f['flags_follows'])), be(f['initial_request_n'], 4), MD(md), bval(d))
    if t == T_CHANNEL:
        return cat(HDR(s, t, flags(ig, md, b7=f['flags_follows'], b6=f['flags_complete'])), be(f['initial_request_n'], 4),
                   MD(md), bval(d))
    if t == T_REQUEST_N:
        return cat(HDR(s, t, flags(ig, None)), be(f['request_n'], 4))
    if t == T_CANCEL:
        return HDR(s, t, flags(ig, None))
    if t == T_PAYLOAD:
        content = z3.Or(blen(md) > 0, blen(d) > 0)
        nxt = mk_bool(z3.Or(B(f['flags_next']), content))
        return cat(HDR(s, t, flags(ig, md, b7=f['flags_follows'], b6=f['flags_complete'], b5=nxt)), MD(md), bval(d))
    if t == T_ERROR:
        return cat(HDR(s, t, flags(ig, None)), be(f['error_code'], 4), bval(d))
    if t == T_MDPUSH:
        return cat(HDR(s, t, flags(ig, md)), bval(md))
    if t == T_RESUME:
        tok = bval(f['resume_identification_token'])
        return cat(HDR(s, t, flags(ig, None)), be(f['major_version'], 2), be(f['minor_version'], 2), be(tok.len_term(), 2),
                   tok, be(f['last_server_position'], 8), be(f['first_client_position'], 8))
    if t == T_RESUME_OK:
        return cat(HDR(s, t, flags(ig, None)), be(f['last_received_client_position'], 8))
    raise ValueError(t)


def with_length_prefix(enc):
    return cat(be(lift_bytes(enc).len_term(), 3), enc)
