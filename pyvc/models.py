"""Models of Python built-ins, operators and the external modules the repository uses.

Everything here is part of the *trusted base*: it states what CPython / struct /
cbitstruct / io / asyncio / datetime do.  The models are conformance-checked
against the real implementations by pyvc.conformance (bounded).
"""
import ast

import z3

from .values import *   # noqa
from . import engine as ENG
from . import bitform as BF
Builtin = ENG.Builtin

NOATTR = object()
CUR_ENGINE = [None]


def host(fn):
    fn._pyvc_host = True
    return fn


# =========================================================================== helpers on ints

def _pow2(k):
    return 1 << k


def _is_mask(c):
    """c == 2^k - 1 ?  -> k or None"""
    if c >= 0 and (c & (c + 1)) == 0:
        return c.bit_length()
    return None


def bit_of(x, b):
    """bit b of Int term x (as Int 0/1), valid for all integers (two's complement)."""
    return (x / _pow2(b)) % 2       # z3 Int '/' is floor div for positive divisor


def int_and_const(x, c):
    """x & c for z3 Int term x and Python int c."""
    if c >= 0:
        k = _is_mask(c)
        if k is not None:
            return x % _pow2(k) if k > 0 else z3.IntVal(0)
        # contiguous run of ones  c = (2^w - 1) << s
        s = (c & -c).bit_length() - 1
        w = _is_mask(c >> s)
        if w is not None:
            return ((x / _pow2(s)) % _pow2(w)) * _pow2(s)
        r = z3.IntVal(0)
        b = 0
        cc = c
        while cc:
            if cc & 1:
                r = r + bit_of(x, b) * _pow2(b)
            cc >>= 1
            b += 1
        return r
    # c negative: c = ~m with m >= 0 ;  x & ~m = x - (x & m)
    m = ~c
    return x - int_and_const(x, m)


def iform(E, v):
    """BitForm of an engine int value, or None."""
    if isinstance(v, bool):
        return BF.of(E.path, int(v))
    if isinstance(v, int):
        return BF.of(E.path, v)
    if isinstance(v, EnumMember) and v.cls.is_int_enum:
        return BF.of(E.path, v.value)
    if isinstance(v, SBool):
        return BF.normalize([('b', v.e)])
    if isinstance(v, SInt):
        return BF.of(E.path, v.e)
    if is_z3(v):
        return BF.of(E.path, v)
    return None


def from_form(E, segs):
    c = BF.as_const(BF.normalize(segs))
    if c is not None:
        return c
    return mk_int_keep(BF.to_term(E.path, segs))


def mk_int_keep(e):
    """like mk_int but does not re-simplify (keeps the registered canonical term)"""
    if z3.is_int_value(e):
        return e.as_long()
    return SInt(e)


def find_width(E, terms, limit=64):
    """Smallest W in (8,16,32,64) such that the path condition implies 0 <= t < 2^W for all terms."""
    for W in (8, 16, 32, 64):
        ok = True
        for t in terms:
            if E.path.check(z3.Or(t < 0, t >= _pow2(W))) != z3.unsat:
                ok = False
                break
        if ok:
            return W
    return None


def int_bitop(E, op, l, r):
    lc = l if isinstance(l, int) else (l.value if isinstance(l, EnumMember) else None)
    rc = r if isinstance(r, int) else (r.value if isinstance(r, EnumMember) else None)
    if isinstance(l, bool):
        lc = int(l)
    if isinstance(r, bool):
        rc = int(r)
    if not (lc is not None and rc is not None):
        fa, fb = iform(E, l), iform(E, r)
        opn = {ast.BitAnd: 'and', ast.BitOr: 'or', ast.BitXor: 'xor'}[type(op)]
        if fa is not None and fb is not None:
            res = BF.bitwise(opn, fa, fb)
            if res is not None:
                return from_form(E, res)
        # x & negative constant  (= clear the bits of ~c)
        for f_, c_ in ((fa, rc), (fb, lc)):
            if f_ is not None and c_ is not None and c_ < 0 and isinstance(op, ast.BitAnd):
                w = max(BF.width(f_), 1)
                mask = ((1 << w) - 1) & c_
                res = BF.bitwise('and', f_, BF.normalize([('c', mask, w)]))
                if res is not None:
                    return from_form(E, res)
    if lc is not None and rc is not None:
        if isinstance(op, ast.BitAnd):
            return lc & rc
        if isinstance(op, ast.BitOr):
            return lc | rc
        return lc ^ rc
    if isinstance(op, ast.BitAnd):
        if rc is not None:
            return mk_int(int_and_const(I(l), rc))
        if lc is not None:
            return mk_int(int_and_const(I(r), lc))
    if isinstance(op, ast.BitOr):
        # x | c = x + c - (x & c)
        if rc is not None:
            return mk_int(I(l) + rc - int_and_const(I(l), rc))
        if lc is not None:
            return mk_int(I(r) + lc - int_and_const(I(r), lc))
    # both symbolic: bit-blast over a proved width
    x, y = I(l), I(r)
    W = find_width(E, [x, y])
    if W is None:
        raise Unsupported('bit operation on unbounded symbolic ints')
    acc = z3.IntVal(0)
    for b in range(W):
        bx, by = bit_of(x, b), bit_of(y, b)
        if isinstance(op, ast.BitAnd):
            bit = z3.If(z3.And(bx == 1, by == 1), 1, 0)
        elif isinstance(op, ast.BitOr):
            bit = z3.If(z3.Or(bx == 1, by == 1), 1, 0)
        else:
            bit = z3.If(bx != by, 1, 0)
        acc = acc + bit * _pow2(b)
    return mk_int(acc)


def round_half_even(x):
    n = z3.ToInt(x)
    frac = x - z3.ToReal(n)
    half = z3.RealVal(1) / 2
    return z3.If(frac < half, n, z3.If(frac > half, n + 1, z3.If(n % 2 == 0, n, n + 1)))


# =========================================================================== bytes helpers

def b_len(v):
    v = lift_bytes(v)
    return v.n


def b_concat(a, b):
    a, b = lift_bytes(a), lift_bytes(b)
    if a.conc is not None and b.conc is not None:
        return lift_bytes(a.conc + b.conc)
    if isinstance(a.n, int) and a.n == 0:
        return b
    if isinstance(b.n, int) and b.n == 0:
        return a
    la = a.len_term()
    n = mk_int(la + b.len_term())
    n = n.e if isinstance(n, SInt) else n

    def at(i, a=a, b=b, la=la):
        if isinstance(i, int):
            i = z3.IntVal(i)
        c = known(z3.simplify(i < la))
        if c is True:
            return a.at(i)
        if c is False:
            return b.at(z3.simplify(i - la))
        return z3.If(i < la, a.at(i), b.at(i - la))
    return SBytes(n, at)


def known(cond):
    """True / False when the current path condition decides cond, else None (solver-aided simplification)."""
    if z3.is_true(cond):
        return True
    if z3.is_false(cond):
        return False
    E = CUR_ENGINE[0]
    if E is None or E.path is None:
        return None
    cache = E.path.__dict__.setdefault('_known', {})
    key = (cond.get_id(), len(E.path.pc))
    if key in cache:
        return cache[key][1]
    r = None
    if E.path.check(z3.Not(cond)) == z3.unsat:
        r = True
    elif E.path.check(cond) == z3.unsat:
        r = False
    cache[key] = (cond, r)
    return r


def b_concat_all(parts):
    parts = list(parts)
    if not parts:
        return lift_bytes(b'')
    r = lift_bytes(parts[-1])
    for p in reversed(parts[:-1]):
        r = b_concat(p, r)
    return r


def _clip(i, n, default):
    """Python slice bound clipping; i is None | int | z3 term ; n z3 term or int"""
    if i is None:
        return default
    if isinstance(i, int) and isinstance(n, int):
        if i < 0:
            i += n
            if i < 0:
                i = 0
        return min(i, n)
    it = I(i) if not is_z3(i) else i
    nt = n if is_z3(n) else z3.IntVal(n)
    r = z3.If(it < 0, z3.If(it + nt < 0, z3.IntVal(0), it + nt), z3.If(it > nt, nt, it))
    r = z3.simplify(r)
    if z3.is_int_value(r):
        return r.as_long()
    return r


def b_slice(E, v, lo, hi):
    v = lift_bytes(v)
    n = v.n
    lo = lo.e if isinstance(lo, SInt) else lo
    hi = hi.e if isinstance(hi, SInt) else hi
    if v.conc is not None and (lo is None or isinstance(lo, int)) and (hi is None or isinstance(hi, int)):
        return lift_bytes(v.conc[lo:hi])
    # try to decide clipping with the path condition to keep terms small
    a = _simpl_bound(E, lo, n, 0)
    b = _simpl_bound(E, hi, n, n)
    at_ = a if is_z3(a) else z3.IntVal(a)
    bt_ = b if is_z3(b) else z3.IntVal(b)
    ln = z3.simplify(z3.If(bt_ - at_ < 0, z3.IntVal(0), bt_ - at_))
    if z3.is_int_value(ln):
        ln = ln.as_long()
    else:
        # decide sign with the solver when possible
        if E.path.check(bt_ - at_ < 0) == z3.unsat:
            ln = z3.simplify(bt_ - at_)
            if z3.is_int_value(ln):
                ln = ln.as_long()
        elif E.path.check(bt_ - at_ > 0) == z3.unsat:
            ln = 0

    def at(i, v=v, at_=at_):
        if isinstance(i, int):
            i = z3.IntVal(i)
        return v.at(z3.simplify(at_ + i))
    if isinstance(ln, int) and ln == 0:
        return lift_bytes(b'')
    return SBytes(ln, at)


def _simpl_bound(E, i, n, default):
    if i is None:
        return default
    if isinstance(i, int) and isinstance(n, int):
        return _clip(i, n, default)
    it = I(i) if not is_z3(i) else i
    nt = n if is_z3(n) else z3.IntVal(n)
    p = E.path
    # common case: 0 <= i <= n
    if p.check(z3.Or(it < 0, it > nt)) == z3.unsat:
        r = z3.simplify(it)
        return r.as_long() if z3.is_int_value(r) else r
    if p.check(z3.Or(it < 0, it <= nt)) == z3.unsat:       # i > n always
        return n
    if p.check(it < 0) == z3.unsat:                         # i >= 0, may exceed n
        r = z3.simplify(z3.If(it > nt, nt, it))
        return r
    return _clip(it, n, default)


def b_index(E, v, i):
    """v[i] with IndexError."""
    v = lift_bytes(v)
    if v.conc is not None and isinstance(i, int):
        try:
            return v.conc[i]
        except IndexError:
            E.throw('IndexError', 'index out of range')
    it = I(i)
    nt = v.len_term()
    inb = mk_bool(z3.And(it >= -nt, it < nt))
    if not E.decide(inb, 'index'):
        E.throw('IndexError', 'index out of range')
    neg = mk_bool(it < 0)
    if isinstance(neg, SBool):
        if E.path.check(neg.e) == z3.unsat:
            neg = False
        elif E.path.check(z3.Not(neg.e)) == z3.unsat:
            neg = True
    if neg is True:
        it = it + nt
    elif neg is not False:
        it = z3.If(it < 0, it + nt, it)
    return mk_int(v.at(it))


def b_from_ints(vals):
    """bytes made of the given list of Int terms / python ints (each already known to be in 0..255)."""
    if all(isinstance(x, int) for x in vals):
        return lift_bytes(bytes(vals))
    terms = [x if is_z3(x) else z3.IntVal(x) for x in vals]

    def at(i, terms=terms):
        if isinstance(i, int):
            return terms[i] if 0 <= i < len(terms) else z3.IntVal(0)
        i = z3.simplify(i)
        if z3.is_int_value(i):
            k = i.as_long()
            return terms[k] if 0 <= k < len(terms) else z3.IntVal(0)
        if len(terms) <= 16:
            for k in range(len(terms)):
                if known(i == k) is True:
                    return terms[k]
        r = z3.IntVal(0)
        for k in range(len(terms) - 1, -1, -1):
            r = z3.If(i == k, terms[k], r)
        return r
    return SBytes(len(terms), at)


def be_bytes(x, k):
    """k-byte big-endian encoding of Int term x assumed in range."""
    if isinstance(x, int):
        return lift_bytes(x.to_bytes(k, 'big'))
    E = CUR_ENGINE[0]
    f = BF.of(E.path, x)
    if f is None:
        f = [('x', x, 0, 8 * k)]
    out = []
    for j in range(k):
        seg = BF.extract(f, 8 * (k - 1 - j), 8)
        c = BF.as_const(seg)
        out.append(c if c is not None else BF.to_term(E.path, seg))
    return b_from_ints(out)


def be_int(v, off, k):
    """big-endian unsigned int from k bytes of v at offset off (term)."""
    off = off if is_z3(off) else z3.IntVal(off)
    E = CUR_ENGINE[0]
    terms = [v.at(z3.simplify(off + j)) for j in range(k)]
    forms = [BF.of(E.path, t) for t in terms]
    if all(f is not None for f in forms):
        segs = BF.concat_le([(f, 8) for f in reversed(forms)])
        c = BF.as_const(segs)
        return z3.IntVal(c) if c is not None else BF.to_term(E.path, segs)
    acc = z3.IntVal(0)
    for t in terms:
        acc = acc * 256 + t
    return acc


def b_eq_goal(E, a, b, tag='k'):
    """z3 formula equivalent (for *proving*) to a == b : lengths equal and equal at a fresh skolem index."""
    if not isinstance(a, (bytes, bytearray, SBytes, SByteArray)) or not isinstance(b, (bytes, bytearray, SBytes, SByteArray)):
        # a value that is no byte string at all (None, an object) is not equal to one: the goal is simply false
        return z3.BoolVal(False)
    a, b = lift_bytes(a), lift_bytes(b)
    k = z3.Int(E.path.fresh_name('sk.' + tag))
    la, lb = a.len_term(), b.len_term()
    return z3.And(la == lb, z3.Implies(z3.And(k >= 0, k < la), a.at(k) == b.at(k)))


def b_eq_code(E, a, b):
    """a == b evaluated inside interpreted code (must be usable positively and negatively)."""
    a, b = lift_bytes(a), lift_bytes(b)
    if a.conc is not None and b.conc is not None:
        return a.conc == b.conc
    if isinstance(a.n, int) and isinstance(b.n, int):
        if a.n != b.n:
            return False
        return mk_bool(z3.And([a.at(z3.IntVal(i)) == b.at(z3.IntVal(i)) for i in range(a.n)]))
    for x, y in ((a, b), (b, a)):
        if isinstance(x.n, int) and x.n <= 256:
            return mk_bool(z3.And([y.len_term() == x.n] + [x.at(z3.IntVal(i)) == y.at(z3.IntVal(i)) for i in range(x.n)]))
    raise Unsupported('equality of two symbolic byte strings inside code')


# =========================================================================== struct

STRUCT_CODES = {'B': (1, False), 'b': (1, True), 'H': (2, False), 'h': (2, True), 'I': (4, False), 'i': (4, True),
                'L': (4, False), 'l': (4, True), 'Q': (8, False), 'q': (8, True)}


def struct_parse(fmt):
    if not isinstance(fmt, str):
        raise Unsupported('symbolic struct format')
    f = fmt
    if f and f[0] in '><!=@':
        if f[0] == '<':
            raise Unsupported('little-endian struct format')
        if f[0] in '=@' and len(f) > 2:
            raise Unsupported('native struct format with several fields')
        f = f[1:]
    items = []
    num = ''
    for ch in f:
        if ch.isdigit():
            num += ch
            continue
        if ch == ' ':
            continue
        if ch not in STRUCT_CODES:
            raise Unsupported('struct code %r' % ch)
        cnt = int(num) if num else 1
        num = ''
        for _ in range(cnt):
            items.append(STRUCT_CODES[ch])
    return items


def struct_size(items):
    return sum(sz for sz, _ in items)


def struct_pack_vals(E, items, vals):
    if len(vals) != len(items):
        E.throw('struct.error', 'pack expected %d items for packing (got %d)' % (len(items), len(vals)))
    parts = []
    for (sz, signed), v in zip(items, vals):
        if not is_intlike(v) or isinstance(v, SBool) and False:
            if isinstance(v, (SReal, float, SBytes, bytes, str, SStr)) or v is None or isinstance(v, (SObj, SOpaque)):
                E.throw('struct.error', 'required argument is not an integer')
            raise Unsupported('struct.pack of %r' % (v,))
        x = I(v)
        lo, hi = (-(1 << (8 * sz - 1)), (1 << (8 * sz - 1)) - 1) if signed else (0, (1 << (8 * sz)) - 1)
        inr = mk_bool(z3.And(x >= lo, x <= hi))
        if not E.decide(inr, 'struct-range'):
            E.throw('struct.error', 'argument out of range')
        if signed:
            x = z3.If(x < 0, x + (1 << (8 * sz)), x)
        xs = z3.simplify(x)
        if z3.is_int_value(xs):
            parts.append(lift_bytes(xs.as_long().to_bytes(sz, 'big')))
        else:
            parts.append(be_bytes(x, sz))
    return b_concat_all(parts)


def struct_unpack_at(E, items, buf, off):
    out = []
    off = off if is_z3(off) else z3.IntVal(off)
    for sz, signed in items:
        x = be_int(buf, off, sz)
        if signed:
            x = z3.If(x >= (1 << (8 * sz - 1)), x - (1 << (8 * sz)), x)
        out.append(mk_int(x))
        off = z3.simplify(off + sz)
    return tuple(out)


def make_struct_module(E):
    def pack(fmt, *vals):
        return struct_pack_vals(E, struct_parse(fmt), vals)

    def unpack(fmt, buf):
        if not is_byteslike(buf):
            E.throw('TypeError', 'a bytes-like object is required')
        items = struct_parse(fmt)
        b = lift_bytes(buf)
        ok = mk_bool(b.len_term() == struct_size(items))
        if not E.decide(ok, 'struct-len'):
            E.throw('struct.error', 'unpack requires a buffer of %d bytes' % struct_size(items))
        return struct_unpack_at(E, items, b, 0)

    def unpack_from(fmt, buf, offset=0):
        if not is_byteslike(buf):
            E.throw('TypeError', 'a bytes-like object is required')
        items = struct_parse(fmt)
        b = lift_bytes(buf)
        off = I(offset)
        n = b.len_term()
        neg = mk_bool(off < 0)
        if E.decide(neg, 'struct-negoff'):
            ok2 = mk_bool(off + n >= 0)
            if not E.decide(ok2, 'struct-negoff2'):
                E.throw('struct.error', 'offset out of range')
            off = off + n
        ok = mk_bool(n - off >= struct_size(items))
        if not E.decide(ok, 'struct-len'):
            E.throw('struct.error', 'unpack_from requires a buffer of at least %d bytes' % struct_size(items))
        return struct_unpack_at(E, items, b, off)

    def pack_into(fmt, buf, offset, *vals):
        if not isinstance(buf, SByteArray):
            E.throw('TypeError', 'argument must be read-write bytes-like object')
        items = struct_parse(fmt)
        off = I(offset)
        n = buf.val.len_term()
        if E.decide(mk_bool(off < 0), 'struct-negoff'):
            raise Unsupported('pack_into with negative offset')
        ok = mk_bool(n - off >= struct_size(items))
        if not E.decide(ok, 'struct-len'):
            E.throw('struct.error', 'pack_into requires a buffer of at least %d bytes' % struct_size(items))
        data = struct_pack_vals(E, items, vals)
        sz = struct_size(items)
        buf.val = b_splice(E, buf.val, off, z3.simplify(off + sz), data)
        return None

    def calcsize(fmt):
        return struct_size(struct_parse(fmt))
    def Struct(fmt):
        # a precompiled format: the same operations with the format fixed
        return SOpaque('struct.Struct', 'Struct(%r)' % (fmt,), attrs=dict(
            pack=Builtin('Struct.pack', lambda *v: pack(fmt, *v)),
            unpack=Builtin('Struct.unpack', lambda buf: unpack(fmt, buf)),
            unpack_from=Builtin('Struct.unpack_from', lambda buf, offset=0: unpack_from(fmt, buf, offset)),
            pack_into=Builtin('Struct.pack_into', lambda buf, offset, *v: pack_into(fmt, buf, offset, *v)),
            size=calcsize(fmt), format=fmt))
    return ExternModule('struct', dict(Struct=Builtin('struct.Struct', Struct),
                                       pack=Builtin('struct.pack', pack), unpack=Builtin('struct.unpack', unpack),
                                       unpack_from=Builtin('struct.unpack_from', unpack_from),
                                       pack_into=Builtin('struct.pack_into', pack_into),
                                       calcsize=Builtin('struct.calcsize', calcsize),
                                       error=ENG.EXC['struct.error']))


def b_splice(E, v, lo, hi, data):
    """v[:lo] + data + v[hi:]   (lo, hi already clipped terms/ints with 0<=lo<=hi<=len)"""
    v = lift_bytes(v)
    data = lift_bytes(data)
    left = b_slice(E, v, None, mk_int(lo) if is_z3(lo) else lo)
    right = b_slice(E, v, mk_int(hi) if is_z3(hi) else hi, None)
    return b_concat(b_concat(left, data), right)


# =========================================================================== cbitstruct

def cbit_parse(fmt):
    items = []
    i = 0
    while i < len(fmt):
        kind = fmt[i]
        i += 1
        num = ''
        while i < len(fmt) and fmt[i].isdigit():
            num += fmt[i]
            i += 1
        if kind not in 'ub' or not num:
            raise Unsupported('cbitstruct format %r' % fmt)
        items.append((kind, int(num)))
    return items


def make_cbitstruct_module(E):
    def unpack_bits(items, b):
        total = sum(w for _, w in items)
        nbytes = (total + 7) // 8
        if not E.decide(mk_bool(b.len_term() >= nbytes), 'cbit-len'):
            E.throw('TypeError', 'unpack() requires a buffer of at least %d bytes' % nbytes)
        whole = be_int(b, 0, nbytes)           # value of the first nbytes bytes
        pad = nbytes * 8 - total
        out = []
        pos = 0
        for kind, w in items:
            shift = nbytes * 8 - pos - w
            fw = BF.of(E.path, whole)
            if fw is not None:
                seg = BF.extract(fw, shift, w)
                if kind == 'b':
                    e = BF.eq_const(E.path, seg, 0)
                    out.append((not e) if isinstance(e, bool) else mk_bool(z3.Not(e)))
                else:
                    out.append(from_form(E, seg))
                pos += w
                continue
            x = (whole / _pow2(shift)) % _pow2(w)
            if kind == 'b':
                out.append(mk_bool(x != 0))
            else:
                out.append(mk_int(x))
            pos += w
        return tuple(out)

    def unpack(fmt, buf):
        if not is_byteslike(buf):
            E.throw('TypeError', 'a bytes-like object is required')
        return unpack_bits(cbit_parse(fmt), lift_bytes(buf))

    def unpack_from(fmt, buf, offset=0):
        if not (isinstance(offset, int) and offset == 0):
            raise Unsupported('cbitstruct.unpack_from with non-zero bit offset')
        return unpack(fmt, buf)

    def pack(fmt, *vals):
        items = cbit_parse(fmt)
        if len(vals) != len(items):
            E.throw('TypeError', 'pack expected %d items' % len(items))
        total = sum(w for _, w in items)
        nbytes = (total + 7) // 8
        acc = z3.IntVal(0)
        for (kind, w), v in zip(items, vals):
            if kind == 'b':
                x = z3.If(B(E.truth(v)), 1, 0) if not isinstance(E.truth(v), bool) else z3.IntVal(int(E.truth(v)))
            else:
                if not is_intlike(v):
                    E.throw('TypeError', 'failed to parse arguments')
                x = I(v)
                if not E.decide(mk_bool(z3.And(x >= 0, x < _pow2(w))), 'cbit-range'):
                    E.throw('TypeError', 'failed to parse arguments')
            acc = acc * _pow2(w) + x
        acc = acc * _pow2(nbytes * 8 - total)
        parts = []
        okf = True
        for (kind, w), v in zip(items, vals):
            fv = BF.normalize([('b', B(E.truth(v)))]) if kind == 'b' else iform(E, v)
            if fv is None:
                okf = False
                break
            parts.append((fv, w))
        if okf:
            segs = BF.shl(BF.concat_le(list(reversed(parts))), nbytes * 8 - total)
            c = BF.as_const(segs)
            return be_bytes(c if c is not None else BF.to_term(E.path, segs), nbytes)
        return be_bytes(z3.simplify(acc), nbytes)
    return ExternModule('cbitstruct', dict(pack=Builtin('cbitstruct.pack', pack), unpack=Builtin('cbitstruct.unpack', unpack),
                                           unpack_from=Builtin('cbitstruct.unpack_from', unpack_from)))


# =========================================================================== extern modules

class ExternModule:
    def __init__(self, name, attrs=None, fallback_extern=True):
        self.name = name
        self.attrs = attrs or {}
        self.fallback_extern = fallback_extern

    def getattr(self, E, name):
        if name in self.attrs:
            return self.attrs[name]
        if self.fallback_extern:
            return Extern(self.name + '.' + name)
        E.throw('AttributeError', "module '%s' has no attribute '%s'" % (self.name, name))

    def __repr__(self):
        return '<extern module %s>' % self.name


class OpaqueMethod:
    def __init__(self, obj, name):
        self.obj = obj
        self.name = name

    def __repr__(self):
        return '<opaque method %s.%s>' % (self.obj, self.name)


class Coroutine:
    def __init__(self, func, env):
        self.func = func
        self.env = env
        self.started = False


class CtxManagerFromGen:
    def __init__(self, gen):
        self.gen = gen


class SymIter:
    """Iteration over a symbolic collection; .cut() implements the loop rule."""

    def cut(self, E, node, env, spec, qual, k):
        raise Unsupported('SymIter.cut')


class SymSeq:
    """A snapshot of a symbolic queue's content as a sequence: elements ids arr[lo..hi-1] (lo <= hi).  Supports slicing with
    concrete bounds (Python's clamping) and universally / existentially quantified reductions (any / all over a generator
    expression): enough for scans such as `any(pred(x) for x in list(q)[1:])` - for every length, without unrolling."""

    def __init__(self, arr, lo, hi, name, elem=None):
        self.arr, self.lo, self.hi, self.name = arr, lo, hi, name
        self.elem = elem            # None: element j is the queue item with id arr[j]; else elem(E, j) (e.g. the integer j of a range)

    def slice(self, start, stop):
        n = self.hi - self.lo

        def pos(b, default):
            if b is None:
                return default
            if not isinstance(b, int) or isinstance(b, bool):
                raise Unsupported('slice of a symbolic sequence with a symbolic bound')
            if b >= 0:
                return z3.If(n >= b, z3.IntVal(b), n)
            return z3.If(n + b >= 0, n + b, z3.IntVal(0))
        a, b = pos(start, z3.IntVal(0)), pos(stop, n)
        return SymSeq(self.arr, z3.simplify(self.lo + a), z3.simplify(self.lo + z3.If(b >= a, b, a)), self.name, self.elem)


class SymSeqIteration(Unsupported):
    """raised by concrete_iter for a SymSeq: the caller either knows a quantified rule for it or reports Unsupported"""

    def __init__(self, seq):
        Unsupported.__init__(self, 'iteration over a sequence of symbolic length (%s) outside any()/all() over a generator expression' % seq.name)
        self.seq = seq


class SymGen:
    """generator expression `elt for target in <SymSeq>` (one clause, no filter), not yet consumed"""

    def __init__(self, seq, node, env):
        self.seq, self.node, self.env = seq, node, env


class BlackHole:
    """logger(): every attribute is a no-op callable."""

    def __repr__(self):
        return '<blackhole>'


_ENUM_BASE = None
_INT_ENUM_BASE = None


def _enum_bases():
    global _ENUM_BASE, _INT_ENUM_BASE
    if _ENUM_BASE is None:
        _ENUM_BASE = ENG.PyClass('Enum', [ENG.OBJECT], builtin=True)
        _ENUM_BASE.is_enum = True
        _INT_ENUM_BASE = ENG.PyClass('IntEnum', [_ENUM_BASE], builtin=True)
        _INT_ENUM_BASE.is_enum = True
        _INT_ENUM_BASE.is_int_enum = True
    return _ENUM_BASE, _INT_ENUM_BASE


def _builtin_class(name, *bases):
    c = ENG.EXC.get(name)
    if c is None:
        c = ENG.PyClass(name, [ENG.EXC[b] if isinstance(b, str) else b for b in bases] or [ENG.OBJECT], builtin=True)
        ENG.EXC[name] = c
    return c


def extern_module(E, name):
    cache = E.__dict__.setdefault('_extmods', {})
    if name in cache:
        return cache[name]
    m = _extern_module(E, name)
    if m is not None:
        cache[name] = m
    return m


def _ident(x, *a, **k):
    return x


def _extern_module(E, name):
    top = name.split('.')[0]
    if name == 'struct':
        return make_struct_module(E)
    if name == 'cbitstruct':
        if E.backend == 'cbitstruct':
            return make_cbitstruct_module(E)
        E.throw('ImportError', 'No module named cbitstruct (native back end selected)')
    if name == 'abc':
        return ExternModule('abc', dict(abstractmethod=Builtin('abstractmethod', _ident), ABCMeta=Extern('abc.ABCMeta'),
                                        ABC=ENG.OBJECT))
    if name == 'enum':
        e, ie = _enum_bases()
        return ExternModule('enum', dict(Enum=e, IntEnum=ie, unique=Builtin('unique', _ident)))
    if name == 'io':
        return ExternModule('io', dict(BytesIO=_builtin_class('BytesIO')))
    if name == 'sys':
        return ExternModule('sys', dict(version_info=(3, 12, 1, 'final', 0)))
    if name in ('typing', 'collections.abc', 'typing_extensions'):
        return ExternModule(name, dict(cast=Builtin('cast', lambda t, v: v),
                                       TypeVar=Builtin('TypeVar', lambda *a, **k: Extern('TypeVar')),
                                       TYPE_CHECKING=False))
    if name == 'logging':
        return ExternModule('logging', dict(getLogger=Builtin('getLogger', lambda *a: BlackHole()), CRITICAL=50, ERROR=40, WARNING=30,
                                            INFO=20, DEBUG=10, NOTSET=0))
    if name == 'contextlib':
        return ExternModule('contextlib', {})
    if name == 'asyncio' or name.startswith('asyncio.'):
        from . import aio
        return aio.make_asyncio_module(E)
    if name == 'datetime':
        from . import aio
        return aio.make_datetime_module(E)
    if name == 'itertools':
        def islice(it, *a):
            from . import aio as _aio
            if isinstance(it, _aio.QueueView):
                ss = it.q.attrs['_sym']
                it = SymSeq(ss['arr'], ss['h'], ss['t'], ss['name'])
            if isinstance(it, SymSeq):
                sl = slice(*a)
                if sl.step not in (None, 1) or any(isinstance(x, int) and x < 0 for x in (sl.start, sl.stop)):
                    raise Unsupported('itertools.islice over a symbolic sequence with a step / negative bound')
                return it.slice(sl.start, sl.stop)
            xs = concrete_iter(E, it)
            if not all(isinstance(x, (int, type(None))) for x in a):
                raise Unsupported('itertools.islice with symbolic bounds')
            return xs[slice(*a)]

        def chain(*its):
            out = []
            for it in its:
                out.extend(concrete_iter(E, it))
            return out
        return ExternModule('itertools', dict(islice=Builtin('itertools.islice', islice), chain=Builtin('itertools.chain', chain)))
    if name == 'collections':
        return ExternModule('collections', dict(deque=_builtin_class('deque')))
    if name == 'functools':
        return ExternModule('functools', dict(partial=Builtin('partial', lambda f, *a, **k: Partial(f, a, k)),
                                              lru_cache=Builtin('lru_cache', lambda *a, **k: _lru_cache(E, *a, **k)),
                                              cache=Builtin('cache', lambda f: _lru_cache(E, f))))
    if name == 'inspect':
        from . import aio
        return aio.make_inspect_module(E)
    if name == 'dataclasses':
        return ExternModule('dataclasses', {'dataclass': Builtin('dataclass', lambda *a, **k: (a[0] if a else (lambda c: c)))})
    if top in ('rx', 'reactivex'):
        from . import rxmodel
        return rxmodel.make_rx_module(E, name)
    if top in ('rsocket', 'reactivestreams', 'tests', 'performance', 'examples'):
        return None
    return ExternModule(name, {})


def _lru_cache(E, *a, **k):
    """functools.lru_cache / cache: a memo that lives as long as the process - one per explored path here, which is every
    history the harness builds.  Eviction (maxsize) is not modelled: a hit is assumed whenever the key was seen, which is the
    case that matters for sharing (the same RESULT OBJECT handed to two callers)."""
    def decorate(f):
        def memoised(*args, **kwargs):
            key = tuple(dict_key(E, x) for x in args) + tuple(sorted((n, dict_key(E, v)) for n, v in kwargs.items()))
            memo = E.path.ghost.setdefault(('lru_cache', getattr(f, 'qualname', id(f))), {})
            if key not in memo:
                memo[key] = E.call(f, list(args), kwargs)
            return memo[key]
        w = Builtin('lru_cache:' + getattr(f, 'qualname', '?'), memoised)
        w.qualname = getattr(f, 'qualname', None)
        return w
    if len(a) == 1 and not k and isinstance(a[0], (ENG.PyFunc, ENG.BoundMethod)):
        return decorate(a[0])
    return Builtin('lru_cache()', decorate)


class Partial:
    def __init__(self, f, args, kwargs):
        self.f = f
        self.args = args
        self.kwargs = kwargs


def extern_base_class(E, value, text):
    if isinstance(value, ENG.PyClass):
        return value
    return None


# ------------------------------------------------------------------ enums

def finish_enum(E, cls):
    for k, v in list(cls.dict.items()):
        if k.startswith('_') or isinstance(v, (ENG.PyFunc, ENG.Property, ENG.Builtin)):
            continue
        val = v
        if cls.is_int_enum and isinstance(v, tuple):
            val = int(*v)
        m = EnumMember(cls, k, val)
        cls.members[k] = m
        cls.dict[k] = m


def enum_call(E, cls, args):
    if len(args) != 1:
        raise Unsupported('enum call')
    v = args[0]
    if isinstance(v, EnumMember) and v.cls is cls:
        return v
    if isinstance(v, EnumMember) and v.cls.is_int_enum:
        v = v.value
    if isinstance(v, (int, bool)):
        for m in cls.members.values():
            if m.value == v:
                return m
        E.throw('ValueError', '%r is not a valid %s' % (v, cls.name))
    if isinstance(v, SInt):
        for m in cls.members.values():
            if isinstance(m.value, int):
                if E.path.branch(v.e == m.value, 'enum-%s' % m.name):
                    return m
        E.throw('ValueError', 'not a valid %s' % cls.name)
    for m in cls.members.values():
        if m.value is v:
            return m
    if isinstance(v, (str, bytes)):
        for m in cls.members.values():
            if m.value == v:
                return m
        E.throw('ValueError', '%r is not a valid %s' % (v, cls.name))
    raise Unsupported('enum lookup by %r' % (v,))


# =========================================================================== operators

def _is_num(v):
    return isinstance(v, (int, float, SInt, SReal, SBool)) or (isinstance(v, EnumMember) and v.cls.is_int_enum)


def _is_real(v):
    return isinstance(v, (float, SReal))


def binop(E, op, l, r, inplace=False):
    # object-level operator methods
    if isinstance(l, SObj) or isinstance(r, SObj):
        h = OBJ_BINOP.get((type(op).__name__, l.cls.name if isinstance(l, SObj) else None,
                           r.cls.name if isinstance(r, SObj) else None))
        if h is None:
            for key, hh in OBJ_BINOP.items():
                if key[0] == type(op).__name__ and ((isinstance(l, SObj) and key[1] == l.cls.name and key[2] == '*')
                                                    or (isinstance(r, SObj) and key[2] == r.cls.name and key[1] == '*')):
                    h = hh
                    break
        if h is not None:
            return h(E, l, r)
        raise Unsupported('binary %s on objects %r %r' % (type(op).__name__, l, r))
    if _is_num(l) and _is_num(r):
        if isinstance(op, (ast.BitAnd, ast.BitOr, ast.BitXor)):
            if _is_real(l) or _is_real(r):
                E.throw('TypeError', 'unsupported operand type(s) for bit operation')
            return int_bitop(E, op, l, r)
        if isinstance(op, (ast.LShift, ast.RShift)):
            rc = r.value if isinstance(r, EnumMember) else r
            if not isinstance(rc, int):
                raise Unsupported('shift by symbolic amount')
            lc = l.value if isinstance(l, EnumMember) else l
            if isinstance(lc, (int, bool)):
                return (int(lc) << rc) if isinstance(op, ast.LShift) else (int(lc) >> rc)
            fa = iform(E, l)
            if fa is not None and rc >= 0:
                return from_form(E, BF.shl(fa, rc) if isinstance(op, ast.LShift) else BF.extract(fa, rc))
            if isinstance(op, ast.LShift):
                return mk_int(I(l) * _pow2(rc))
            return mk_int(I(l) / _pow2(rc))
        conc = all(isinstance(x, (int, float)) or isinstance(x, EnumMember) for x in (l, r))
        if conc:
            a = l.value if isinstance(l, EnumMember) else l
            b = r.value if isinstance(r, EnumMember) else r
            try:
                if isinstance(op, ast.Add):
                    return a + b
                if isinstance(op, ast.Sub):
                    return a - b
                if isinstance(op, ast.Mult):
                    return a * b
                if isinstance(op, ast.FloorDiv):
                    return a // b
                if isinstance(op, ast.Mod):
                    return a % b
                if isinstance(op, ast.Pow):
                    return a ** b
                if isinstance(op, ast.Div):
                    if isinstance(a, int) and isinstance(b, int) and b != 0 and a % b == 0:
                        return mk_real(z3.RealVal(a) / z3.RealVal(b))
                    if b == 0:
                        raise ZeroDivisionError
                    return mk_real(R(a) / R(b))
            except ZeroDivisionError:
                E.throw('ZeroDivisionError', 'division by zero')
        if isinstance(op, ast.Div) or _is_real(l) or _is_real(r):
            a, b = R(l), R(r)
            if isinstance(op, ast.Add):
                return mk_real(a + b)
            if isinstance(op, ast.Sub):
                return mk_real(a - b)
            if isinstance(op, ast.Mult):
                return mk_real(a * b)
            if isinstance(op, ast.Div):
                if E.decide(mk_bool(b == 0), 'div0'):
                    E.throw('ZeroDivisionError', 'division by zero')
                return mk_real(a / b)
            raise Unsupported('real op %s' % type(op).__name__)
        if isinstance(op, (ast.Add, ast.Mult, ast.FloorDiv, ast.Mod)):
            fa, fb = iform(E, l), iform(E, r)
            if fa is not None and fb is not None:
                ca, cb = BF.as_const(fa), BF.as_const(fb)
                res = None
                if isinstance(op, ast.Add) and ca is None and cb is None:
                    res = BF.add_disjoint(fa, fb)
                elif isinstance(op, ast.Mult) and cb is not None and cb > 0 and (cb & (cb - 1)) == 0 and ca is None:
                    res = BF.shl(fa, cb.bit_length() - 1)
                elif isinstance(op, ast.Mult) and ca is not None and ca > 0 and (ca & (ca - 1)) == 0 and cb is None:
                    res = BF.shl(fb, ca.bit_length() - 1)
                elif isinstance(op, ast.FloorDiv) and cb is not None and cb > 0 and (cb & (cb - 1)) == 0 and ca is None:
                    res = BF.extract(fa, cb.bit_length() - 1)
                elif isinstance(op, ast.Mod) and cb is not None and cb > 0 and (cb & (cb - 1)) == 0 and ca is None:
                    res = BF.extract(fa, 0, cb.bit_length() - 1)
                if res is not None:
                    return from_form(E, res)
        a, b = I(l), I(r)
        if isinstance(op, ast.Add):
            return mk_int(a + b)
        if isinstance(op, ast.Sub):
            return mk_int(a - b)
        if isinstance(op, ast.Mult):
            return mk_int(a * b)
        if isinstance(op, (ast.FloorDiv, ast.Mod)):
            if E.decide(mk_bool(b == 0), 'div0'):
                E.throw('ZeroDivisionError', 'integer division or modulo by zero')
            bc = r if isinstance(r, int) else None
            if bc is not None and bc > 0:
                return mk_int(a / b) if isinstance(op, ast.FloorDiv) else mk_int(a % b)
            # general floor semantics
            q = z3.If(b > 0, a / b, (-a) / (-b))
            if isinstance(op, ast.FloorDiv):
                return mk_int(q)
            return mk_int(a - q * b)
        if isinstance(op, ast.Pow):
            if isinstance(r, int) and 0 <= r <= 8:
                acc = z3.IntVal(1)
                for _ in range(r):
                    acc = acc * a
                return mk_int(acc)
            raise Unsupported('symbolic power')
        raise Unsupported('int op %s' % type(op).__name__)
    if is_byteslike(l) and is_byteslike(r) and isinstance(op, ast.Add):
        if isinstance(l, SByteArray) and inplace:
            l.val = b_concat(l.val, r)
            return l
        res = b_concat(l, r)
        if isinstance(l, (SByteArray, bytearray)):
            return SByteArray(res)
        return res
    if is_byteslike(l) and isinstance(op, ast.Mult) and isinstance(r, int):
        res = lift_bytes(b'')
        for _ in range(r):
            res = b_concat(res, l)
        return res
    if isinstance(l, (str, SStr)) and isinstance(op, (ast.Mod, ast.Add)):
        if isinstance(l, str) and isinstance(r, str) and isinstance(op, ast.Add):
            return l + r
        if isinstance(op, ast.Add) and not isinstance(r, (str, SStr)):
            E.throw('TypeError', 'can only concatenate str to str')
        return E.fresh_str('strop')
    if isinstance(l, (list, tuple)) and type(l) == type(r) and isinstance(op, ast.Add):
        return l + r
    if isinstance(l, list) and isinstance(op, ast.Add) and inplace and isinstance(r, (list, tuple)):
        l.extend(r)
        return l
    if isinstance(l, (list, tuple)) and isinstance(op, ast.Mult) and isinstance(r, int):
        return l * r
    if isinstance(l, Extern) or isinstance(r, Extern):
        return Extern('(%s op %s)' % (l, r))
    if isinstance(op, ast.BitOr) and (isinstance(l, ENG.PyClass) or isinstance(r, ENG.PyClass) or l is None or r is None):
        return Extern('union-type')
    # type errors Python would raise
    E.throw('TypeError', 'unsupported operand type(s) for %s: %s and %s' % (type(op).__name__, _tname(l), _tname(r)))


def _tname(v):
    if v is None:
        return 'NoneType'
    if isinstance(v, (SBytes, bytes)):
        return 'bytes'
    if isinstance(v, (SInt, int)):
        return 'int'
    if isinstance(v, SObj):
        return v.cls.name
    return type(v).__name__


def unaryop(E, op, v):
    if isinstance(op, ast.Not):
        t = E.truth(v)
        if isinstance(t, bool):
            return not t
        return mk_bool(z3.Not(t.e))
    if isinstance(v, EnumMember) and v.cls.is_int_enum:
        v = v.value
    if isinstance(v, bool):
        v = int(v)
    if isinstance(op, ast.USub):
        if isinstance(v, (int, float)):
            return -v
        if isinstance(v, SInt):
            return mk_int(-v.e)
        if isinstance(v, SReal):
            return mk_real(-v.e)
        if isinstance(v, SObj) and v.cls.name == 'timedelta':
            from . import aio
            return aio.mk_timedelta(E, mk_int(-I(v.attrs['us'])))
    if isinstance(op, ast.UAdd) and _is_num(v):
        return v
    if isinstance(op, ast.Invert):
        if isinstance(v, int):
            return ~v
        if isinstance(v, SInt):
            return mk_int(-v.e - 1)
    raise Unsupported('unary %s on %r' % (type(op).__name__, v))


def values_equal(E, l, r):
    """l == r  -> bool | SBool"""
    if l is r and not isinstance(l, (SReal, float)):
        return True
    if isinstance(l, Extern) and isinstance(r, Extern):
        if l.name == r.name:
            return True
        # two unmodelled external objects reached under different names may be one object (inspect._empty is Parameter.empty)
        raise Unsupported('equality of the unmodelled external objects %s and %s' % (l.name, r.name))
    if l is None or r is None:
        if isinstance(l, (SObj,)) or isinstance(r, (SObj,)):
            o = l if isinstance(l, SObj) else r
            f, _ = o.cls.lookup('__eq__')
            if f is not None and o.cls.name not in ('timedelta', 'datetime'):
                return E.truth(E.call(ENG.BoundMethod(f, o), [None], {}))
        return False
    if isinstance(l, SBool) or isinstance(r, SBool) or (isinstance(l, bool) and isinstance(r, bool)):
        if isinstance(l, (bool, SBool)) and isinstance(r, (bool, SBool)):
            return mk_bool(B(l) == B(r))
    if _is_num(l) and _is_num(r):
        if _is_real(l) or _is_real(r):
            return mk_bool(R(l) == R(r))
        if isinstance(l, (int, EnumMember)) and isinstance(r, (int, EnumMember)):
            a = l.value if isinstance(l, EnumMember) else l
            b = r.value if isinstance(r, EnumMember) else r
            return a == b
        for x_, c_ in ((l, r), (r, l)):
            cc = c_.value if isinstance(c_, EnumMember) else c_
            if isinstance(cc, int) and not isinstance(x_, (int, EnumMember)):
                f_ = iform(E, x_)
                if f_ is not None:
                    e_ = BF.eq_const(E.path, f_, int(cc))
                    return e_ if isinstance(e_, bool) else mk_bool(e_)
        return mk_bool(I(l) == I(r))
    if is_byteslike(l) and is_byteslike(r):
        return b_eq_code(E, l, r)
    if isinstance(l, EnumMember) or isinstance(r, EnumMember):
        return l == r
    if isinstance(l, str) and isinstance(r, str):
        return l == r
    if isinstance(l, (str, SStr)) and isinstance(r, (str, SStr)):
        return mk_bool(str_handle(E, l) == str_handle(E, r))
    if isinstance(l, (tuple, list)) and isinstance(r, (tuple, list)):
        if type(l) != type(r) or len(l) != len(r):
            return False
        acc = []
        for a, b in zip(l, r):
            e = values_equal(E, a, b)
            if e is False:
                return False
            if e is not True:
                acc.append(e.e)
        return mk_bool(z3.And(acc)) if acc else True
    if isinstance(l, SObj):
        h = OBJ_EQ.get(l.cls.name)
        if h is not None:
            return h(E, l, r)
        f, _ = l.cls.lookup('__eq__')
        if f is not None:
            return E.truth(E.call(ENG.BoundMethod(f, l), [r], {}))
        return l is r
    if isinstance(r, SObj):
        f, _ = r.cls.lookup('__eq__')
        if f is not None:
            return E.truth(E.call(ENG.BoundMethod(f, r), [l], {}))
        return False
    if isinstance(l, dict) and isinstance(r, dict):
        if set(l) != set(r):
            return False
        return values_equal(E, [l[k] for k in l], [r[k] for k in l])
    if isinstance(l, (ENG.PyClass, ENG.PyFunc, SOpaque, Extern)) or isinstance(r, (ENG.PyClass, ENG.PyFunc, SOpaque, Extern)):
        return l is r
    if type(l) != type(r):
        # different concrete python types never compare equal (bytes vs str, int vs bytes ...)
        if isinstance(l, (SStr, SBytes, SInt)) or isinstance(r, (SStr, SBytes, SInt)):
            ln, rn = _tname(l), _tname(r)
            if ln != rn:
                return False
        return False if not (isinstance(l, (int, float)) and isinstance(r, (int, float))) else l == r
    try:
        return l == r
    except Exception:
        raise Unsupported('equality of %r and %r' % (l, r))


_STR_IDS = {}


def str_handle(E, s):
    if isinstance(s, SStr):
        return s.h
    # concrete strings get distinct negative ids
    if s not in _STR_IDS:
        _STR_IDS[s] = -(len(_STR_IDS) + 1)
    return z3.IntVal(_STR_IDS[s])


def compare(E, op, l, r):
    if isinstance(op, ast.Is):
        return _identical(l, r)
    if isinstance(op, ast.IsNot):
        return not _identical(l, r)
    if isinstance(op, ast.Eq):
        return values_equal(E, l, r)
    if isinstance(op, ast.NotEq):
        e = values_equal(E, l, r)
        if isinstance(e, bool):
            return not e
        return mk_bool(z3.Not(e.e))
    if isinstance(op, (ast.In, ast.NotIn)):
        res = contains(E, r, l)
        if isinstance(op, ast.NotIn):
            if isinstance(res, bool):
                return not res
            return mk_bool(z3.Not(res.e))
        return res
    # ordering
    if isinstance(l, SObj) or isinstance(r, SObj):
        h = OBJ_CMP.get((l.cls.name if isinstance(l, SObj) else None, r.cls.name if isinstance(r, SObj) else None))
        if h is not None:
            return h(E, op, l, r)
        raise Unsupported('ordering of %r and %r' % (l, r))
    if _is_num(l) and _is_num(r):
        if _is_real(l) or _is_real(r):
            a, b = R(l), R(r)
        else:
            if all(isinstance(x, (int, EnumMember)) for x in (l, r)):
                a = l.value if isinstance(l, EnumMember) else l
                b = r.value if isinstance(r, EnumMember) else r
                return {ast.Lt: a < b, ast.LtE: a <= b, ast.Gt: a > b, ast.GtE: a >= b}[type(op)]
            a, b = I(l), I(r)
        if isinstance(op, ast.Lt):
            return mk_bool(a < b)
        if isinstance(op, ast.LtE):
            return mk_bool(a <= b)
        if isinstance(op, ast.Gt):
            return mk_bool(a > b)
        if isinstance(op, ast.GtE):
            return mk_bool(a >= b)
    if isinstance(l, (tuple, str)) and type(l) == type(r):
        try:
            return {ast.Lt: l < r, ast.LtE: l <= r, ast.Gt: l > r, ast.GtE: l >= r}[type(op)]
        except TypeError:
            pass
    if l is None or r is None or (is_byteslike(l) != is_byteslike(r)) or isinstance(l, (str, SStr)) != isinstance(r, (str, SStr)):
        E.throw('TypeError', "'%s' not supported between instances of '%s' and '%s'" % (type(op).__name__, _tname(l), _tname(r)))
    raise Unsupported('comparison %s of %r and %r' % (type(op).__name__, l, r))


def _identical(l, r):
    if l is r:
        return True
    if isinstance(l, Extern) and isinstance(r, Extern):
        if l.name == r.name:
            return True
        raise Unsupported('identity of the unmodelled external objects %s and %s' % (l.name, r.name))
    if l is None or r is None:
        return False
    if isinstance(l, bool) and isinstance(r, bool):
        return l == r
    if isinstance(l, (SBool, bool)) and isinstance(r, (SBool, bool)):
        return mk_bool(B(l) == B(r))
    if isinstance(l, EnumMember) and isinstance(r, EnumMember):
        return l == r
    if isinstance(l, int) and isinstance(r, int) and not isinstance(l, bool) and not isinstance(r, bool):
        return l == r and -5 <= l <= 256
    return False


def contains(E, container, item):
    if isinstance(container, SMap):
        return smap_has(E, container, item)
    if isinstance(container, dict):
        if isinstance(item, (SInt,)):
            acc = []
            for k in container:
                if isinstance(k, (int, EnumMember)):
                    acc.append(item.e == (k.value if isinstance(k, EnumMember) else k))
            return mk_bool(z3.Or(acc)) if acc else False
        try:
            return dict_key(E, item) in container
        except TypeError:
            return False
    if isinstance(container, (list, tuple, set, frozenset)):
        acc = []
        for x in container:
            e = values_equal(E, x, item)
            if e is True:
                return True
            if e is not False:
                acc.append(e.e)
        return mk_bool(z3.Or(acc)) if acc else False
    if isinstance(container, str) and isinstance(item, str):
        return item in container
    if isinstance(container, SObj):
        f, _ = container.cls.lookup('__contains__')
        if f is not None:
            return E.truth(E.call(ENG.BoundMethod(f, container), [item], {}))
    if isinstance(container, ENG.PyClass) and container.is_enum:
        return any(m is item for m in container.members.values())
    raise Unsupported('membership test in %r' % (container,))


# =========================================================================== symbolic maps

def new_smap(E, name):
    nm = E.path.fresh_name(name)
    has = z3.Array(E.path.fresh_name(nm + '.has'), z3.IntSort(), z3.BoolSort())      # registered: see aio.new_symbolic_queue
    m = SMap(has, None, nm)
    return m


def smap_has(E, m, k):
    if not is_intlike(k):
        return False
    return mk_bool(z3.Select(m.has, I(k)))


def smap_get_value(E, m, k):
    kt = I(k)
    # look through writes (latest first)
    for wk, wv in reversed(m.writes):
        e = z3.simplify(wk == kt)
        if z3.is_true(e):
            return wv
        if z3.is_false(e):
            continue
        r = E.path.check(z3.Not(e))
        if r == z3.unsat:
            return wv
        r2 = E.path.check(e)
        if r2 == z3.unsat:
            continue
        if E.path.branch(e, 'map-alias'):
            return wv
    if m.valfn is None:
        raise Unsupported('value lookup in symbolic map %s without value model' % m.name)
    return m.valfn(E, m, k)


def smap_set(E, m, k, v):
    kt = I(k)
    m.has = z3.Store(m.has, kt, True)
    m.writes.append((kt, v))


def smap_pop(E, m, k, default=NOATTR):
    kt = I(k)
    present = mk_bool(z3.Select(m.has, kt))
    if E.decide(present, 'map-pop'):
        v = None
        try:
            v = smap_get_value(E, m, k)
        except Unsupported:
            v = SOpaque('mapvalue', '%s[%s]' % (m.name, kt))
        m.has = z3.Store(m.has, kt, False)
        m.writes = [(wk, wv) for (wk, wv) in m.writes if not z3.is_true(z3.simplify(wk == kt))]
        return v
    if default is NOATTR:
        E.throw('KeyError', 'key')
    return default


# =========================================================================== subscripts

def getitem(E, obj, idx):
    if isinstance(obj, SymSeq):
        if isinstance(idx, slice) and idx.step is None:
            return obj.slice(idx.start, idx.stop)
        raise Unsupported('indexing a symbolic sequence')
    if is_byteslike(obj):
        if isinstance(idx, slice):
            if idx.step is not None:
                raise Unsupported('slice step')
            r = b_slice(E, obj, idx.start, idx.stop)
            return SByteArray(r) if isinstance(obj, (SByteArray, bytearray)) else r
        if not is_intlike(idx):
            E.throw('TypeError', 'byte indices must be integers')
        return b_index(E, obj, idx)
    if isinstance(obj, (list, tuple, str)):
        if isinstance(idx, slice):
            if all(x is None or isinstance(x, int) for x in (idx.start, idx.stop, idx.step)):
                return obj[idx]
            raise Unsupported('symbolic slice of concrete sequence')
        if isinstance(idx, EnumMember):
            idx = idx.value
        if isinstance(idx, int):
            try:
                return obj[idx]
            except IndexError:
                E.throw('IndexError', 'index out of range')
        if isinstance(idx, SInt):
            n = len(obj)
            for k in range(n):
                if E.path.branch(idx.e == k, 'seq-idx'):
                    return obj[k]
            for k in range(1, n + 1):
                if E.path.branch(idx.e == -k, 'seq-idx'):
                    return obj[-k]
            E.throw('IndexError', 'index out of range')
        E.throw('TypeError', 'indices must be integers')
    if isinstance(obj, dict):
        if isinstance(idx, SInt):
            for k in obj:
                kv = k.value if isinstance(k, EnumMember) else k
                if isinstance(kv, int) and E.path.branch(idx.e == kv, 'dict-key'):
                    return obj[k]
            E.throw('KeyError', 'key')
        try:
            key = dict_key(E, idx)
            if key in obj:
                return obj[key]
        except TypeError:
            pass
        E.throw('KeyError', repr(idx))
    if isinstance(obj, SMap):
        if not E.decide(smap_has(E, obj, idx), 'map-get'):
            E.throw('KeyError', 'key')
        return smap_get_value(E, obj, idx)
    if isinstance(obj, (Extern, ENG.PyClass)):
        return obj if isinstance(obj, ENG.PyClass) else Extern(obj.name + '[...]')
    if isinstance(obj, SObj):
        f, _ = obj.cls.lookup('__getitem__')
        if f is not None:
            return E.call(ENG.BoundMethod(f, obj), [idx], {})
        h = OBJ_GETITEM.get(obj.cls.name)
        if h is not None:
            return h(E, obj, idx)
    if obj is None:
        E.throw('TypeError', "'NoneType' object is not subscriptable")
    from . import aio as _aio
    if isinstance(obj, _aio.QueueView):
        if isinstance(idx, int) and idx == 0:
            return _aio.sq_peek(E, obj.q)
        if isinstance(idx, (int, SInt)) and not isinstance(idx, bool):
            # deque[i]: i-th queued item (negative indices count from the tail); IndexError outside
            ss = obj.q.attrs['_sym']
            n = ss['t'] - ss['h']
            i = I(idx)
            rng = E.path.ghost.get('seq_bounds', {}).get(str(i))
            if rng is not None:
                # the bound variable of any()/all() over a symbolic range: the index must be in range for EVERY element
                lo, hi = rng
                if E.path.check(z3.And(lo < hi, z3.Or(lo < 0, hi > n))) != z3.unsat:
                    raise Unsupported('deque index over a symbolic range that is not provably inside the deque')
                return _aio.registry(E).obj_of(z3.Select(ss['arr'], ss['h'] + i), '%s[%s]' % (ss['name'], idx))
            if E.decide(mk_bool(z3.Or(i >= n, i < -n)), 'deque-index-out-of-range'):
                E.throw('IndexError', 'deque index out of range')
            pos = z3.If(i >= 0, ss['h'] + i, ss['t'] + i)
            return _aio.registry(E).obj_of(z3.Select(ss['arr'], pos), '%s[%s]' % (ss['name'], idx))
        raise Unsupported('queue view index %r' % (idx,))
    if isinstance(obj, (ENG.PyFunc, ENG.BoundMethod, ENG.Builtin, int, bool, SInt, SBool)):
        E.throw('TypeError', "'%s' object is not subscriptable" % type(obj).__name__)
    raise Unsupported('subscript of %r' % (obj,))


def setitem(E, obj, idx, v):
    E.note_mutation(obj)
    if isinstance(obj, SByteArray):
        cur = obj.val
        n = cur.n
        if isinstance(idx, slice):
            if idx.step is not None:
                raise Unsupported('slice step')
            if not is_byteslike(v):
                raise Unsupported('bytearray slice assignment of %r' % (v,))
            a = _simpl_bound(E, idx.start.e if isinstance(idx.start, SInt) else idx.start, n, 0)
            b = _simpl_bound(E, idx.stop.e if isinstance(idx.stop, SInt) else idx.stop, n, n)
            at_ = a if is_z3(a) else z3.IntVal(a)
            bt_ = b if is_z3(b) else z3.IntVal(b)
            # python: if stop < start the slice is empty at start
            if E.path.check(bt_ < at_) != z3.unsat:
                if E.decide(mk_bool(bt_ < at_), 'slice-empty'):
                    b = a
            obj.val = b_splice(E, cur, a, b, v)
            return
        if not is_intlike(idx) or not is_intlike(v):
            E.throw('TypeError', 'bytearray item assignment needs ints')
        it = I(idx)
        nt = cur.len_term()
        if not E.decide(mk_bool(z3.And(it >= -nt, it < nt)), 'index'):
            E.throw('IndexError', 'bytearray index out of range')
        if E.path.check(it < 0) != z3.unsat:
            if E.decide(mk_bool(it < 0), 'negidx'):
                it = it + nt
        vt = I(v)
        if not E.decide(mk_bool(z3.And(vt >= 0, vt <= 255)), 'byte-range'):
            E.throw('ValueError', 'byte must be in range(0, 256)')
        it = z3.simplify(it)
        obj.val = b_splice(E, cur, it, z3.simplify(it + 1), b_from_ints([z3.simplify(vt)]))
        return
    if isinstance(obj, list):
        if isinstance(idx, int):
            try:
                obj[idx] = v
                return
            except IndexError:
                E.throw('IndexError', 'list assignment index out of range')
        raise Unsupported('symbolic list index store')
    if isinstance(obj, dict):
        obj[dict_key(E, idx)] = v
        return
    if isinstance(obj, SMap):
        smap_set(E, obj, idx, v)
        return
    if isinstance(obj, SObj):
        f, _ = obj.cls.lookup('__setitem__')
        if f is not None:
            E.call(ENG.BoundMethod(f, obj), [idx, v], {})
            return
    if isinstance(obj, (bytes, SBytes)):
        E.throw('TypeError', "'bytes' object does not support item assignment")
    raise Unsupported('item assignment on %r' % (obj,))


def delitem(E, obj, idx):
    E.note_mutation(obj)
    if isinstance(obj, dict):
        k = dict_key(E, idx)
        if k not in obj:
            E.throw('KeyError', repr(idx))
        del obj[k]
        return
    if isinstance(obj, SMap):
        smap_pop(E, obj, idx)
        return
    if isinstance(obj, list) and isinstance(idx, int):
        try:
            del obj[idx]
            return
        except IndexError:
            E.throw('IndexError', 'index')
    if isinstance(obj, list) and isinstance(idx, slice) and all(isinstance(x, (int, type(None))) for x in (idx.start, idx.stop, idx.step)):
        del obj[idx]
        return
    if isinstance(obj, SByteArray) and isinstance(idx, slice) and idx.step in (None, 1):
        # del buf[a:b]  ==  buf[:a] + buf[b:]   (in place: the bytearray object keeps its identity)
        cur = lift_bytes(obj)
        head = b_slice(E, cur, 0, idx.start if idx.start is not None else 0)
        tail = b_slice(E, cur, idx.stop, None) if idx.stop is not None else lift_bytes(b'')
        obj.val = lift_bytes(b_concat(lift_bytes(head), lift_bytes(tail)))
        return
    raise Unsupported('del item on %r' % (obj,))


def dict_key(E, k):
    if isinstance(k, SStr):
        # an opaque string as a key: the same string object finds its entry again (decoding the same bytes object yields the
        # same string object); two DIFFERENT opaque strings may still be equal, which a lookup would have to branch on
        return k
    if isinstance(k, (SInt, SBool, SBytes, SReal)):
        if isinstance(k, SBytes) and k.conc is not None:
            return k.conc
        raise Unsupported('symbolic dict key %r' % (k,))
    if isinstance(k, list):
        raise TypeError('unhashable')
    return k


def unpack_iter(E, v, n):
    if isinstance(v, (tuple, list)):
        if len(v) != n:
            E.throw('ValueError', 'not enough/too many values to unpack (expected %d, got %d)' % (n, len(v)))
        return list(v)
    items = concrete_iter(E, v)
    if len(items) != n:
        E.throw('ValueError', 'wrong number of values to unpack')
    return items


def concrete_iter(E, v):
    if isinstance(v, (list, tuple)):
        return list(v)
    if isinstance(v, dict):
        return list(v.keys())
    if isinstance(v, (set, frozenset)):
        return list(v)
    if isinstance(v, range):
        if len(v) > E.unroll_limit * 64:
            raise Unsupported('iteration over a concrete range of %d elements without a loop contract' % len(v))
        return list(v)
    if isinstance(v, str):
        return list(v)
    if isinstance(v, bytes):
        return list(v)
    if isinstance(v, SBytes) and isinstance(v.n, int):
        return [mk_int(v.at(z3.IntVal(i))) for i in range(v.n)]
    if isinstance(v, ENG.GenObj):
        out = []
        E.run_generator(v, lambda x: out.append(x))
        return out
    if isinstance(v, ENG.PyClass) and v.is_enum:
        return list(v.members.values())
    if isinstance(v, SObj):
        f, _ = v.cls.lookup('__iter__')
        if f is not None:
            return concrete_iter(E, E.call(ENG.BoundMethod(f, v), [], {}))
        if v.cls.name == 'deque':
            return list(v.attrs['items'])
    if v is None:
        E.throw('TypeError', "'NoneType' object is not iterable")
    if isinstance(v, SymSeq):
        raise SymSeqIteration(v)
    if isinstance(v, SymRange) and v.on_each is None:
        a, b = I(v.start), I(v.stop)
        raise SymSeqIteration(SymSeq(None, a, z3.If(b >= a, b, a), 'range', elem=lambda E_, j: mk_int(j)))
    if isinstance(v, (ENG.PyFunc, ENG.BoundMethod, ENG.Builtin, int, bool, SInt, SBool)):
        E.throw('TypeError', "'%s' object is not iterable" % type(v).__name__)
    raise Unsupported('iteration over %r' % (v,))


# =========================================================================== attribute models for plain values

def int_attr(E, v, name):
    if name == 'to_bytes':
        def to_bytes(length=1, byteorder='big', signed=False):
            if byteorder != 'big' or signed:
                raise Unsupported('to_bytes little/signed')
            if not isinstance(length, int):
                raise Unsupported('to_bytes symbolic length')
            x = I(v)
            if not E.decide(mk_bool(x >= 0), 'to_bytes-neg'):
                E.throw('OverflowError', "can't convert negative int to unsigned")
            if not E.decide(mk_bool(x < _pow2(8 * length)), 'to_bytes-range'):
                E.throw('OverflowError', 'int too big to convert')
            xs = z3.simplify(x)
            return be_bytes(xs.as_long() if z3.is_int_value(xs) else x, length)
        return Builtin('int.to_bytes', to_bytes)
    if name == 'bit_length' and isinstance(v, int):
        return Builtin('int.bit_length', lambda: v.bit_length())
    if name in ('real', 'numerator'):
        return v
    if name == 'value':
        return v
    return NOATTR


def bytes_attr(E, v, name):
    is_ba = isinstance(v, (SByteArray, bytearray))
    if name == 'decode':
        def decode(encoding='utf-8', errors='strict'):
            b = lift_bytes(v)
            if b.conc is not None:
                try:
                    return b.conc.decode(encoding, errors)
                except UnicodeDecodeError:
                    E.throw('UnicodeDecodeError', 'invalid')
            # validity of UTF-8 is an uninterpreted predicate of the bytes; decoding may fail
            memo = E.path.ghost.setdefault('decoded_strings', {})
            mk = (id(b), encoding, errors)
            if mk in memo:
                return memo[mk][1]          # decoding is a function: the same bytes object decodes to the same string
            s = E.fresh_str('decoded')
            memo[mk] = (b, s)
            if errors == 'strict':
                ok = E.fresh_bool('utf8_valid')
                if not E.decide(ok, 'utf8'):
                    E.throw('UnicodeDecodeError', 'invalid utf-8')
            elif errors not in ('replace', 'ignore'):
                raise Unsupported('bytes.decode errors=%r' % (errors,))
            else:
                return s        # lossy decoding: not invertible, so no bytes are remembered for encode()
            E.path.ghost.setdefault('str_bytes', {})[s.h.get_id()] = b
            return s
        return Builtin('bytes.decode', decode)
    if name == 'join':
        def join(parts):
            items = concrete_iter(E, parts)
            if not all(is_byteslike(x) for x in items):
                E.throw('TypeError', 'sequence item: expected a bytes-like object')
            res = lift_bytes(b'')
            for i, x in enumerate(items):
                if i:
                    res = b_concat(res, v)
                res = b_concat(res, x)
            return SByteArray(res) if is_ba else res
        return Builtin('bytes.join', join)
    if name == 'hex':
        return Builtin('bytes.hex', lambda *a: E.fresh_str('hex'))
    if name == 'extend' and isinstance(v, SByteArray):
        def extend(data):
            if not is_byteslike(data):
                if data is None:
                    E.throw('TypeError', "'NoneType' object is not iterable")
                raise Unsupported('bytearray.extend(%r)' % (data,))
            v.val = b_concat(v.val, data)
        return Builtin('bytearray.extend', extend)
    if name == 'append' and isinstance(v, SByteArray):
        def append(x):
            v.val = b_concat(v.val, b_from_ints([I(x)]))
        return Builtin('bytearray.append', append)
    if name == 'startswith':
        def startswith(prefix):
            p = lift_bytes(prefix)
            if not isinstance(p.n, int):
                raise Unsupported('startswith symbolic prefix')
            b = lift_bytes(v)
            return mk_bool(z3.And([b.len_term() >= p.n] + [b.at(z3.IntVal(i)) == p.at(z3.IntVal(i)) for i in range(p.n)]))
        return Builtin('bytes.startswith', startswith)
    if name == '__len__':
        return Builtin('bytes.__len__', lambda: mk_int(lift_bytes(v).len_term()))
    return NOATTR


def str_attr(E, v, name):
    if name == 'encode':
        def encode(encoding='utf-8', errors='strict'):
            if isinstance(v, str):
                return lift_bytes(v.encode(encoding))
            sb = E.path.ghost.get('str_bytes', {}).get(v.h.get_id())
            if sb is not None:
                return sb
            # bytes determined by the string handle (uninterpreted functions)
            ln = z3.Function('str.enc.len', z3.IntSort(), z3.IntSort())
            atf = z3.Function('str.enc.at', z3.IntSort(), z3.IntSort(), z3.IntSort())
            h = v.h
            n = ln(h)
            E.path.axiom(n >= 0)

            def at(i, h=h):
                if isinstance(i, int):
                    i = z3.IntVal(i)
                t = atf(h, i)
                E.path.axiom(z3.And(t >= 0, t <= 255))
                return t
            return SBytes(n, at)
        return Builtin('str.encode', encode)
    if name == 'format':
        def fmt(*a, **k):
            if isinstance(v, str) and all(isinstance(x, (str, int)) and not isinstance(x, bool) for x in a) and not k:
                try:
                    return v.format(*a)
                except Exception:
                    pass
            return E.fresh_str('fmt')
        return Builtin('str.format', fmt)
    if isinstance(v, str) and name in ('lower', 'upper', 'strip', 'startswith', 'endswith', 'split', 'join', 'replace',
                                        'isdigit', 'lstrip', 'rstrip', 'title'):
        def m(*a, **k):
            if all(isinstance(x, (str, int, tuple, list)) for x in a):
                return getattr(v, name)(*a, **k)
            raise Unsupported('str.%s on symbolic args' % name)
        return Builtin('str.' + name, m)
    return NOATTR


def list_attr(E, v, name):
    if name in ('append', 'extend', 'pop', 'insert', 'remove', 'clear', 'sort', 'reverse'):
        E.note_mutation(v)
    if name == 'append':
        return Builtin('list.append', lambda x: v.append(x))
    if name == 'extend':
        return Builtin('list.extend', lambda xs: v.extend(concrete_iter(E, xs)))
    if name == 'pop':
        def pop(i=-1):
            if not isinstance(i, int):
                raise Unsupported('list.pop symbolic')
            try:
                return v.pop(i)
            except IndexError:
                E.throw('IndexError', 'pop from empty list')
        return Builtin('list.pop', pop)
    if name == 'remove':
        def remove(x):
            for i, y in enumerate(v):
                if y is x or (values_equal(E, y, x) is True):
                    del v[i]
                    return
            E.throw('ValueError', 'list.remove(x): x not in list')
        return Builtin('list.remove', remove)
    if name == 'insert':
        return Builtin('list.insert', lambda i, x: v.insert(i, x))
    if name == 'clear':
        return Builtin('list.clear', lambda: v.clear())
    if name == 'copy':
        return Builtin('list.copy', lambda: list(v))
    if name == 'index':
        def index(x):
            for i, y in enumerate(v):
                if y is x or values_equal(E, y, x) is True:
                    return i
            E.throw('ValueError', 'not in list')
        return Builtin('list.index', index)
    return NOATTR


def dict_attr(E, v, name):
    if name in ('update', 'setdefault', 'pop', 'popitem', 'clear'):
        E.note_mutation(v)
    if name == 'get':
        def get(k, default=None):
            if isinstance(k, (SBytes, SByteArray)) and lift_bytes(k).conc is None:
                # symbolic bytes key against concrete bytes keys: decided by the path condition, key by key
                kb = lift_bytes(k)
                for kk in v:
                    if not isinstance(kk, bytes):
                        continue
                    eq = b_eq_code(E, kb, kk)
                    if eq is False:
                        continue
                    if eq is True or E.decide(eq, 'dict-bytes-key'):
                        return v[kk]
                return default
            if isinstance(k, (SBytes,)) and k.conc is not None:
                k = k.conc
            if isinstance(k, SInt):
                for kk in v:
                    kv = kk.value if isinstance(kk, EnumMember) else kk
                    if isinstance(kv, int) and E.path.branch(k.e == kv, 'dict-key'):
                        return v[kk]
                return default
            try:
                return v.get(dict_key(E, k), default)
            except TypeError:
                return default
        return Builtin('dict.get', get)
    if name == 'pop':
        def pop(k, *d):
            kk = dict_key(E, k)
            if kk in v:
                return v.pop(kk)
            if d:
                return d[0]
            E.throw('KeyError', repr(k))
        return Builtin('dict.pop', pop)
    if name == 'items':
        return Builtin('dict.items', lambda: [(k, x) for k, x in v.items()])
    if name == 'keys':
        return Builtin('dict.keys', lambda: list(v.keys()))
    if name == 'values':
        return Builtin('dict.values', lambda: list(v.values()))
    if name == 'update':
        return Builtin('dict.update', lambda o=(), **k: (v.update(o), v.update(k)) and None)
    if name == 'setdefault':
        return Builtin('dict.setdefault', lambda k, d=None: v.setdefault(dict_key(E, k), d))
    if name == 'clear':
        return Builtin('dict.clear', lambda: v.clear())
    if name == 'copy':
        return Builtin('dict.copy', lambda: dict(v))
    return NOATTR


def smap_attr(E, m, name):
    if name == 'pop':
        return Builtin('smap.pop', lambda k, *d: smap_pop(E, m, k, *(d if d else (NOATTR,))))
    if name == 'get':
        def get(k, default=None):
            if E.decide(smap_has(E, m, k), 'map-get'):
                return smap_get_value(E, m, k)
            return default
        return Builtin('smap.get', get)
    if name == 'items':
        return Builtin('smap.items', lambda: SMapItems(m))
    return NOATTR


class SymRange(SymIter):
    """range(start, stop) with symbolic bounds; for-loops over it are cut in the consumer's frame (k = iteration index)."""

    def __init__(self, start, stop, on_each=None):
        self.start = start
        self.stop = stop
        self.on_each = on_each      # called before the body of the arbitrary iteration (an async range suspends per element)

    def cut(self, E, node, env, spec, qual, k):
        from . import engine as ENG_
        tag = '%s#loop%d' % (qual, k)
        entry = E.snapshot(env)
        g = {}
        ctx0 = ENG_.LoopCtx(E, env, 0, entry, 'entry')
        ctx0.ghost = g
        for name, e in spec.invariant(ctx0):
            E.prove('%s.inv_entry[%s]' % (tag, name), e)
        mode = E.path.choice(2, 'loop%d' % k)
        kk = E.fresh_int('k.%s' % k, 0)
        n = z3.If(I(self.stop) - I(self.start) > 0, I(self.stop) - I(self.start), 0)
        E.assume(I(kk) <= n)
        hctx = ENG_.LoopCtx(E, env, kk, entry, 'head')
        hctx.ghost = g
        E.havoc_loop(node, env, spec, hctx)
        E.path.ghost.setdefault('loops', {})[(qual, k)] = hctx
        for name, e in spec.invariant(hctx):
            E.assume(e)
        if mode == 0:
            E.assume(I(kk) < n)
            E.assign(node.target, mk_int(I(self.start) + I(kk)), env)
            if self.on_each is not None:
                self.on_each(E)
            try:
                E.exec_block(node.body, env)
            except BreakSig:
                return
            except ContinueSig:
                pass
            ctx1 = ENG_.LoopCtx(E, env, mk_int(I(kk) + 1), entry, 'step')
            ctx1.ghost = g
            for name, e in spec.invariant(ctx1):
                E.prove('%s.inv_preserved[%s]' % (tag, name), e)
            raise PathEnd('end of arbitrary iteration')
        else:
            E.assume(I(kk) == n)
            E.exec_block(node.orelse, env)


class SymList(SymIter):
    """A Python list of queue items with a symbolic number of elements: ids arr[0..n-1].  Created by a loop contract's havoc
    for a list the loop appends to; `append`, `len` and a for-loop over it (cut like a symbolic range, element k = arr[k])."""

    def __init__(self, arr, n, name):
        self.arr, self.n, self.name = arr, n, name

    def cut(self, E, node, env, spec, qual, k):
        from . import engine as ENG_
        from . import aio as _aio
        tag = '%s#loop%d' % (qual, k)
        entry = E.snapshot(env)
        g = {}
        ctx0 = ENG_.LoopCtx(E, env, 0, entry, 'entry')
        ctx0.ghost = g
        for name, e in spec.invariant(ctx0):
            E.prove('%s.inv_entry[%s]' % (tag, name), e)
        mode = E.path.choice(2, 'loop%d' % k)
        kk = E.fresh_int('k.%s' % k, 0)
        n = I(self.n)
        E.assume(I(kk) <= n)
        hctx = ENG_.LoopCtx(E, env, kk, entry, 'head')
        hctx.ghost = g
        E.havoc_loop(node, env, spec, hctx)
        E.path.ghost.setdefault('loops', {})[(qual, k)] = hctx
        for name, e in spec.invariant(hctx):
            E.assume(e)
        if mode == 0:
            E.assume(I(kk) < n)
            E.assign(node.target, _aio.registry(E).obj_of(z3.Select(self.arr, I(kk)), '%s[%s]' % (self.name, kk)), env)
            try:
                E.exec_block(node.body, env)
            except BreakSig:
                return
            except ContinueSig:
                pass
            ctx1 = ENG_.LoopCtx(E, env, mk_int(I(kk) + 1), entry, 'step')
            ctx1.ghost = g
            for name, e in spec.invariant(ctx1):
                E.prove('%s.inv_preserved[%s]' % (tag, name), e)
            raise PathEnd('end of arbitrary iteration')
        else:
            E.assume(I(kk) == n)
            E.exec_block(node.orelse, env)


def set_attr(E, v, name):
    """set methods; elements are compared with values_equal (an element whose equality with a member is symbolic is decided by
    branching)"""
    def member(x):
        for y in list(v):
            e = values_equal(E, y, x)
            if e is True or (e is not False and E.decide(e, 'set-member')):
                return y
        return None
    if name in ('add', 'discard', 'remove', 'update', 'clear', 'pop'):
        E.note_mutation(v)
    if name == 'add':
        def add(x):
            if member(x) is None:
                try:
                    v.add(x)
                except TypeError:
                    E.throw('TypeError', 'unhashable type')
        return Builtin('set.add', add)
    if name in ('discard', 'remove'):
        def drop(x):
            y = member(x)
            if y is not None:
                v.discard(y)
            elif name == 'remove':
                E.throw('KeyError', x)
        return Builtin('set.' + name, drop)
    if name == 'update':
        return Builtin('set.update', lambda *its: [set_attr(E, v, 'add').impl(x) for it in its for x in concrete_iter(E, it)] and None)
    if name == 'clear':
        return Builtin('set.clear', lambda: v.clear())
    if name == 'copy':
        return Builtin('set.copy', lambda: set(v))
    return NOATTR


def symlist_attr(E, v, name):
    from . import aio as _aio
    if name == 'append':
        def append(x):
            v.arr = z3.Store(v.arr, I(v.n), _aio.registry(E).id_of(x))
            v.n = mk_int(z3.simplify(I(v.n) + 1))
        return Builtin('list.append', append)
    raise Unsupported('list.%s on a list of symbolic length' % name)


class SMapItems(SymIter):
    """Snapshot iteration over the items of a symbolic map (for k, v in list(m.items())).

    Loop rule over a finite set: ghost `done` (Array Int->Bool) = keys already visited, a subset of the snapshot keys.
    An arbitrary iteration picks a key of the snapshot that is not done; the loop exits when done = snapshot.
    spec.invariant(ctx) may use ctx.ghost['done'], ctx.ghost['snapshot'] (membership arrays) and ctx.ghost['key']."""

    def __init__(self, m):
        self.m = m
        self.snapshot = m.has

    def cut(self, E, node, env, spec, qual, k):
        from . import engine as ENG_
        tag = '%s#loop%d' % (qual, k)
        entry = E.snapshot(env)
        g = {'snapshot': self.snapshot, 'done': z3.K(z3.IntSort(), False), 'map': self.m}
        ctx0 = ENG_.LoopCtx(E, env, 0, entry, 'entry')
        ctx0.ghost = g
        for name, e in spec.invariant(ctx0):
            E.prove('%s.inv_entry[%s]' % (tag, name), e)
        mode = E.path.choice(2, 'loop%d' % k)
        done = z3.Array(E.path.fresh_name('done'), z3.IntSort(), z3.BoolSort())
        x = z3.Int('done.x')
        E.path.add(z3.ForAll([x], z3.Implies(z3.Select(done, x), z3.Select(self.snapshot, x))))
        g['done'] = done
        hctx = ENG_.LoopCtx(E, env, E.fresh_int('k.%s' % k, 0), entry, 'head')
        hctx.ghost = g
        E.havoc_loop(node, env, spec, hctx)
        E.path.ghost.setdefault('loops', {})[(qual, k)] = hctx
        for name, e in spec.invariant(hctx):
            E.assume(e)
        if mode == 0:
            key = E.fresh_int('iter.key')
            E.assume(z3.And(z3.Select(self.snapshot, I(key)), z3.Not(z3.Select(done, I(key)))))
            g['key'] = key
            val = self.m.valfn(E, self.m, key) if self.m.valfn is not None else SOpaque('mapvalue', 'value')
            g['value'] = val
            E.assign(node.target, (key, val), env)
            try:
                E.exec_block(node.body, env)
            except BreakSig:
                return
            except ContinueSig:
                pass
            g['done'] = z3.Store(done, I(key), True)
            ctx1 = ENG_.LoopCtx(E, env, mk_int(I(hctx.k) + 1), entry, 'step')
            ctx1.ghost = g
            for name, e in spec.invariant(ctx1):
                E.prove('%s.inv_preserved[%s]' % (tag, name), e)
            raise PathEnd('end of arbitrary iteration')
        else:
            E.path.add(z3.ForAll([x], z3.Select(done, x) == z3.Select(self.snapshot, x)))
            E.exec_block(node.orelse, env)


def value_attr(E, obj, name):
    if isinstance(obj, bool):
        return int_attr(E, int(obj), name)
    if isinstance(obj, (int, SInt)):
        return int_attr(E, obj, name)
    if is_byteslike(obj):
        return bytes_attr(E, obj, name)
    if isinstance(obj, (str, SStr)):
        return str_attr(E, obj, name)
    if isinstance(obj, list):
        return list_attr(E, obj, name)
    if isinstance(obj, SymList):
        return symlist_attr(E, obj, name)
    if isinstance(obj, set):
        return set_attr(E, obj, name)
    if isinstance(obj, dict):
        return dict_attr(E, obj, name)
    if isinstance(obj, SMap):
        return smap_attr(E, obj, name)
    if isinstance(obj, BlackHole):
        # logging calls are no-ops (their arguments were evaluated by the caller); QUERIES about the logging configuration
        # are answered arbitrarily - the configuration belongs to the environment, every level must be safe
        if name in ('isEnabledFor', 'hasHandlers'):
            return Builtin('logger.' + name, lambda *a, **k: E.fresh_bool('logging.' + name))
        if name == 'getEffectiveLevel':
            return Builtin('logger.getEffectiveLevel', lambda: E.fresh_int('logging.level', 0, 50))
        if name in ('level',):
            return E.fresh_int('logging.level', 0, 50)
        if name in ('disabled', 'propagate'):
            return E.fresh_bool('logging.' + name)
        return Builtin('noop', lambda *a, **k: None)
    if isinstance(obj, ENG.PyFunc):
        if name == '__name__':
            return obj.name
        return obj.__dict__.setdefault('_attrs', {}).get(name, NOATTR)
    if isinstance(obj, ENG.BoundMethod):
        if name == '__name__':
            return obj.func.name
        if name == '__self__':
            return obj.self_obj
        if name == '__func__':
            return obj.func
    if isinstance(obj, tuple) and name in ('count', 'index'):
        return Builtin('tuple.' + name, getattr(obj, name))
    if isinstance(obj, Partial):
        return NOATTR
    if obj is None:
        return NOATTR
    return NOATTR


def opaque_attr(E, obj, name):
    return OpaqueMethod(obj, name)


def opaque_exception(E, v):
    o = SObj(ENG.EXC['Exception'], {'args': (), 'opaque': v})
    return o


def gen_attr(E, g, name):
    if name == '__next__':
        raise Unsupported('generator.__next__ (explicit stepping) without contract')
    if name in ('__iter__', '__aiter__'):
        return Builtin('gen.__iter__', lambda: g)
    raise Unsupported('generator attribute %s' % name)


def narrow_opaque_exception(E, exc, cls):
    """An application exception turns out (on this path) to be an instance of the library class `cls`: give it the
    attributes instances of that class carry - with arbitrary values."""
    exc.cls = cls
    if any(c.name == 'RSocketProtocolError' for c in cls.mro):
        codes = E.lookup('rsocket/error_codes.py::ErrorCode').members
        if cls.name == 'RSocketStreamIdInUse':
            exc.attrs.setdefault('error_code', codes['REJECTED'])
            exc.attrs.setdefault('stream_id', E.fresh_int('exc.stream_id'))
        else:
            # any protocol error code the application likes (one per path)
            names = sorted(codes)
            exc.attrs.setdefault('error_code', codes[names[E.path.choice(len(names), 'application-exception-error-code')]])
        exc.attrs.setdefault('data', [None, 'application text'][E.path.choice(2, 'application-exception-data')])
    for nm in ('route_id', 'method_name', 'mimetype', 'mimetype_id', 'auth_type_id', 'frame_type_id'):
        pass


# =========================================================================== collections.deque (concrete length, optional maxlen)

def _deque_ctor(E, cls, args, kwargs):
    it = args[0] if args else kwargs.get('iterable', ())
    maxlen = args[1] if len(args) > 1 else kwargs.get('maxlen')
    if maxlen is not None and not isinstance(maxlen, int):
        # symbolic bound: split on small values so that the content stays a concrete list
        for v in range(0, 6):
            if E.decide(mk_bool(I(maxlen) == v), 'deque-maxlen=%d' % v):
                maxlen = v
                break
        else:
            raise Unsupported('deque(maxlen) symbolic and larger than 5')
    if isinstance(maxlen, int) and maxlen < 0:
        E.throw('ValueError', 'maxlen must be non-negative')
    o = SObj(cls, {'items': [], 'maxlen': maxlen})
    for x in (concrete_iter(E, it) if it is not None else []):
        _deque_append(E, o, x)
    return o


def _deque_append(E, o, x, left=False):
    items, ml = o.attrs['items'], o.attrs['maxlen']
    if ml is not None:
        if ml == 0:
            return
        if len(items) >= ml:
            if left:
                items.pop()
            else:
                items.pop(0)
    if left:
        items.insert(0, x)
    else:
        items.append(x)


def _deque_attr(E, o, name):
    items = o.attrs['items']

    def pop_(left):
        def f():
            if not items:
                E.throw('IndexError', 'pop from an empty deque')
            return items.pop(0) if left else items.pop()
        return f
    if name == 'append':
        return Builtin('deque.append', lambda x: _deque_append(E, o, x))
    if name == 'appendleft':
        return Builtin('deque.appendleft', lambda x: _deque_append(E, o, x, True))
    if name == 'popleft':
        return Builtin('deque.popleft', pop_(True))
    if name == 'pop':
        return Builtin('deque.pop', pop_(False))
    if name == 'clear':
        return Builtin('deque.clear', lambda: items.clear())
    if name == 'maxlen':
        return o.attrs['maxlen']
    if name == 'extend':
        return Builtin('deque.extend', lambda it: [_deque_append(E, o, x) for x in concrete_iter(E, it)] and None)
    if name == 'copy':
        return Builtin('deque.copy', lambda: SObj(o.cls, {'items': list(items), 'maxlen': o.attrs['maxlen']}))
    if name == 'remove':
        def remove(x):
            for i, y in enumerate(items):
                if y is x:
                    del items[i]
                    return
            E.throw('ValueError', 'deque.remove(x): x not in deque')
        return Builtin('deque.remove', remove)
    if name == 'rotate':
        def rotate(n=1):
            if not isinstance(n, int):
                raise Unsupported('deque.rotate symbolic')
            if items:
                k = n % len(items)
                items[:] = items[-k:] + items[:-k] if k else items
        return Builtin('deque.rotate', rotate)
    if name == '_pyvc_iter':
        return lambda E_: list(items)
    return NOATTR


def _deque_getitem(E, o, idx):
    items = o.attrs['items']
    if isinstance(idx, int):
        if -len(items) <= idx < len(items):
            return items[idx]
        E.throw('IndexError', 'deque index out of range')
    raise Unsupported('deque index %r' % (idx,))


# =========================================================================== object models (BytesIO ...)

def _bytesio_ctor(E, cls, args, kwargs):
    init = args[0] if args else kwargs.get('initial_bytes', b'')
    if init is None:
        init = b''
    if not is_byteslike(init):
        E.throw('TypeError', 'a bytes-like object is required')
    return SObj(cls, {'buf': lift_bytes(init), 'pos': 0})


def _bytesio_attr(E, obj, name):
    if name == 'read':
        def read(n=-1):
            buf = obj.attrs['buf']
            pos = obj.attrs['pos']
            if n is None:
                n = -1
            nt = I(n)
            if E.decide(mk_bool(nt < 0), 'read-all'):
                r = b_slice(E, buf, pos, None)
                obj.attrs['pos'] = mk_int(buf.len_term())
                return r
            end = mk_int(I(pos) + nt)
            r = b_slice(E, buf, pos, end)
            obj.attrs['pos'] = mk_int(I(pos) + lift_bytes(r).len_term())
            return r
        return Builtin('BytesIO.read', read)
    if name == 'getvalue':
        return Builtin('BytesIO.getvalue', lambda: obj.attrs['buf'])
    if name == 'write':
        def write(data):
            if not (isinstance(obj.attrs['pos'], int) or True):
                pass
            buf = obj.attrs['buf']
            pos = obj.attrs['pos']
            # only append-at-end supported
            if E.path.check(I(pos) != buf.len_term()) != z3.unsat:
                raise Unsupported('BytesIO.write not at end')
            obj.attrs['buf'] = b_concat(buf, data)
            obj.attrs['pos'] = mk_int(lift_bytes(obj.attrs['buf']).len_term())
            return mk_int(lift_bytes(data).len_term())
        return Builtin('BytesIO.write', write)
    if name == 'tell':
        return Builtin('BytesIO.tell', lambda: obj.attrs['pos'])
    return NOATTR


OBJ_ATTR_MODELS = {'BytesIO': _bytesio_attr, 'deque': _deque_attr}
OBJ_SETATTR_MODELS = {}
CLASS_ATTR_MODELS = {}
CLASS_CTOR_MODELS = {'BytesIO': _bytesio_ctor, 'deque': _deque_ctor}
FORCE_CTOR = set()
BASE_INIT_MODELS = {}
TRUTH_MODELS = {'deque': lambda E_, v: len(v.attrs['items']) > 0}
# modelled external classes without __bool__/__len__ (object default: always true)
ALWAYS_TRUTHY = {'object', 'Future', 'Task', 'Event', 'Queue', 'datetime', 'Lock', 'Condition', 'Semaphore'}
OBJ_BINOP = {}
OBJ_CMP = {}
OBJ_EQ = {}
OBJ_GETITEM = {'deque': _deque_getitem}


# =========================================================================== builtins

def make_builtins(E):
    b = {}

    def reg(name, fn):
        b[name] = Builtin(name, fn)

    def _len(v):
        if isinstance(v, (list, tuple, dict, str, set, frozenset, bytes, bytearray)):
            return len(v)
        from . import aio as _aio2
        if isinstance(v, _aio2.QueueView):
            ss = v.q.attrs['_sym']
            return mk_int(ss['t'] - ss['h'])
        if isinstance(v, SymSeq):
            return mk_int(v.hi - v.lo)
        if isinstance(v, SymList):
            return v.n
        if isinstance(v, (SBytes, SByteArray)):
            n = lift_bytes(v).n
            return n if isinstance(n, int) else mk_int(n)
        if isinstance(v, SObj):
            f, _ = v.cls.lookup('__len__')
            if f is not None:
                return E.call(ENG.BoundMethod(f, v), [], {})
            if v.cls.name == 'deque':
                return len(v.attrs['items'])
        if isinstance(v, SStr):
            return E.fresh_int('strlen', lo=0)
        E.throw('TypeError', "object of type '%s' has no len()" % _tname(v))
    reg('len', _len)

    def _isinstance(v, t):
        if isinstance(t, tuple):
            res = False
            acc = []
            for tt in t:
                r = _isinstance(v, tt)
                if r is True:
                    return True
                if r is not False:
                    acc.append(r.e)
            return mk_bool(z3.Or(acc)) if acc else False
        if isinstance(t, ENG.Builtin):
            nm = t.name
            if nm == 'bytes':
                return isinstance(v, (bytes, SBytes))
            if nm == 'bytearray':
                return isinstance(v, (bytearray, SByteArray))
            if nm == 'str':
                return isinstance(v, (str, SStr))
            if nm == 'int':
                return isinstance(v, (int, SInt, SBool)) or (isinstance(v, EnumMember) and v.cls.is_int_enum)
            if nm == 'bool':
                return isinstance(v, (bool, SBool))
            if nm == 'float':
                return isinstance(v, (float, SReal))
            if nm == 'list':
                return isinstance(v, list)
            if nm == 'tuple':
                return isinstance(v, tuple)
            if nm == 'dict':
                return isinstance(v, (dict, SMap))
            if nm == 'object':
                return True
            if nm == 'type':
                return isinstance(v, ENG.PyClass)
            raise Unsupported('isinstance(_, %s)' % nm)
        if isinstance(t, ENG.PyClass):
            if isinstance(v, SObj):
                return E.instance_of_class(v, t)
            if isinstance(v, EnumMember):
                return v.cls.issubclass(t)
            if isinstance(v, SOpaque):
                if v.iface is not None and v.iface.issubclass(t):
                    return True
                key = 'isinstance:' + t.name
                if key not in v.props:
                    hook = getattr(E, 'opaque_isinstance', None)
                    if hook is not None:
                        v.props[key] = hook(E, v, t)
                    else:
                        raise Unsupported('isinstance(%r, %s) undetermined' % (v, t.name))
                return v.props[key]
            if isinstance(v, ENG.GenObj):
                return False
            return False
        if isinstance(t, Extern):
            if isinstance(v, (SObj, EnumMember)) or v is None or isinstance(v, (int, bytes, str, SInt, SBytes, SStr, bool, SBool)):
                # classes from outside the repository: our objects are never instances, except known models
                nm = t.name.split('.')[-1]
                if isinstance(v, SObj) and any(c.name == nm for c in v.cls.mro):
                    return True
                return False
            raise Unsupported('isinstance(_, extern %s)' % t.name)
        if isinstance(t, SObj) or t is None or isinstance(t, (int, str, bytes, SInt, SBytes, SStr, EnumMember, list, dict)):
            E.throw('TypeError', 'isinstance() arg 2 must be a type, a tuple of types, or a union')
        raise Unsupported('isinstance with %r' % (t,))
    reg('isinstance', _isinstance)

    def _issubclass(c, t):
        if isinstance(t, tuple):
            return any(_issubclass(c, x) for x in t)
        if isinstance(c, ENG.PyClass) and isinstance(t, ENG.PyClass):
            return c.issubclass(t)
        return False
    reg('issubclass', _issubclass)
    reg('hasattr', lambda o, n: E.hasattr(o, n))

    def _getattr(o, n, *d):
        try:
            return E.getattr(o, n)
        except PyExc as e:
            if d and e.value.cls.issubclass(ENG.EXC['AttributeError']):
                return d[0]
            raise
    reg('getattr', _getattr)
    reg('setattr', lambda o, n, v: E.setattr(o, n, v))

    def _bytes(v=b'', *a):
        if isinstance(v, (bytes, bytearray)):
            return bytes(v)
        if isinstance(v, (SBytes, SByteArray)):
            return lift_bytes(v)
        if isinstance(v, int) and not isinstance(v, bool):
            return bytes(v)
        if isinstance(v, SInt):
            n = v.e
            E.assume(n >= 0)
            return SBytes(n, lambda i: z3.IntVal(0))
        if isinstance(v, (list, tuple)):
            return b_from_ints([I(x) for x in v])
        if isinstance(v, (str, SStr)) and a:
            return E.getattr(v, 'encode').impl(*a)
        if isinstance(v, (str, SStr)):
            E.throw('TypeError', 'string argument without an encoding')
        if v is None:
            E.throw('TypeError', "cannot convert 'NoneType' object to bytes")
        raise Unsupported('bytes(%r)' % (v,))
    reg('bytes', _bytes)

    def _bytearray(v=b'', *a):
        if isinstance(v, int) and not isinstance(v, bool):
            return SByteArray(lift_bytes(bytes(v)))
        if isinstance(v, SInt):
            n = v.e
            if not E.decide(mk_bool(n >= 0), 'bytearray-neg'):
                E.throw('ValueError', 'negative count')
            return SByteArray(SBytes(n, lambda i: z3.IntVal(0)))
        return SByteArray(lift_bytes(_bytes(v, *a)))
    reg('bytearray', _bytearray)

    def _int(v=0, *a):
        if isinstance(v, (int, SInt)):
            return v if not isinstance(v, bool) else int(v)
        if isinstance(v, SBool):
            return mk_int(I(v))
        if isinstance(v, EnumMember):
            return v.value
        if isinstance(v, SReal):
            x = v.e
            return mk_int(z3.If(x >= 0, z3.ToInt(x), -z3.ToInt(-x)))
        if isinstance(v, float):
            return int(v)
        if isinstance(v, str):
            try:
                return int(v, *a)
            except ValueError:
                E.throw('ValueError', 'invalid literal for int()')
        if isinstance(v, SStr):
            ok = E.fresh_bool('int_parse_ok')
            if not E.decide(ok, 'int-parse'):
                E.throw('ValueError', 'invalid literal for int()')
            return E.fresh_int('parsed_int')
        raise Unsupported('int(%r)' % (v,))
    reg('int', _int)

    def _bool(v=False):
        return E.truth(v)
    reg('bool', _bool)

    def _str(v=''):
        if isinstance(v, str):
            return v
        if isinstance(v, SStr):
            return v
        if isinstance(v, int) and not isinstance(v, bool):
            return str(v)
        if isinstance(v, SObj):
            f, _ = v.cls.lookup('__str__')
            if f is not None:
                try:
                    return E.call(ENG.BoundMethod(f, v), [], {})
                except Unsupported:
                    return E.fresh_str('str')
            if v.cls.issubclass(ENG.EXC['BaseException']):
                a = v.attrs.get('args', ())
                if len(a) == 1 and isinstance(a[0], (str, SStr)):
                    return a[0]
                if len(a) == 0:
                    return ''
        return E.fresh_str('str')
    reg('str', _str)
    reg('repr', lambda v: E.fresh_str('repr'))
    reg('float', lambda v=0.0: v if isinstance(v, (float, SReal)) else mk_real(R(v)))

    def _round(v, nd=None):
        if nd is not None:
            raise Unsupported('round with ndigits')
        if isinstance(v, (int, SInt)):
            return v
        if isinstance(v, float):
            return round(v)
        return mk_int(round_half_even(R(v)))
    reg('round', _round)

    def _pow(a, b, *m):
        if isinstance(a, int) and isinstance(b, int) and not m:
            return pow(a, b)
        return binop(E, ast.Pow(), a, b)
    reg('pow', _pow)

    def _minmax(is_min):
        def f(*a, **k):
            items = list(a[0]) if len(a) == 1 else list(a)
            if not items:
                E.throw('ValueError', 'empty sequence')
            cur = items[0]
            for x in items[1:]:
                c = compare(E, ast.Lt() if is_min else ast.Gt(), x, cur)
                if isinstance(c, bool):
                    if c:
                        cur = x
                else:
                    if isinstance(x, SObj) or isinstance(cur, SObj):
                        # objects ordered by a modelled comparison (timedelta, datetime): decide by branching
                        if E.decide(c, 'minmax'):
                            cur = x
                    elif _is_real(x) or _is_real(cur):
                        cur = mk_real(z3.If(c.e, R(x), R(cur)))
                    else:
                        cur = mk_int(z3.If(c.e, I(x), I(cur)))
            return cur
        return f
    reg('min', _minmax(True))
    reg('max', _minmax(False))

    def _abs(v):
        if isinstance(v, (int, float)):
            return abs(v)
        if isinstance(v, SInt):
            return mk_int(z3.If(v.e >= 0, v.e, -v.e))
        raise Unsupported('abs')
    reg('abs', _abs)
    def _list(v=()):
        from . import aio as _aio
        if isinstance(v, _aio.QueueView):
            ss = v.q.attrs['_sym']
            return SymSeq(ss['arr'], ss['h'], ss['t'], ss['name'])
        if isinstance(v, (SymIter, SymSeq)):
            return v
        return concrete_iter(E, v)
    reg('list', _list)
    reg('tuple', lambda v=(): tuple(concrete_iter(E, v)))
    reg('set', lambda v=(): set(concrete_iter(E, v)))
    reg('frozenset', lambda v=(): frozenset(concrete_iter(E, v)))
    reg('sorted', lambda v, **k: sorted(concrete_iter(E, v), **k))
    reg('reversed', lambda v: list(reversed(concrete_iter(E, v))))

    def _dict(*a, **k):
        d = {}
        if a:
            src = a[0]
            if isinstance(src, dict):
                d.update(src)
            else:
                for kv in concrete_iter(E, src):
                    kk, vv = unpack_iter(E, kv, 2)
                    d[dict_key(E, kk)] = vv
        d.update(k)
        return d
    reg('dict', _dict)

    def _range(*a):
        if all(isinstance(x, int) for x in a):
            return range(*a)
        if len(a) == 1:
            return SymRange(0, a[0])
        if len(a) == 2:
            return SymRange(a[0], a[1])
        raise Unsupported('range with symbolic step')
    reg('range', _range)
    reg('enumerate', lambda v, start=0: list(enumerate(concrete_iter(E, v), start)))
    reg('zip', lambda *a: list(zip(*[concrete_iter(E, x) for x in a])))

    def _map(f, *its):
        return [E.call(f, list(args), {}) for args in zip(*[concrete_iter(E, x) for x in its])]
    reg('map', _map)
    reg('filter', lambda f, it: [x for x in concrete_iter(E, it) if E.decide(E.call(f, [x], {}) if f is not None else x, 'filter')])
    reg('any', lambda it: _anyall(E, it, True))
    reg('all', lambda it: _anyall(E, it, False))
    reg('sum', lambda it, start=0: _sum(E, it, start))

    def _type(v, *a):
        if a:
            raise Unsupported('type() with 3 args')
        if isinstance(v, SObj):
            return v.cls
        if isinstance(v, EnumMember):
            return v.cls
        if isinstance(v, (bytes, SBytes)):
            return b['bytes']
        if isinstance(v, (str, SStr)):
            return b['str']
        if isinstance(v, bool):
            return b['bool']
        if isinstance(v, (int, SInt)):
            return b['int']
        if isinstance(v, SOpaque):
            return SOpaque('class-of', v.ident)
        if v is None:
            return b['NoneType']
        raise Unsupported('type(%r)' % (v,))
    reg('type', _type)
    reg('NoneType', lambda: None)
    reg('id', lambda v: id(v))
    reg('callable', lambda v: isinstance(v, (ENG.PyFunc, ENG.BoundMethod, ENG.Builtin, ENG.PyClass, OpaqueMethod, Partial))
        or (isinstance(v, SOpaque) and v.kind in ('callable', 'function')))
    reg('print', lambda *a, **k: None)
    reg('iter', lambda v: v)

    def _next(g, *d):
        if isinstance(g, ENG.GenList):
            if g._pos < len(g):
                g._pos += 1
                return g[g._pos - 1]
            if d:
                return d[0]
            E.throw('StopIteration')
        try:
            return E.call(E.getattr(g, '__next__'), [], {})
        except PyExc as e:
            # next(it, default): exhaustion (StopIteration from __next__) yields the default; anything else propagates
            if d and isinstance(e.value, SObj) and e.value.cls.name == 'StopIteration':
                return d[0]
            raise
    reg('next', _next)
    reg('object', lambda: SObj(ENG.OBJECT))
    b['object'] = ENG.OBJECT
    reg('property', lambda f: ENG.Property(f))
    reg('staticmethod', _ident)
    reg('classmethod', _ident)
    reg('vars', lambda o: dict(o.attrs))
    reg('divmod', lambda a, c: (binop(E, ast.FloorDiv(), a, c), binop(E, ast.Mod(), a, c)))
    reg('ord', lambda c: ord(c))
    reg('chr', lambda c: chr(c))
    reg('hex', lambda c: hex(c) if isinstance(c, int) else E.fresh_str('hex'))
    reg('format', lambda *a: E.fresh_str('format'))
    reg('memoryview', lambda v: v)
    b['NotImplemented'] = Extern('NotImplemented')
    b['Ellipsis'] = Ellipsis
    b['__debug__'] = True
    for name, c in ENG.EXC.items():
        if '.' not in name and name not in ('QueueEmpty', 'QueueFull', 'InvalidStateError', 'CancelledError'):
            b[name] = c
    return b


def _anyall(E, it, is_any):
    if isinstance(it, SymGen):
        # any/all over a symbolic sequence: the element expression evaluated ONCE on a generic element arr[j] (j bound), without
        # branching on it; the result is the quantified formula.  Sound for element expressions that are pure tests.
        from . import aio as _aio
        seq, g = it.seq, it.node.generators[0]
        j = z3.Int(E.path.fresh_name('seq.j'))
        probe = seq.elem(E, j) if seq.elem is not None else _aio.registry(E).obj_of(z3.Select(seq.arr, j), '%s[j]' % seq.name)
        E.path.ghost.setdefault('seq_bounds', {})[str(j)] = (seq.lo, seq.hi)
        cenv = ENG.Env(it.env.module, it.env.func, it.env)
        E.assign(g.target, probe, cenv)
        depth = len(E.path.sig)
        t = E.truth(E.eval(it.node.elt, cenv))
        if len(E.path.sig) != depth:
            raise Unsupported('the element test of any()/all() over a symbolic sequence branches on the element')
        body = B(t)
        rng = z3.And(j >= seq.lo, j < seq.hi)
        return mk_bool(z3.Exists([j], z3.And(rng, body)) if is_any else z3.ForAll([j], z3.Implies(rng, body)))
    acc = []
    for x in concrete_iter(E, it):
        t = E.truth(x)
        if isinstance(t, bool):
            if t and is_any:
                return True
            if not t and not is_any:
                return False
        else:
            acc.append(t.e)
    if not acc:
        return not is_any
    return mk_bool(z3.Or(acc) if is_any else z3.And(acc))


def _sum(E, it, start):
    cur = start
    for x in concrete_iter(E, it):
        cur = binop(E, ast.Add(), cur, x)
    return cur
