"""setup_cmd: verifies the tools the checks need are present and the engine's own smoke obligations discharge."""
import os
import shutil
import subprocess
import sys


def main():
    import z3
    ok = True
    print('z3', z3.get_version_string())
    for tool in ('/usr/bin/cvc5', '/venv/bin/python'):
        if not os.path.exists(tool):
            print('missing', tool)
            ok = False
    s = z3.Solver()
    x = z3.Int('x')
    s.add(x % 2 == 1, x & 0 == 0 if False else x > 0)
    assert s.check() == z3.sat
    root = os.path.dirname(os.path.dirname(os.path.abspath(__file__)))
    for d in ('evidence', 'replays'):
        os.makedirs(os.path.join(root, d), exist_ok=True)
    # engine smoke test: concrete run of the real allocator through the interpreter
    sys.path.insert(0, root)
    from pyvc import engine as ENG, harness as H
    E = ENG.Engine()
    H.install_common_stubs(E)
    out = []

    def h(E):
        sc = E.call(E.lookup('rsocket/stream_control.py::StreamControl'), [1])
        out.append(E.call(E.getattr(sc, 'allocate_stream'), []))
    res, err = E.explore(h)
    if out != [1] or err:
        print('engine smoke test failed', out, err)
        ok = False
    print('selfcheck', 'ok' if ok else 'FAILED')
    return 0 if ok else 1


if __name__ == '__main__':
    sys.exit(main())
