"""Bit-slice normal form for non-negative integer terms.

A BitForm is a little-endian list of segments describing an unsigned integer (implicitly zero-extended):
    ('c', value, width)        constant bits
    ('b', boolterm)            one bit given by a z3 Bool term
    ('x', term, lo, width)     bits [lo, lo+width) of the integer term `term`, i.e. (term div 2^lo) mod 2^width

Bit-level operations of the interpreted code (shift, mask, or, and, big-endian pack/unpack) are carried out
structurally on this form, so header/flag manipulations become syntactic and only lengths and offsets reach
the arithmetic solver.  Every BitForm has a canonical z3 Int term; a per-path table maps term ids back to forms.
The table is attached to the Path object, because the width of a source term is a path fact.
"""
import z3


def _table(path):
    t = getattr(path, '_bits', None)
    if t is None:
        t = path._bits = {}
        path._widths = {}
    return t


def seg_width(s):
    return s[2] if s[0] == 'c' else (1 if s[0] == 'b' else s[3])


def width(segs):
    return sum(seg_width(s) for s in segs)


def normalize(segs):
    out = []
    for s in segs:
        w = seg_width(s)
        if w == 0:
            continue
        if s[0] == 'b':
            b = z3.simplify(s[1]) if z3.is_expr(s[1]) else s[1]
            if b is True or (z3.is_expr(b) and z3.is_true(b)):
                s = ('c', 1, 1)
            elif b is False or (z3.is_expr(b) and z3.is_false(b)):
                s = ('c', 0, 1)
            else:
                s = ('b', b)
        if out:
            p = out[-1]
            if p[0] == 'c' and s[0] == 'c':
                out[-1] = ('c', p[1] | (s[1] << p[2]), p[2] + s[2])
                continue
            if p[0] == 'x' and s[0] == 'x' and p[1].eq(s[1]) and p[2] + p[3] == s[2]:
                out[-1] = ('x', p[1], p[2], p[3] + s[3])
                continue
        out.append(s)
    while out and out[-1][0] == 'c' and out[-1][1] == 0:
        out.pop()
    return out


def source_width(path, term):
    _table(path)
    return path._widths.get(term.get_id())


def declare_source(path, term, w):
    """Record that 0 <= term < 2^w holds on this path, and give the term the trivial form."""
    t = _table(path)
    path._widths[term.get_id()] = w
    t[term.get_id()] = (term, [('x', term, 0, w)])


def seg_term(path, s):
    if s[0] == 'c':
        return z3.IntVal(s[1])
    if s[0] == 'b':
        return z3.If(s[1], z3.IntVal(1), z3.IntVal(0))
    _, t, lo, w = s
    sw = source_width(path, t)
    e = t
    if lo > 0:
        e = e / (1 << lo)
    if sw is None or lo + w < sw:
        e = e % (1 << w)
    return e


def to_term(path, segs):
    segs = normalize(segs)
    if not segs:
        return z3.IntVal(0)
    acc = None
    pos = 0
    for s in segs:
        w = seg_width(s)
        if not (s[0] == 'c' and s[1] == 0):
            e = seg_term(path, s)
            if pos:
                e = e * (1 << pos)
            acc = e if acc is None else acc + e
        pos += w
    if acc is None:
        acc = z3.IntVal(0)
    if all(s[0] == 'c' for s in segs):
        acc = z3.simplify(acc)
    _table(path)[acc.get_id()] = (acc, segs)
    return acc


def of(path, term):
    """BitForm of a z3 Int term / python int, or None."""
    if isinstance(term, bool):
        term = int(term)
    if isinstance(term, int):
        if term < 0:
            return None
        return normalize([('c', term, max(term.bit_length(), 1))])
    if z3.is_int_value(term):
        v = term.as_long()
        if v < 0:
            return None
        return normalize([('c', v, max(v.bit_length(), 1))])
    r = _table(path).get(term.get_id())
    if r is not None:
        return r[1]
    # If(b, 1, 0)
    if z3.is_app(term) and term.decl().kind() == z3.Z3_OP_ITE:
        c, a, b = term.children()
        if z3.is_int_value(a) and z3.is_int_value(b):
            av, bv = a.as_long(), b.as_long()
            if bv == 0 and av > 0 and (av & (av - 1)) == 0:
                return normalize([('c', 0, av.bit_length() - 1), ('b', c)])
            if av == 0 and bv > 0 and (bv & (bv - 1)) == 0:
                return normalize([('c', 0, bv.bit_length() - 1), ('b', z3.Not(c))])
    return None


def split_at(segs, k):
    """(low k bits, rest)"""
    lo, hi = [], []
    pos = 0
    for s in segs:
        w = seg_width(s)
        if pos + w <= k:
            lo.append(s)
        elif pos >= k:
            hi.append(s)
        else:
            a = k - pos
            if s[0] == 'c':
                lo.append(('c', s[1] & ((1 << a) - 1), a))
                hi.append(('c', s[1] >> a, w - a))
            else:
                lo.append(('x', s[1], s[2], a))
                hi.append(('x', s[1], s[2] + a, w - a))
        pos += w
    if pos < k:
        lo.append(('c', 0, k - pos))
    return lo, hi


def extract(segs, lo, w=None):
    _, hi = split_at(segs, lo)
    if w is None:
        return normalize(hi)
    l, _ = split_at(hi, w)
    return normalize(l)


def shl(segs, k):
    return normalize(([('c', 0, k)] if k else []) + list(segs))


def concat_le(parts):
    """parts: list of (segs, width) little-endian (first = least significant); each padded/truncated to its width"""
    out = []
    for segs, w in parts:
        l, _ = split_at(segs, w)
        out.extend(l)
    return normalize(out)


def _pieces(a, b):
    """Align two forms on common boundaries; yields (piece_a, piece_b, width)."""
    wa, wb = width(a), width(b)
    n = max(wa, wb)
    cuts = {0, n}
    pos = 0
    for s in a:
        pos += seg_width(s)
        cuts.add(pos)
    pos = 0
    for s in b:
        pos += seg_width(s)
        cuts.add(pos)
    cuts = sorted(c for c in cuts if c <= n)
    out = []
    for lo, hi in zip(cuts, cuts[1:]):
        pa = extract(a, lo, hi - lo)
        pb = extract(b, lo, hi - lo)
        out.append((pa[0] if pa else ('c', 0, hi - lo), pb[0] if pb else ('c', 0, hi - lo), hi - lo, len(pa) <= 1 and len(pb) <= 1))
    return out


def _const_runs(v, w):
    """split constant into runs of equal bits: list of (bitvalue, runwidth) LSB first"""
    runs = []
    i = 0
    while i < w:
        bit = (v >> i) & 1
        j = i
        while j < w and ((v >> j) & 1) == bit:
            j += 1
        runs.append((bit, j - i))
        i = j
    return runs


def bitwise(op, a, b):
    """op in 'and','or','xor'. Returns segs or None when a piece cannot be combined structurally."""
    out = []
    for pa, pb, w, ok in _pieces(a, b):
        if not ok:
            return None
        if pa[0] == 'c' and pb[0] == 'c':
            v = {'and': pa[1] & pb[1], 'or': pa[1] | pb[1], 'xor': pa[1] ^ pb[1]}[op]
            out.append(('c', v, w))
            continue
        if pb[0] == 'c':
            pa, pb = pb, pa
        if pa[0] == 'c':
            # constant vs non-constant: go run by run
            pos = 0
            for bit, rw in _const_runs(pa[1], w):
                sub = extract([pb], pos, rw)
                sub = sub if sub else [('c', 0, rw)]
                if width(sub) < rw:
                    sub = sub + [('c', 0, rw - width(sub))]
                if op == 'and':
                    out.extend(sub if bit else [('c', 0, rw)])
                elif op == 'or':
                    out.extend([('c', (1 << rw) - 1, rw)] if bit else sub)
                else:
                    if bit:
                        if all(s[0] == 'b' for s in sub):
                            out.extend([('b', z3.Not(s[1])) for s in sub])
                        else:
                            return None
                    else:
                        out.extend(sub)
                pos += rw
            continue
        if pa[0] == 'b' and pb[0] == 'b':
            t = {'and': z3.And, 'or': z3.Or, 'xor': z3.Xor}[op](pa[1], pb[1])
            out.append(('b', t))
            continue
        if pa[0] == 'x' and pb[0] == 'x' and pa[1].eq(pb[1]) and pa[2] == pb[2] and op in ('and', 'or'):
            out.append(pa)
            continue
        return None
    return normalize(out)


def add_disjoint(a, b):
    """a + b when no bit position is possibly set in both (then + is or)."""
    for pa, pb, w, ok in _pieces(a, b):
        if not ok:
            return None
        za = pa[0] == 'c' and pa[1] == 0
        zb = pb[0] == 'c' and pb[1] == 0
        if not (za or zb):
            return None
    return bitwise('or', a, b)


def eq_const(path, segs, c):
    """Formula (python bool or z3 Bool) for value(segs) == c."""
    if c < 0:
        return False
    if c.bit_length() > width(segs):
        return False
    conj = []
    pos = 0
    for s in segs:
        w = seg_width(s)
        piece = (c >> pos) & ((1 << w) - 1)
        if s[0] == 'c':
            if s[1] != piece:
                return False
        elif s[0] == 'b':
            conj.append(s[1] if piece else z3.Not(s[1]))
        else:
            conj.append(seg_term(path, s) == piece)
        pos += w
    if not conj:
        return True
    return z3.And(conj) if len(conj) > 1 else conj[0]


def as_const(segs):
    if not segs:
        return 0
    if len(segs) == 1 and segs[0][0] == 'c':
        return segs[0][1]
    return None
