"""C04 - the decoder is a length-prefix splitter that does not depend on how the byte stream is chunked.
(DESIGN 5/C04)

Spec:  step(X) = (record X[3:3+L], rest X[3+L:]) if len X >= 3 and len X >= 3+L (L = be24(X[0:3])) else none.
receive_data(B, d): iterates step on B++d; yields dec(record) for every record; leaves the rest in the buffer.
"""
import z3

from pyvc.values import *   # noqa
from pyvc.engine import LoopSpec, EXC, GenObj
from pyvc.harness import harness, new_obj, OpaqueLog
from pyvc import models as M
from contracts import spec_wire as W

FP = 'rsocket/frame_parser.py::FrameParser'
RECV = FP + '.receive_data'
POI = 'rsocket/frame.py::parse_or_ignore'


def L_at(X, c):
    """be24 of X[c:c+3] as an Int term"""
    return (X.at(c) * 256 + X.at(c + 1)) * 256 + X.at(c + 2)


class DecStub:
    """Weakest contract of parse_or_ignore as seen by the splitter: returns a frame, returns None or raises an Exception."""

    def __init__(self, E):
        self.calls = []
        self.E = E

    def __call__(self, E, f, args, kwargs):
        rec = args[0]
        out = E.path.choice(3, 'dec')
        self.calls.append((rec, out))
        if out == 0:
            return SOpaque('frame', 'dec(record#%d)' % len(self.calls))
        if out == 1:
            return None
        raise PyExc(E.make_exc(E.lookup('rsocket/exceptions.py::ParseError'), 'undecodable'))


# the local that tracks the buffer length, by role (robust against renaming): the left operand of the while test
TOTAL = (('while_lhs',), ('assigned', 'len(self._buffer)'))


def stream_spec(E, X0, dec, yields):
    def havoc(ctx):
        c = E.fresh_int('consumed', 0)
        E.path.add(I(c) <= X0.len_term())
        ctx.ghost['c'] = c
        ctx.ghost['ncalls'] = len(dec.calls)
        ctx.ghost['nyields'] = len(yields)
        buf = M.b_slice(E, X0, c, None)
        ctx.self.attrs['_buffer'] = SByteArray(buf)
        ctx.set_local('total', mk_int(lift_bytes(buf).len_term()), *TOTAL)

    def inv(ctx):
        s = ctx.self
        buf = lift_bytes(s.attrs['_buffer'])
        total = I(ctx.local('total', *TOTAL))
        if ctx.phase == 'entry':
            return [('buffer = B++d', M.b_eq_goal(E, buf, X0, 'e')), ('total = len(buffer)', total == buf.len_term())]
        if ctx.phase == 'head':
            return []       # the havoc *defines* buffer := X0[c:], total := len(buffer)
        c = I(ctx.ghost['c'])
        L = L_at(X0, c)
        c2 = c + 3 + L
        rec = M.b_slice(E, X0, mk_int(c + 3), mk_int(c2))
        new_calls = dec.calls[ctx.ghost['ncalls']:]
        new_yields = yields[ctx.ghost['nyields']:]
        out = [
            ('a record was complete', z3.And(X0.len_term() - c >= 3, X0.len_term() - c >= 3 + L)),
            ('buffer advanced by exactly one record', M.b_eq_goal(E, buf, M.b_slice(E, X0, mk_int(c2), None), 's')),
            ('total = len(buffer)', total == buf.len_term()),
            ('decoder called exactly once per record', len(new_calls) == 1),
        ]
        if len(new_calls) == 1:
            out.append(('decoder given exactly the record bytes', M.b_eq_goal(E, new_calls[0][0], rec, 'r')))
            kind = new_calls[0][1]
            if kind == 0:
                out.append(('frame yielded once', len(new_yields) == 1 and isinstance(new_yields[0], SOpaque)))
            elif kind == 1:
                out.append(('ignored frame yields nothing', len(new_yields) == 0))
            else:
                out.append(('undecodable record yields only the invalid marker',
                            len(new_yields) == 1 and isinstance(new_yields[0], SObj) and new_yields[0].cls.name == 'InvalidFrame'))
        return out

    def variant(ctx):
        return I(ctx.local('total', *TOTAL))
    return LoopSpec(inv, variant, havoc=havoc, modifies=['total', 'self._buffer'])


@harness('c04.receive_data[stream]', ['C04', 'C12', 'C01'], functions=[RECV, FP + '.__init__'], replay='c04_stream',
         fallback=r'^c04\.chunked_history\.bounded',
         assumptions=['parse_or_ignore is abstracted by its weakest contract here (returns a frame / returns None / raises an Exception); '
                      'its field contract is C02, its totality C12',
                      'L-SPLIT: induction over the number of records (meta-level) on top of the mechanised step lemma c04.lemma'])
def recv_stream(E):
    B0 = E.input('buffer', E.fresh_bytes('B'))
    d = E.input('data', E.fresh_bytes('d'))
    X0 = M.b_concat(B0, d)
    parser = new_obj(E, FP, _buffer=SByteArray(B0))
    dec = DecStub(E)
    E.stubs[POI] = dec
    yields = []
    E.loop_specs[(RECV, 0)] = stream_spec(E, X0, dec, yields)
    g = E.call(E.getattr(parser, 'receive_data'), [d])
    try:
        E.run_generator(g, lambda v: yields.append(v))
    except PyExc as e:
        E.cover('escaped')
        E.prove('decoder:no_exception_escapes_the_frame_generator[stream]', False)
        return
    # generator finished (guard false, or incomplete record)
    E.cover('finished')
    ctx = E.path.ghost['loops'][(RECV, 0)]
    c = I(ctx.ghost['c'])
    buf = lift_bytes(parser.attrs['_buffer'])
    rest = X0.len_term() - c
    E.prove('exit:buffer_is_unconsumed_rest', M.b_eq_goal(E, buf, M.b_slice(E, X0, mk_int(c), None), 'x'))
    E.prove('exit:rest_holds_no_complete_record', z3.Or(rest < 3, rest < 3 + L_at(X0, c)))
    E.prove('exit:nothing_decoded_or_yielded_from_the_rest',
            len(dec.calls) == ctx.ghost['ncalls'] and len(yields) == ctx.ghost['nyields'])


@harness('c04.lemma.step_prefix_stable', ['C04'], functions=[], kind='proof',
         desc='L-SPLIT step: if X holds a complete first record then X++Y has the same first record and rest(X)++Y')
def lemma_prefix(E):
    X = E.fresh_bytes('X')
    Y = E.fresh_bytes('Y')
    XY = M.b_concat(X, Y)
    zero = z3.IntVal(0)
    L = L_at(X, zero)
    E.assume(z3.And(X.len_term() >= 3, X.len_term() >= 3 + L))
    E.cover('lemma')
    E.prove('lemma:same_length_field', L_at(XY, zero) == L)
    E.prove('lemma:still_complete', XY.len_term() >= 3 + L)
    E.prove('lemma:same_record', M.b_eq_goal(E, M.b_slice(E, XY, 3, mk_int(3 + L)), M.b_slice(E, X, 3, mk_int(3 + L)), 'l1'))
    E.prove('lemma:rest_is_rest++Y', M.b_eq_goal(E, M.b_slice(E, XY, mk_int(3 + L), None),
                                                  M.b_concat(M.b_slice(E, X, mk_int(3 + L), None), Y), 'l2'))
    # and an incomplete X stays the whole buffer: rest(X) = X, so feeding Y later parses X++Y from its start (by definition)


def message_spec(E, d, dec, yields):
    """Message mode.  Ghost `decoded` = number of decode calls so far.  Invariant at the loop head:
         decoded = 0 and buffer = message and total = len(message)
      or decoded = 1 and buffer empty and total = 0 and len(message) > 0
    (a second visit of the loop head is only legitimate when it cannot decode again)."""
    dl = lift_bytes(d).len_term()

    def havoc(ctx):
        ctx.ghost['ncalls'] = len(dec.calls)
        ctx.ghost['nyields'] = len(yields)
        first = E.path.choice(2, 'loop-head-visit') == 0
        ctx.ghost['decoded'] = 0 if first else 1
        if first:
            ctx.self.attrs['_buffer'] = SByteArray(lift_bytes(d))
            ctx.set_local('total', mk_int(dl), *TOTAL)
        else:
            E.assume(dl > 0)
            ctx.self.attrs['_buffer'] = SByteArray(lift_bytes(b''))
            ctx.set_local('total', 0, *TOTAL)

    def inv(ctx):
        buf = lift_bytes(ctx.self.attrs['_buffer'])
        total = I(ctx.local('total', *TOTAL))
        if ctx.phase == 'entry':
            return [('buffer = message', M.b_eq_goal(E, buf, d, 'e')), ('total = len(message)', total == dl)]
        if ctx.phase == 'head':
            return []
        decoded = ctx.ghost['decoded'] + len(dec.calls) - ctx.ghost['ncalls']
        return [('back at the loop head only after exactly one decode, with nothing left, and unable to decode again',
                 z3.And(decoded == 1, buf.len_term() == 0, total == 0, dl > 0))]
    return LoopSpec(inv, lambda ctx: I(ctx.local('total', *TOTAL)), havoc=havoc, modifies=['total', 'self._buffer'])


@harness('c04.receive_data[message]', ['C04', 'C12', 'C01'], functions=[RECV], replay='c04_message',
         assumptions=['message transports call receive_data(message, 0) on a parser whose buffer is empty (established by __init__ and '
                      'by the post-condition of this contract)'])
def recv_message(E):
    d = E.input('data', E.fresh_bytes('d'))
    parser = new_obj(E, FP, _buffer=SByteArray(lift_bytes(b'')))
    dec = DecStub(E)
    E.stubs[POI] = dec
    yields = []
    E.loop_specs[(RECV, 0)] = message_spec(E, d, dec, yields)
    g = E.call(E.getattr(parser, 'receive_data'), [d, 0])
    try:
        E.run_generator(g, lambda v: yields.append(v))
    except PyExc as e:
        E.cover('escaped')
        E.prove('decoder:no_exception_escapes_the_frame_generator[message]', False)
        return
    E.cover('finished')
    ctx = E.path.ghost['loops'][(RECV, 0)]
    new_calls = dec.calls[ctx.ghost['ncalls']:]
    new_yields = yields[ctx.ghost['nyields']:]
    decoded = ctx.ghost['decoded'] + len(new_calls)
    E.prove('message:decoded_exactly_once', decoded == 1)
    E.prove('message:buffer_empty_afterwards', lift_bytes(parser.attrs['_buffer']).len_term() == 0)
    if len(new_calls) == 1:
        E.prove('message:decoder_given_exactly_the_message', M.b_eq_goal(E, new_calls[0][0], d, 'm'))
        kind = new_calls[0][1]
        E.prove('message:yields_exactly_what_the_message_decodes_to',
                (kind == 0 and len(new_yields) == 1 and isinstance(new_yields[0], SOpaque)) or
                (kind == 1 and len(new_yields) == 0) or
                (kind == 2 and len(new_yields) == 1 and isinstance(new_yields[0], SObj) and new_yields[0].cls.name == 'InvalidFrame'))
    else:
        E.prove('message:no_yield_without_decode', len(new_yields) == 0)


@harness('c04.parser.init', ['C04'], functions=[FP + '.__init__'])
def parser_init(E):
    p = E.call(E.lookup(FP), [])
    E.cover('init')
    E.prove('init:buffer_empty', isinstance(p.attrs['_buffer'], SByteArray) and lift_bytes(p.attrs['_buffer']).n == 0)


TCP = 'rsocket/transports/tcp.py::TransportTCP'


@harness('c04.tcp.next_frame_generator', ['C04', 'C11', 'C12'], functions=[TCP + '.next_frame_generator', TCP + '.__init__',
                                                                        'rsocket/transports/transport.py::Transport.__init__'],
         assumptions=['StreamReader.read(n) is abstract: returns some bytes (empty = EOF) or raises'])
def tcp_next(E):
    from pyvc import aio
    data = E.input('read', E.fresh_bytes('read'))
    reader, writer = SOpaque('reader', 'reader'), SOpaque('writer', 'writer')
    # StreamReader contract: read() returns some bytes (empty only at EOF); at_eof() may already be true while the last read
    # still returns data (the FIN arrived together with the last bytes)
    log = OpaqueLog(E, returns={'read': lambda *a: aio.Awaitable('ready', result=data),
                                'at_eof': lambda *a: E.fresh_bool('fin-already-arrived')}, may_raise=lambda o, m: m == 'read')
    tr = E.call(E.lookup(TCP), [reader, writer])
    parser = tr.attrs['_frame_parser']
    seen = []
    E.stubs[RECV] = lambda E_, f, a, k: (seen.append(a), SOpaque('generator', 'receive_data'))[1]
    try:
        r = E.await_value(E.call(E.getattr(tr, 'next_frame_generator'), []))
    except PyExc as e:
        E.cover('read-failed')
        E.prove('tcp:read_failure_becomes_RSocketTransportError',
                e.value.cls.issubclass(E.lookup('rsocket/exceptions.py::RSocketTransportError')))
        E.prove('tcp:fails_only_when_the_read_itself_failed[reader.read(buffer size) was called and raised]',
                any(x.startswith('opaque-raise:reader.read') and x.endswith(':1') for x in E.path.sig)
                and len(log.of(reader, 'read')) == 1 and log.of(reader, 'read')[0][2] == (1024,))
        return
    if r is None:
        E.cover('eof')
        E.prove('tcp:none_only_on_eof', data.len_term() == 0)
        E.prove('tcp:eof_closes_writer', [c[1] for c in log.of(writer)] == ['close'])
        E.prove('tcp:eof_feeds_nothing', len(seen) == 0)
        return
    E.cover('data')
    E.prove('tcp:data_is_fed_once_to_own_parser', len(seen) == 1 and seen[0][0] is parser and seen[0][1] is data and len(seen[0]) == 2)
    E.prove('tcp:not_eof', data.len_term() > 0)
    E.prove('tcp:writer_untouched', len(log.of(writer)) == 0)
    E.prove('tcp:read_called_once_with_buffer_size', len(log.of(reader, 'read')) == 1 and log.of(reader, 'read')[0][2] == (1024,))


AMT = 'rsocket/transports/abstract_messaging.py::AbstractMessagingTransport'


@harness('c04.messaging.next_frame_generator', ['C04', 'C12', 'C11', 'C01'], functions=[AMT + '.next_frame_generator'])
def msg_next(E):
    from pyvc import aio
    tr = new_obj(E, AMT)
    q = E.call(E.import_module('asyncio').getattr(E, 'Queue'), [])
    tr.attrs['_incoming_frame_queue'] = q
    kind = E.path.choice(3, 'item-kind')
    is_exc = kind == 1
    # what the websocket/quic listeners queue: a decoded frame, the InvalidFrame marker of an undecodable message (which is
    # NOT a Frame and must reach the receiver like any other item, never be raised), or a transport exception
    if kind == 0:
        item = E.call(E.lookup('rsocket/frame.py::PayloadFrame'), [])
    elif kind == 1:
        item = E.make_exc(E.lookup('rsocket/exceptions.py::RSocketTransportError'))
    else:
        item = E.call(E.lookup('rsocket/frame.py::InvalidFrame'), [])
    # what is queued behind it: another frame, or the transport failure that arrived in the same burst
    other_fails = E.path.choice(2, 'second-item-is-the-transport-failure') == 1
    other = E.make_exc(E.lookup('rsocket/exceptions.py::RSocketTransportError')) if other_fails else E.call(E.lookup('rsocket/frame.py::CancelFrame'), [])
    E.call(E.getattr(q, 'put_nowait'), [item])
    E.call(E.getattr(q, 'put_nowait'), [other])
    try:
        g = E.await_value(E.call(E.getattr(tr, 'next_frame_generator'), []))
    except PyExc as e:
        E.cover('exception-item')
        E.prove('msg:queued_exception_is_raised', is_exc and e.value is item)
        return
    E.cover('frame-item')
    out = []
    E.run_generator(g, lambda v: out.append(v))
    rest = list(q.attrs['_queue'])
    E.prove('msg:yields_the_queued_frame_first_and_only_frames[whether one generator hands over one frame or several is not prescribed]',
            (not is_exc) and len(out) >= 1 and out[0] is item and not any(isinstance(v, SObj) and v.cls.issubclass(EXC['BaseException']) for v in out))
    E.prove('msg:nothing_lost_duplicated_or_reordered[yielded ++ still queued = what was queued]',
            len(out) + len(rest) == 2 and all(a is b for a, b in zip(out + rest, [item, other])))
    if not rest:
        return
    # ... so that the NEXT call treats it like any first item: a queued transport failure is raised to the receiver (which
    # then runs the connection-lost clean-up), never handed over as if it were a frame
    try:
        g2 = E.await_value(E.call(E.getattr(tr, 'next_frame_generator'), []))
    except PyExc as e:
        E.prove('@C11,C04,C12:msg:a_transport_failure_queued_behind_a_frame_is_raised_by_the_next_call', other_fails and e.value is other)
        return
    out2 = []
    E.run_generator(g2, lambda v: out2.append(v))
    E.prove('@C11,C04,C12:msg:a_frame_queued_behind_a_frame_is_yielded_by_the_next_call', (not other_fails) and out2 == [other] or
            ((not other_fails) and len(out2) == 1 and out2[0] is other))


# --------------------------------------------------------------------------- chunk independence, directly (bounded, no loop contract)

def _chunked_history(nchunks, maxtotal):
    """BOUNDED stand-in that does not depend on the shape of the parser's loop: a parser made by the real __init__ is fed
    `nchunks` symbolic reads (total length <= maxtotal, so at most maxtotal//3 records); every loop is unrolled.  The
    clause is the property itself: what was handed to the decoder / yielded over all reads, and what is left in the
    parser, are exactly what the length-prefix splitter gives for the concatenation of the reads."""
    def run(E):
        parser = E.call(E.lookup(FP), [])
        chunks = [E.input('read[%d]' % i, E.fresh_bytes('d%d' % i, 0, maxtotal)) for i in range(nchunks)]
        total = sum((c.len_term() for c in chunks[1:]), chunks[0].len_term())
        E.assume(total <= maxtotal)
        dec = DecStub(E)
        E.stubs[POI] = dec
        yields = []
        E.unroll_limit = maxtotal + 2
        for c in chunks:
            g = E.call(E.getattr(parser, 'receive_data'), [c])
            try:
                E.run_generator(g, lambda v: yields.append(v))
            except PyExc as e:
                E.cover('escaped')
                E.prove('chunked:no_exception_escapes_the_frame_generator', False)
                return
        E.cover('all-reads-processed')
        X = chunks[0]
        for c in chunks[1:]:
            X = M.b_concat(X, c)
        # the splitter specification, unrolled
        recs = []
        pos = z3.IntVal(0)
        for _ in range(maxtotal // 3 + 1):
            rest = X.len_term() - pos
            if not E.decide(mk_bool(z3.And(rest >= 3, rest >= 3 + L_at(X, pos))), 'spec-record'):
                break
            L = L_at(X, pos)
            recs.append((pos + 3, pos + 3 + L))
            pos = pos + 3 + L
        P = E.prove
        P('chunked:one_decode_per_record_of_the_whole_stream[none lost, none duplicated]', len(dec.calls) == len(recs))
        if len(dec.calls) == len(recs):
            for i, ((a, b), (arg, kind)) in enumerate(zip(recs, dec.calls)):
                P('chunked:record_%d_is_exactly_the_delimited_bytes' % i, M.b_eq_goal(E, arg, M.b_slice(E, X, mk_int(a), mk_int(b)), 'r%d' % i))
            want = []
            for i, (arg, kind) in enumerate(dec.calls):
                if kind == 0:
                    want.append('frame:dec(record#%d)' % (i + 1))
                elif kind == 2:
                    want.append('invalid')
            got = [('frame:' + str(y.ident)) if isinstance(y, SOpaque) else ('invalid' if isinstance(y, SObj) and y.cls.name == 'InvalidFrame' else repr(y))
                   for y in yields]
            P('chunked:frames_come_out_in_order_undecodable_records_give_at_most_a_marker', got == want)
        P('chunked:the_unconsumed_rest_stays_buffered', M.b_eq_goal(E, lift_bytes(parser.attrs['_buffer']), M.b_slice(E, X, mk_int(pos), None), 'rest'))
    return run


from pyvc.harness import thorough as _thorough   # noqa: E402

for _n, _t in ((2, 8), (3, 7)) + (((3, 10), (4, 7)) if _thorough() else ()):
    harness('c04.chunked_history.bounded[reads=%d,bytes<=%d]' % (_n, _t), ['C04', 'C12'], kind='bounded', functions=[RECV, FP + '.__init__'],
            replay='c04_chunks', max_paths=400000, timeout_s=600,
            assumptions=['BOUNDED stand-in: %d reads with a total of at most %d bytes (symbolic content and split points), loops unrolled; '
                         'parse_or_ignore through its weakest contract' % (_n, _t)])(_chunked_history(_n, _t))


# --------------------------------------------------------------------------- message transports: one message in, its frames out, in order

QUART = 'rsocket/transports/quart_websocket.py::TransportQuartWebsocket'
WSS = 'rsocket/transports/websockets_transport.py::WebsocketsTransport'
AIOC = 'rsocket/transports/aiohttp_websocket.py::TransportAioHttpClient'
AIOS = 'rsocket/transports/aiohttp_websocket.py::TransportAioHttpWebsocket'


def _messaging(which):
    """BOUNDED in the number of messages (3) only: contents are opaque.  The websocket libraries are abstract: the socket is an
    object that hands out messages and accepts bytes.  Clauses (C04 / C01): every binary message is given to the parser
    whole, in message mode (prefix length 0), exactly once and in order; every frame the parser yields for it is queued for
    the receiver, in order, nothing dropped; send_frame hands exactly frame.serialize() to the socket."""
    from pyvc import aio

    def run(E):
        E.import_module('asyncio')
        cls = E.lookup({'quart': QUART, 'websockets': WSS, 'aiohttp-client': AIOC, 'aiohttp-server': AIOS}[which])
        fed, frames_out = [], []

        def recv(E_, f, a, k):
            hl = a[2] if len(a) > 2 else k.get('header_length', 3)
            n = E_.path.choice(3, 'frames-in-message')        # a message holds 0 (ignored/invalid-free), 1 or - malformed peers - more
            # what the parser yields are real objects: frames, or the InvalidFrame marker of an undecodable message (which has to
            # reach the receiver like everything else: the parser finishes with the message only when its generator is resumed)
            out = []
            for i in range(n):
                if len(fed) == 1 and i == 0 and E_.path.choice(2, 'second-message-is-undecodable') == 1:
                    out.append(E_.call(E_.lookup('rsocket/frame.py::InvalidFrame'), []))
                else:
                    fr_ = E_.call(E_.lookup('rsocket/frame.py::PayloadFrame'), [])
                    fr_.attrs['label'] = 'frame(%d,%d)' % (len(fed), i)
                    out.append(fr_)
            fed.append((a[1], hl))
            frames_out.extend(out)
            return list(out)
        E.stubs[RECV] = recv
        BIN = SOpaque('wsmsgtype', 'BINARY')
        TXT = SOpaque('wsmsgtype', 'TEXT')
        datas = [E.fresh_bytes('message%d' % i) for i in range(3)]
        sent = []
        E.suspend_hook = lambda E_, what: None
        if which == 'quart':
            t = E.call(cls, [])
            mod = E.module('rsocket.transports.quart_websocket')
            pending = list(datas)

            def receive(E_, o, m, a, k):
                if not pending:
                    E_.throw('CancelledError')
                return aio.Awaitable('ready', result=pending.pop(0))
            log = OpaqueLog(E, returns={'receive': receive, 'send': lambda E_, o, m, a, k: (sent.append(a[0]), aio.Awaitable('ready'))[1]})
            mod.globals['websocket'] = SOpaque('websocket', 'quart-websocket')
            E.await_value(E.call(E.getattr(t, 'handle_incoming_ws_messages'), []))
            binary = datas
        elif which == 'websockets':
            t = E.call(cls, [])
            log = OpaqueLog(E)
            E.await_value(E.call(E.getattr(t, 'consumer_handler'), [list(datas)]))
            binary = datas
        else:
            kinds = [BIN if E.path.choice(2, 'message%d-binary' % i) == 0 else TXT for i in range(3)]
            msgs = [SOpaque('wsmsg', 'msg%d' % i, attrs={'type': kinds[i], 'data': datas[i]}) for i in range(3)]
            mod = E.module('rsocket.transports.aiohttp_websocket')
            mod.globals['aiohttp'] = SOpaque('module', 'aiohttp', attrs={'WSMsgType': SOpaque('enum', 'WSMsgType', attrs={'BINARY': BIN, 'TEXT': TXT})})
            log = OpaqueLog(E, returns={'send_bytes': lambda E_, o, m, a, k: (sent.append(a[0]), aio.Awaitable('ready'))[1]})
            ws = SOpaque('websocket', 'aiohttp-websocket')
            # the client-side listener owns its failure handling: the socket may break after any number of messages
            breaks_after = [None, 0, 2][E.path.choice(3, 'socket-breaks')] if which == 'aiohttp-client' else None
            broke = E.make_exc('OSError', 'websocket broke')

            def deliver(E_):
                for i, m_ in enumerate(msgs):
                    if breaks_after is not None and i == breaks_after:
                        raise PyExc(broke)
                    yield m_
            ws._pyvc_iter = deliver
            if which == 'aiohttp-client':
                t = E.call(cls, [None, ws])
                t.attrs['_connection_ready'].attrs['flag'] = True
            else:
                t = E.call(cls, [ws])
            E.await_value(E.call(E.getattr(t, 'handle_incoming_ws_messages'), []))
            binary = [d for d, kd in list(zip(datas, kinds))[:breaks_after] if kd is BIN]
            if breaks_after is not None:
                E.cover('socket-broke')
                q = t.attrs['_incoming_frame_queue'].attrs['_queue']
                E.prove('messaging:a_broken_socket_is_reported_to_the_receiver_as_one_transport_error_after_the_frames_already_parsed',
                        len(q) == len(frames_out) + 1 and all(a is b for a, b in zip(q, frames_out)) and isinstance(q[-1], SObj)
                        and q[-1].cls.issubclass(E.lookup('rsocket/exceptions.py::RSocketTransportError')))
                E.prove('messaging:every_binary_message_before_the_break_parsed_whole_once_in_order',
                        len(fed) == len(binary) and all(f[0] is b and f[1] == 0 for f, b in zip(fed, binary)))
                return
        E.cover('messages-processed')
        P = E.prove
        ms = t.attrs['_incoming_frame_queue'].attrs['maxsize']
        P('messaging:the_incoming_queue_never_refuses_a_frame[put_nowait cannot fail for any backlog: the queue is unbounded]',
          isinstance(ms, int) and ms <= 0)
        P('messaging:every_binary_message_parsed_whole_once_in_order_in_message_mode',
          len(fed) == len(binary) and all(f[0] is b and f[1] == 0 for f, b in zip(fed, binary)))
        q = t.attrs['_incoming_frame_queue'].attrs['_queue']
        P('messaging:every_parsed_frame_queued_for_the_receiver_in_order', len(q) == len(frames_out) and all(a is b for a, b in zip(q, frames_out)))
        if which == 'websockets':
            # send side: send_frame queues, producer_handler writes every queued frame once, in order, as its serialisation
            frs = [SOpaque('frame', 'outgoing%d' % i, attrs={}) for i in range(2)]
            wires = {fr.ident: SOpaque('bytes', 'serialized%d' % i) for i, fr in enumerate(frs)}
            log.returns['serialize'] = lambda E_, o, m, a, k: wires[o.ident]
            log.returns['send'] = lambda E_, o, m, a, k: (sent.append(a[0]), aio.Awaitable('ready'))[1]
            for fr in frs:
                E.await_value(E.call(E.getattr(t, 'send_frame'), [fr]))
            P('messaging:send_frame_queues_without_writing', not sent)

            def park(E_, what):
                E_.throw('CancelledError')          # the producer is parked on its empty queue: its handler cancels it
            E.suspend_hook = park
            E.unroll_limit = 4
            wsock = SOpaque('websocket', 'websockets-socket')
            try:
                E.await_value(E.call(E.getattr(t, 'producer_handler'), [wsock]))
                P('messaging:producer_serves_until_cancelled', False)
            except PyExc as e:
                P('messaging:producer_serves_until_cancelled', e.value.cls.name == 'CancelledError')
            P('messaging:every_queued_frame_written_once_in_order_as_its_serialisation',
              len(sent) == 2 and sent[0] is wires[frs[0].ident] and sent[1] is wires[frs[1].ident])
        if which != 'websockets':
            fr = SOpaque('frame', 'outgoing', attrs={})
            wire = SOpaque('bytes', 'serialized')
            log.returns['serialize'] = lambda *a: wire
            E.await_value(E.call(E.getattr(t, 'send_frame'), [fr]))
            P('messaging:send_frame_writes_exactly_the_serialized_frame_as_one_message', len(sent) == 1 and sent[0] is wire)
    return run


for _w in ('quart', 'websockets', 'aiohttp-client', 'aiohttp-server'):
    harness('c04.messaging.%s' % _w, ['C04', 'C01'], functions=[{'quart': QUART + '.handle_incoming_ws_messages', 'websockets': WSS + '.consumer_handler',
                                                              'aiohttp-client': AIOC + '.handle_incoming_ws_messages',
                                                              'aiohttp-server': AIOS + '.handle_incoming_ws_messages'}[_w],
                                                             AMT + '.__init__'],
            assumptions=['the websocket library objects (quart.websocket, aiohttp / websockets sockets) are abstract: they hand out whole '
                         'messages in order and accept bytes; three messages per run (contents opaque, types symbolic)',
                         'FrameParser.receive_data is used through its contract (c04.receive_data[message])'])(_messaging(_w))
