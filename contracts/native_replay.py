"""Native (CPython, real classes) oracles used to replay counter-models.  No z3 imports here.

Each function takes the concretised inputs of the failed obligation and returns None when the real code
satisfies the clause on that input (and on a small neighbourhood searched around it), or a dict describing the
concrete failing input and what was observed.
"""
import itertools


# --------------------------------------------------------------------------- C13

def _first_free(cur, table, M, parity_of):
    mod = M + 1
    x = cur
    for _ in range(mod // 2 + 1):
        x = (x + 2) % mod
        if x != 0 and x not in table:
            return x
    return None


def _check_alloc(cur, table, M):
    from rsocket.stream_control import StreamControl
    from rsocket.exceptions import RSocketStreamAllocationFailure
    sc = StreamControl(1)
    sc._maximum_stream_id = M
    sc._current_stream_id = cur
    sc._streams = {k: object() for k in table}
    exp = _first_free(cur, set(table), M, cur % 2)
    try:
        r = sc.allocate_stream()
    except RSocketStreamAllocationFailure:
        r = 'fail'
    except Exception as ex:
        return dict(cur=cur, table=sorted(table), M=M, observed='unexpected %r' % ex, expected=exp)
    if exp is None and r != 'fail':
        return dict(cur=cur, table=sorted(table), M=M, observed=r, expected='RSocketStreamAllocationFailure')
    if exp is not None and r != exp:
        return dict(cur=cur, table=sorted(table), M=M, observed=r, expected=exp)
    if set(sc._streams) != set(table):
        return dict(cur=cur, table=sorted(table), M=M, observed='table changed')
    return None


def c13_allocate(inputs, doc):
    import re
    m = re.search(r'M=(0x[0-9a-f]+)', doc['harness'])
    M = int(m.group(1), 16)
    cur = inputs.get('current_stream_id', 0) or 0
    table = inputs.get('streams', {})
    keys = [int(k) for k, v in (table.get('entries', {}) if isinstance(table, dict) else {}).items() if v]
    bad = _check_alloc(cur, keys, M)
    if bad:
        return bad
    # bounded neighbourhood search: every state of the small id spaces, states near the model for the big one
    if M <= 15:
        ids = list(range(1, M + 1))
        for cur2 in range(0, M + 1):
            for r in range(0, len(ids) + 1):
                for tb in itertools.combinations(ids, r):
                    bad = _check_alloc(cur2, tb, M)
                    if bad:
                        return bad
    else:
        for cur2 in {cur, 0, 1, 2, M, M - 1, M - 2}:
            for tb in ([], [1], [2], [1, 3], [2, 4], [M], [M - 1], [1, 3, 5], [M, 1], [M - 1, 2]):
                bad = _check_alloc(cur2 % (M + 1), tb, M)
                if bad:
                    return bad
    return None


def c13_ops(inputs, doc):
    from rsocket.stream_control import StreamControl
    from rsocket.exceptions import RSocketStreamIdInUse
    from rsocket.error_codes import ErrorCode
    s = inputs.get('stream_id', 0)
    for table in ([], [s], [s, s + 2], [s + 2]):
        sc = StreamControl(1)
        sc._streams = {k: ('h', k) for k in table}
        before = dict(sc._streams)
        name = doc['harness']
        if 'finish' in name:
            sc.finish_stream(s)
            if set(sc._streams) != set(before) - {s}:
                return dict(op='finish', stream_id=s, table=table, observed=sorted(sc._streams))
        elif 'register' in name:
            try:
                sc.register_stream(s, 'new')
                ok = True
            except RuntimeError:
                ok = False
            should = s != 0 and s <= 0x7FFFFFFF
            if ok != should or (ok and (sc._streams.get(s) != 'new' or set(sc._streams) != set(before) | {s})):
                return dict(op='register', stream_id=s, table=table, accepted=ok, observed=sorted(sc._streams))
        elif 'assert' in name:
            try:
                sc.assert_stream_id_available(s)
                raised = None
            except Exception as ex:
                raised = ex
            if (s in before) != (raised is not None):
                return dict(op='assert_available', stream_id=s, table=table, raised=repr(raised))
            if raised is not None and not (isinstance(raised, RSocketStreamIdInUse) and raised.error_code == ErrorCode.REJECTED):
                return dict(op='assert_available', stream_id=s, table=table, raised=repr(raised))
    return None


# --------------------------------------------------------------------------- C02 (native wire-format oracle)

_T = dict(SetupFrame=1, LeaseFrame=2, KeepAliveFrame=3, RequestResponseFrame=4, RequestFireAndForgetFrame=5,
          RequestStreamFrame=6, RequestChannelFrame=7, RequestNFrame=8, CancelFrame=9, PayloadFrame=10, ErrorFrame=11,
          MetadataPushFrame=12, ResumeFrame=13, ResumeOKFrame=14)


def _be(x, k):
    return int(x).to_bytes(k, 'big')


def _md(m):
    m = m or b''
    return (_be(len(m), 3) + m) if m else b''


def native_enc(name, f):
    t = _T[name]
    md, d = f.get('metadata') or b'', f.get('data') or b''
    s = f.get('stream_id', 0)

    def hdr(b7=False, b6=False, b5=False, has_md=None):
        hm = bool(md) if has_md is None else has_md
        fl = (0x200 if f.get('flags_ignore') else 0) | (0x100 if hm else 0) | (0x80 if b7 else 0) | (0x40 if b6 else 0) | (0x20 if b5 else 0)
        return _be(s, 4) + _be((t << 10) | fl, 2)
    if t == 1:
        body = _be(f['major_version'], 2) + _be(f['minor_version'], 2) + _be(f['keep_alive_milliseconds'], 4) + _be(f['max_lifetime_milliseconds'], 4)
        if f.get('flags_resume'):
            tok = f['resume_identification_token']
            body += _be(len(tok), 2) + tok
        body += _be(len(f['metadata_encoding']), 1) + f['metadata_encoding'] + _be(len(f['data_encoding']), 1) + f['data_encoding']
        return hdr(b7=f.get('flags_resume'), b6=f.get('flags_lease')) + body + _md(md) + d
    if t == 2:
        return hdr() + _be(f['time_to_live'], 4) + _be(f['number_of_requests'], 4) + md
    if t == 3:
        return hdr(b7=f.get('flags_respond'), has_md=False) + _be(f['last_received_position'], 8) + d
    if t in (4, 5):
        return hdr(b7=f.get('flags_follows')) + _md(md) + d
    if t == 6:
        return hdr(b7=f.get('flags_follows')) + _be(f['initial_request_n'], 4) + _md(md) + d
    if t == 7:
        return hdr(b7=f.get('flags_follows'), b6=f.get('flags_complete')) + _be(f['initial_request_n'], 4) + _md(md) + d
    if t == 8:
        return hdr(has_md=False) + _be(f['request_n'], 4)
    if t == 9:
        return hdr(has_md=False)
    if t == 10:
        return hdr(b7=f.get('flags_follows'), b6=f.get('flags_complete'), b5=bool(f.get('flags_next')) or bool(md) or bool(d)) + _md(md) + d
    if t == 11:
        return hdr(has_md=False) + _be(f['error_code'], 4) + d
    if t == 12:
        return hdr() + md
    if t == 13:
        tok = f['resume_identification_token']
        return hdr(has_md=False) + _be(f['major_version'], 2) + _be(f['minor_version'], 2) + _be(len(tok), 2) + tok + \
            _be(f['last_server_position'], 8) + _be(f['first_client_position'], 8)
    if t == 14:
        return hdr(has_md=False) + _be(f['last_received_client_position'], 8)


def _force_backend(backend):
    import sys
    if backend == 'native':
        sys.modules['cbitstruct'] = None
    for m in [m for m in sys.modules if m == 'rsocket' or m.startswith('rsocket.')]:
        del sys.modules[m]


def c02_roundtrip(inputs, doc):
    import re
    m = re.match(r'c02\.(\w+)\.(\w+)\[md=([\w-]+),data=([\w-]+)\]@(\w+)', doc['harness'])
    kind, cname, mdk, dk, backend = m.groups()
    _force_backend(backend)
    import rsocket.frame as F
    from rsocket.error_codes import ErrorCode
    f = dict(inputs)
    if isinstance(f.get('error_code'), dict):
        f['error_code'] = ErrorCode(f['error_code']['value'])
    if mdk == 'none':
        f['metadata'] = None
    if dk == 'none':
        f['data'] = None
    if 'resume_identification_token' in f:
        f['token_length'] = len(f['resume_identification_token'])
        if cname == 'SetupFrame':
            f['flags_resume'] = True
    elif cname == 'SetupFrame':
        f['flags_resume'] = False

    def build():
        fr = getattr(F, cname)()
        for k, v in f.items():
            setattr(fr, k, v)
        return fr
    exp = native_enc(cname, f)
    problems = []
    try:
        out = build().serialize()
        if out != exp:
            problems.append(dict(clause='encode', observed=out.hex(), expected=exp.hex()))
        fr = build()
        fr.serialize()
        if fr.length != len(exp):
            problems.append(dict(clause='length', observed=fr.length, expected=len(exp)))
        g = F.parse_or_ignore(exp)
        if g is None or type(g).__name__ != cname:
            problems.append(dict(clause='decode type', observed=repr(g)))
        else:
            for k, v in f.items():
                if k in ('token_length',) and not f.get('flags_resume', True):
                    continue
                got = getattr(g, k, None)
                want = v
                if k in ('data', 'metadata'):
                    got, want = got or b'', want or b''
                if k == 'flags_next':
                    want = bool(v) or bool(f.get('data')) or bool(f.get('metadata'))
                if isinstance(want, bool):
                    got = bool(got)
                if got != want:
                    problems.append(dict(clause='decode ' + k, observed=repr(got), expected=repr(want)))
            re_ = g.serialize()
            if re_ != exp:
                problems.append(dict(clause='reencode', observed=re_.hex(), expected=exp.hex()))
        if len(exp) < (1 << 24):
            fr = build()
            chunks = [bytes(F.serialize_prefix_with_frame_size_header(fr))]
            fr.write_data_metadata(lambda b: chunks.append(bytes(b)))
            full = _be(len(exp), 3) + exp
            if b''.join(chunks) != full:
                problems.append(dict(clause='partial', observed=b''.join(chunks).hex(), expected=full.hex()))
            if F.serialize_with_frame_size_header(build()) != full:
                problems.append(dict(clause='oneshot', observed=F.serialize_with_frame_size_header(build()).hex(), expected=full.hex()))
    except Exception as ex:
        problems.append(dict(clause='exception', observed=repr(ex)))
    if problems:
        return dict(frame=cname, backend=backend, fields={k: (v.hex() if isinstance(v, bytes) else repr(v)) for k, v in f.items()},
                    problems=problems[:4])
    return None


# --------------------------------------------------------------------------- C04

def _drive(agen, cap=2000):
    """Collect an async generator without an event loop (receive_data has no awaits)."""
    out = []
    it = agen.__aiter__()
    while True:
        co = it.__anext__()
        try:
            co.send(None)
        except StopIteration as s:
            out.append(s.value)
            if len(out) >= cap:
                return out, False
            continue
        except StopAsyncIteration:
            return out, True
        raise RuntimeError('receive_data suspended')


def _split_spec(x):
    recs = []
    while len(x) >= 3:
        L = int.from_bytes(x[:3], 'big')
        if len(x) < 3 + L:
            break
        recs.append(bytes(x[3:3 + L]))
        x = x[3 + L:]
    return recs, bytes(x)


def _expected_outputs(recs):
    import rsocket.frame as F
    out = []
    for r in recs:
        try:
            fr = F.parse_or_ignore(r)
            if fr is not None:
                out.append(type(fr).__name__)
        except Exception:
            out.append('InvalidFrame')
    return out


def _check_stream(buffer, data):
    from rsocket.frame_parser import FrameParser
    p = FrameParser()
    p._buffer = bytearray(buffer)
    frames, done = _drive(p.receive_data(data))
    recs, rest = _split_spec(bytes(buffer) + bytes(data))
    exp = _expected_outputs(recs)
    got = [type(f).__name__ for f in frames]
    if not done or got != exp or bytes(p._buffer) != rest:
        return dict(buffer=bytes(buffer).hex(), data=bytes(data).hex(), terminated=done, observed=got[:10], expected=exp[:10],
                    rest_observed=bytes(p._buffer).hex()[:80], rest_expected=rest.hex()[:80])
    return None


def c04_stream(inputs, doc):
    import random
    b, d = inputs.get('buffer', b''), inputs.get('data', b'')
    bad = _check_stream(b, d)
    if bad:
        return bad
    # neighbourhood: every 2-way chunking (as buffer/data) of short frame sequences, valid and malformed
    from rsocket.frame_builders import to_payload_frame, to_cancel_frame, to_request_n_frame
    from rsocket.frame import serialize_with_frame_size_header
    from rsocket.payload import Payload
    seqs = []
    f1 = serialize_with_frame_size_header(to_payload_frame(1, Payload(b'abc', b'm'), complete=True))
    f2 = serialize_with_frame_size_header(to_cancel_frame(3))
    f3 = serialize_with_frame_size_header(to_request_n_frame(5, 7))
    junk = b'\x00\x00\x02\xff\xff'
    empty = b'\x00\x00\x00'
    for seq in ([f1], [f1, f2], [f2, f3, f1], [junk, f2], [f1, empty, f3], [junk, junk], [f3, f3, f3]):
        s = b''.join(seq)
        for cut in range(len(s) + 1):
            bad = _check_stream(s[:cut], s[cut:])
            if bad:
                return bad
            # three-way: feed first part, then the rest
            from rsocket.frame_parser import FrameParser
            p = FrameParser()
            got = []
            ok = True
            for chunk in (s[:cut // 2], s[cut // 2:cut], s[cut:]):
                fr, done = _drive(p.receive_data(chunk))
                ok = ok and done
                got += [type(f).__name__ for f in fr]
            recs, rest = _split_spec(s)
            if not ok or got != _expected_outputs(recs) or bytes(p._buffer) != rest:
                return dict(stream=s.hex(), chunks=[cut // 2, cut], observed=got, expected=_expected_outputs(recs))
    return None


def _check_chunks(chunks):
    from rsocket.frame_parser import FrameParser
    p = FrameParser()
    got, ok = [], True
    for c in chunks:
        fr, done = _drive(p.receive_data(bytes(c)))
        ok = ok and done
        got += [type(f).__name__ for f in fr]
    recs, rest = _split_spec(b''.join(bytes(c) for c in chunks))
    exp = _expected_outputs(recs)
    if not ok or got != exp or bytes(p._buffer) != rest:
        return dict(reads=[bytes(c).hex() for c in chunks], observed=got, expected=exp, rest_observed=bytes(p._buffer).hex()[:80],
                    rest_expected=rest.hex()[:80], terminated=ok)
    return None


def c04_chunks(inputs, doc):
    """Feed the reads of the counter-model (and every 2- and 3-way chunking of short valid/malformed streams) to a REAL parser
    made by its own __init__ and compare with the splitter applied to the concatenation."""
    import itertools
    reads = [inputs[k] for k in sorted(inputs) if k.startswith('read[')]
    if reads:
        bad = _check_chunks(reads)
        if bad:
            return bad
    from rsocket.frame_builders import to_cancel_frame, to_request_n_frame
    from rsocket.frame import serialize_with_frame_size_header
    ok1 = serialize_with_frame_size_header(to_cancel_frame(3))
    ok2 = serialize_with_frame_size_header(to_request_n_frame(5, 7))
    junk = b'\x00\x00\x02\xff\xff'
    empty = b'\x00\x00\x00'
    for seq in ([junk, ok1], [ok1, junk, ok2], [empty, ok1], [junk, junk, ok1], [ok1, ok2], [junk, ok1, ok2]):
        s = b''.join(seq)
        for a, b in itertools.combinations(range(len(s) + 1), 2):
            bad = _check_chunks([s[:a], s[a:b], s[b:]])
            if bad:
                return bad
        bad = _check_chunks([s[i:i + 1] for i in range(len(s))])
        if bad:
            return bad
    return None


def c04_message(inputs, doc):
    from rsocket.frame_parser import FrameParser
    cands = [inputs.get('data', b''), b'', b'\x00']
    from rsocket.frame_builders import to_cancel_frame
    cands.append(to_cancel_frame(3).serialize())
    for d in cands:
        p = FrameParser()
        frames, done = _drive(p.receive_data(d, 0), cap=1000)
        exp = _expected_outputs([bytes(d)])
        got = [type(f).__name__ for f in frames]
        if not done or got != exp or len(p._buffer) != 0:
            return dict(message=bytes(d).hex(), terminated=done, yielded=len(frames), observed=got[:5], expected=exp,
                        buffer_left=len(p._buffer))
    return None


# --------------------------------------------------------------------------- C03

def _frag_clauses(data, md, fs, hdr, lh, strict_size):
    """Run the real fragmenter; return a problem description or None.  strict_size=False accepts the documented
    +3 overshoot of metadata-bearing fragments (open known finding)."""
    from rsocket.frame_fragmenter import data_to_fragments_if_required
    frags = list(data_to_fragments_if_required(data, md, hdr, fs, lh))
    dv, mv = data or b'', md or b''
    if not frags:
        return 'no fragment'
    B1 = fs - hdr - (3 if lh else 0)
    Bn = fs - 6 - (3 if lh else 0)
    mcat = b''.join(f.metadata or b'' for f in frags)
    dcat = b''.join(f.data or b'' for f in frags)
    if mcat != mv or dcat != dv:
        return 'concatenation differs'
    seen_data = False
    for i, f in enumerate(frags):
        lm, ld = len(f.metadata or b''), len(f.data or b'')
        if bool(f.is_first) != (i == 0):
            return 'is_first wrong at %d' % i
        if (f.is_last is None or bool(f.is_last)) != (i == len(frags) - 1):
            return 'is_last wrong at %d' % i
        if seen_data and lm:
            return 'metadata after data at %d' % i
        if ld and sum(len(g.metadata or b'') for g in frags[:i + 1]) != len(mv):
            return 'data before all metadata at %d' % i
        seen_data = seen_data or ld > 0
        if lm + ld > (B1 if i == 0 else Bn):
            return 'body over budget at %d: %d' % (i, lm + ld)
        wire = (hdr if i == 0 else 6) + ((3 + lm) if lm else 0) + ld + (3 if lh else 0)
        limit = fs if (strict_size or not lm) else fs + 3
        if wire > limit:
            return 'fragment %d is %d bytes on the wire (limit %d)' % (i, wire, fs)
        if lm + ld == 0 and (mv or dv):
            return 'empty fragment at %d' % i
    if len(mv) + len(dv) <= B1 and len(frags) != 1:
        return 'fits but %d fragments' % len(frags)
    return None


def c03_fragmenter(inputs, doc):
    import re
    m = re.search(r'hdr=(\d+),length_header=(\w+),md=(\w+),data=(\w+)', doc['harness'])
    hdr, lh, mdk, dk = int(m.group(1)), m.group(2) == 'True', m.group(3), m.group(4)
    strict = 'wire_size[' in doc['obligation']
    fs0 = inputs.get('fragment_size', 64)
    d0 = inputs.get('data') if dk != 'none' else None
    m0 = inputs.get('metadata') if mdk != 'none' else None
    cands = [(d0, m0, fs0)]
    for fs in sorted({fs0, 64, 65, 70}):
        if fs > 4096:
            continue
        B1 = fs - hdr - (3 if lh else 0)
        Bn = fs - 6 - (3 if lh else 0)
        lens = sorted({0, 1, 2, 3, B1 - 4, B1 - 3, B1 - 2, B1 - 1, B1, B1 + 1, B1 + 2, B1 + Bn - 3, B1 + Bn - 1, B1 + Bn, B1 + Bn + 1,
                       B1 + 2 * Bn, B1 + 2 * Bn + 1})
        for ml in ([0] if mdk == 'none' else lens):
            for dl in ([0] if dk == 'none' else lens):
                if ml < 0 or dl < 0:
                    continue
                cands.append((None if dk == 'none' else bytes(range(256)) * 2 and bytes((i * 7) % 256 for i in range(dl)),
                              None if mdk == 'none' else bytes((i * 11 + 3) % 256 for i in range(ml)), fs))
    for d, mm, fs in cands:
        if fs is None or fs < 64 or fs > 100000:
            continue
        try:
            bad = _frag_clauses(d, mm, fs, hdr, lh, strict)
        except Exception as ex:
            bad = 'exception %r' % ex
        if bad:
            return dict(data_len=len(d or b''), metadata_len=len(mm or b''), fragment_size=fs, header=hdr, length_header=lh, problem=bad)
    return None


def c03_get_next_fragment(inputs, doc):
    """Drive the REAL get_next_fragment of a real frame until exhausted and measure every fragment on the wire.
    (metadata-bearing fragments are allowed the 3 bytes of the open known finding; data-only ones are not)"""
    import re
    import rsocket.frame as F
    cname = re.search(r'\[(\w+)\]', doc['harness']).group(1)
    d0, m0 = inputs.get('data'), inputs.get('metadata')
    fs0 = inputs.get('fs')
    lh0 = inputs.get('requires_length_header', True)
    hdr = 10 if cname in ('RequestStreamFrame', 'RequestChannelFrame') else 6
    cands = []
    if isinstance(fs0, int) and 64 <= fs0 <= 100000 and len(d0 or b'') < 10 ** 6 and len(m0 or b'') < 10 ** 6:
        cands.append((d0, m0, fs0, bool(lh0)))
    for fs in (64, 65, 70):
        for lh in (True, False):
            B1 = fs - hdr - (3 if lh else 0)
            for dl in range(max(0, B1 - 6), B1 + 8):
                cands.append((bytes((i * 7) % 256 for i in range(dl)), None, fs, lh))
                cands.append((bytes((i * 7) % 256 for i in range(max(0, dl - 10))), bytes(range(7)), fs, lh))
    for d, m, fs, lh in cands:
        fr = getattr(F, cname)()
        fr.stream_id = 5
        fr.data, fr.metadata = d, m
        fr.fragment_size_bytes = fs
        if hdr == 10:
            fr.initial_request_n = 3
        out = []
        for _ in range(10000):
            x = fr.get_next_fragment(lh)
            if x is None:
                break
            out.append(x)
        for i, x in enumerate(out):
            n = len(x.serialize()) + (3 if lh else 0)
            allowed = fs + (3 if x.metadata else 0)
            if n > allowed:
                return dict(frame=cname, data_len=len(d or b''), metadata_len=len(m or b''), fragment_size=fs, length_header=lh,
                            fragment_index=i, fragments=len(out), wire_length=n, problem='fragment longer on the wire than the configured size')
        if b''.join((x.data or b'') for x in out) != (d or b'') or b''.join((x.metadata or b'') for x in out) != (m or b''):
            return dict(frame=cname, data_len=len(d or b''), metadata_len=len(m or b''), fragment_size=fs, length_header=lh,
                        problem='fragments do not concatenate to the payload')
    return None


def c03_cache(inputs, doc):
    """End-to-end: fragment a real frame of every fragmentable type with the real code and reassemble it with the real cache."""
    import rsocket.frame as F
    from rsocket.frame_fragment_cache import FrameFragmentCache
    sizes = [(0, 0), (1, 0), (0, 1), (10, 100), (100, 10), (200, 200), (55, 0), (0, 58), (52, 3)]
    for cname in ('PayloadFrame', 'RequestResponseFrame', 'RequestFireAndForgetFrame', 'RequestStreamFrame', 'RequestChannelFrame'):
        for ml, dl in sizes:
            for complete in (False, True):
                for fs in (None, 64, 70):
                    fr = getattr(F, cname)()
                    fr.stream_id = 7
                    fr.metadata = bytes((i * 3) % 256 for i in range(ml))
                    fr.data = bytes((i * 5 + 1) % 256 for i in range(dl))
                    fr.flags_complete = complete
                    fr.fragment_size_bytes = fs
                    if hasattr(fr, 'initial_request_n') or cname in ('RequestStreamFrame', 'RequestChannelFrame'):
                        fr.initial_request_n = 9
                    cache = FrameFragmentCache()
                    cache._frames_by_stream_id[9] = 'other'
                    out = None
                    n = 0
                    while True:
                        g = fr.get_next_fragment(True)
                        if g is None:
                            break
                        n += 1
                        wire = F.parse_or_ignore(g.serialize())
                        res = cache.append(wire)
                        if g.flags_follows:
                            if res is not None:
                                return dict(frame=cname, problem='frame returned before the last fragment')
                        else:
                            out = res
                    prob = None
                    if out is None:
                        prob = 'nothing reassembled'
                    elif type(out).__name__ != cname:
                        prob = 'class %s' % type(out).__name__
                    elif (out.metadata or b'') != fr.metadata or (out.data or b'') != fr.data:
                        prob = 'content differs'
                    elif cname in ('PayloadFrame', 'RequestChannelFrame') and bool(out.flags_complete) != complete:
                        prob = 'complete flag %r, original %r' % (out.flags_complete, complete)
                    elif cname in ('RequestStreamFrame', 'RequestChannelFrame') and out.initial_request_n != 9:
                        prob = 'initial_request_n %r' % out.initial_request_n
                    elif set(cache._frames_by_stream_id) != {9}:
                        prob = 'cache entries left: %r' % sorted(cache._frames_by_stream_id)
                    if prob:
                        return dict(frame=cname, metadata_len=ml, data_len=dl, complete=complete, fragment_size=fs, fragments=n, problem=prob)
    return None


# --------------------------------------------------------------------------- C14 / C16

def c14_to_ms(inputs, doc):
    from datetime import timedelta
    from rsocket.datetime_helpers import to_milliseconds
    for us in [inputs.get('microseconds', 0), 500000, 1500000, 5000000, 1, 499, 500, 501, 1000, 999999, 2500000, 60 * 10**6 + 250000]:
        if us is None or us < 0 or us > 10**15:
            continue
        r = to_milliseconds(timedelta(microseconds=us))
        if abs(r * 1000 - us) > 500 or (us % 1000 == 0 and r * 1000 != us):
            return dict(period_us=us, observed_ms=r, expected_ms=round(us / 1000))
    return None


class _Clock:
    """Patch datetime.now() inside rsocket.lease with a virtual clock."""

    def __init__(self, t):
        import datetime as dt
        self.t = t
        outer = self

        class FakeDT(dt.datetime):
            @classmethod
            def now(cls, tz=None):
                return dt.datetime(2020, 1, 1) + dt.timedelta(microseconds=outer.t)
        self.cls = FakeDT

    def install(self):
        import rsocket.lease as L
        L.datetime = self.cls


def c14_lease(inputs, doc):
    from datetime import timedelta
    import rsocket.lease as L
    cases = [(inputs.get('granted', 1), inputs.get('ttl_us', 1000), inputs.get('counter', 0),
              (inputs.get('now', 0) or 0) - (inputs.get('created', 0) or 0))]
    cases += [(1, 1000, 0, 0), (1, 1000, 0, 999), (1, 1000, 0, 1000), (2, 1500000, 0, 1750000), (3, 10**6, 2, 0), (3, 10**6, 3, 0),
              (0, 10**6, 0, 0), (5, 0, 0, 0)]
    for granted, ttl, counter, elapsed in cases:
        if None in (granted, ttl, counter, elapsed) or elapsed < 0 or ttl < 0 or ttl > 10**15 or elapsed > 10**15:
            continue
        clk = _Clock(0)
        clk.install()
        lease = L.DefinedLease(granted, timedelta(microseconds=ttl))
        lease._request_counter = counter
        clk.t = elapsed
        got = lease.is_request_allowed(1)
        want = (elapsed < ttl) and (counter + 1 <= granted)
        if bool(got) != want:
            return dict(granted=granted, ttl_us=ttl, used=counter, elapsed_us=elapsed, observed=got, expected=want)
    return None


def c14_handle_lease(inputs, doc):
    """Real RSocketBase.handle_lease on a server-side socket object built without a transport."""
    import asyncio
    from rsocket.rsocket_server import RSocketServer
    from rsocket.frame import LeaseFrame
    from rsocket.frame_builders import to_request_response_frame
    from rsocket.payload import Payload
    from rsocket.queue_peekable import QueuePeekable
    from rsocket.lease import DefinedLease

    async def run(n, ttl, queued):
        s = RSocketServer.__new__(RSocketServer)
        s._honor_lease = True
        s._send_queue = QueuePeekable()
        s._request_queue = asyncio.Queue()
        s._requester_lease = DefinedLease(5)
        frames = [to_request_response_frame(2 * i + 1, Payload(b'x')) for i in range(queued)]
        for f in frames:
            s._request_queue.put_nowait(f)
        lf = LeaseFrame()
        lf.number_of_requests = n
        lf.time_to_live = ttl
        await s.handle_lease(lf)
        sent = list(s._send_queue._queue)
        left = list(s._request_queue._queue)
        exp = min(queued, n) if ttl > 0 else 0
        if sent != frames[:exp] or left != frames[exp:] or s._requester_lease.maximum_request_count != n:
            return dict(number_of_requests=n, ttl_ms=ttl, queued=queued, sent=len(sent), expected_sent=exp,
                        lease_count=s._requester_lease.maximum_request_count)
        return None
    cases = [(inputs.get('number_of_requests', 0), inputs.get('time_to_live_ms', 1000), min(inputs.get('queued_requests', 0) or 0, 50))]
    cases += [(0, 1000, 3), (2, 1000, 3), (3, 1000, 3), (5, 1000, 3), (5, 0, 3), (1, 3000, 0)]
    for n, ttl, q in cases:
        if None in (n, ttl, q):
            continue
        bad = asyncio.run(run(n, ttl, q))
        if bad:
            return bad
    return None


# --------------------------------------------------------------------------- C05

def _wire_order(frames, fragment_size=64, late=None):
    """Drive the REAL sender step (_get_next_frame_to_send) over a queue of real frames; returns the wire log.
    late = (k, frame): `frame` is queued by another coroutine while the sender is inside its k-th write."""
    import asyncio
    from rsocket.rsocket_server import RSocketServer
    from rsocket.queue_peekable import QueuePeekable

    class T:
        def requires_length_header(self):
            return True

    async def run():
        s = RSocketServer.__new__(RSocketServer)
        s._send_queue = QueuePeekable()
        for f in frames:
            s._send_queue.put_nowait(f)
        wire = []
        for n in range(200):
            if s._send_queue.empty():
                break
            async with s._get_next_frame_to_send(T()) as fr:
                wire.append(fr)
                if late is not None and late[0] == n:
                    s._send_queue.put_nowait(late[1])       # queued during the (suspended) transport write
        return wire
    return asyncio.run(run())


def c05_emit(inputs, doc):
    import itertools
    from rsocket.frame_builders import to_payload_frame, to_cancel_frame, to_request_n_frame
    from rsocket.frame import ErrorFrame
    from rsocket.payload import Payload

    def mk(kind, sid, tag):
        if kind == 'big':
            f = to_payload_frame(sid, Payload(bytes([tag]) * 150), fragment_size_bytes=64)
        elif kind == 'small':
            f = to_payload_frame(sid, Payload(bytes([tag]) * 5), fragment_size_bytes=64)
        elif kind == 'bigreq':
            import rsocket.frame as F_
            f = F_.RequestStreamFrame()
            f.stream_id = sid
            f.data = bytes([tag]) * 150
            f.initial_request_n = 5
            f.fragment_size_bytes = 64
        elif kind == 'cancel':
            f = to_cancel_frame(sid)
        else:
            f = ErrorFrame()
            f.stream_id = sid
            f.error_code = 0x201
            f.data = b'e'
        pass
        return f
    kinds = ['big', 'small', 'cancel', 'error', 'bigreq']
    cases = []
    for n in (2, 3):
        for combo in itertools.product([(k, s) for k in kinds for s in (2, 4)], repeat=n):
            cases.append((combo, None))
    # a frame queued by another coroutine while the sender is suspended in its k-th transport write
    for n in (1, 2):
        for combo in itertools.product([(k, s) for k in kinds for s in (2, 4)], repeat=n):
            for lk in kinds:
                for when in (0, 1):
                    cases.append((combo + ((lk, 2),), when))
    for combo, when in cases:
        if True:
            frames = [mk(k, s, i + 1) for i, (k, s) in enumerate(combo)]
            if when is None:
                wire = _wire_order(frames)
            else:
                wire = _wire_order(frames[:-1], late=(when, frames[-1]))
            # per stream: sources must appear in queue order and the fragments of one source contiguously
            for sid in (2, 4):
                srcs = [i for i, (k, s) in enumerate(combo) if s == sid]
                seen = []
                for fr in wire:
                    if fr.stream_id != sid:
                        continue
                    # identify source by first byte of data for payloads, else by type
                    ident = None
                    for i in srcs:
                        k = combo[i][0]
                        if k in ('big', 'small', 'bigreq') and type(fr).__name__ in ('PayloadFrame', 'RequestStreamFrame') and (fr.data or b'')[:1] == bytes([i + 1]):
                            ident = i
                        if k == 'cancel' and type(fr).__name__ == 'CancelFrame' and i not in seen:
                            ident = i if ident is None else ident
                        if k == 'error' and type(fr).__name__ == 'ErrorFrame' and i not in seen:
                            ident = i if ident is None else ident
                    if ident is None:
                        continue
                    if not seen or seen[-1] != ident:
                        seen.append(ident)
                if seen != [i for i in srcs if i in seen] or len(seen) != len(set(seen)):
                    return dict(queue=[('%s(stream %d)' % c) for c in combo],
                                last_frame_queued_during_write_number=when,
                                wire=['%s(stream %d%s)' % (type(f).__name__, f.stream_id, ', follows' if getattr(f, 'flags_follows', False) else '')
                                      for f in wire], stream=sid, source_order_on_wire=seen)
    return None


def c14_history(inputs, doc):
    """Drive a REAL endpoint through send_request / handle_lease (public operations only) and compare with the lease rules."""
    import asyncio
    import re
    from datetime import timedelta
    import rsocket.frame as F
    from rsocket.rsocket_client import RSocketClient
    m = re.search(r'requests=(\d+),queue_size=(\d+)', doc['harness'])
    ks = [int(m.group(1))] if m else [1, 2, 4]
    sizes = [int(m.group(2))] if m else [0, 1, 3]
    classes = [F.RequestResponseFrame, F.RequestStreamFrame, F.RequestChannelFrame, F.RequestFireAndForgetFrame]

    async def scenario(k, qsize, granted, ttl_ms):
        c = RSocketClient.__new__(RSocketClient)
        c._honor_lease = True
        c._request_queue_size = qsize
        c._fragment_size_bytes = None
        c._reset_internals()
        wire = []
        c.send_frame = lambda f: wire.append(f)
        reqs, accepted = [], []
        for i in range(k):
            f = classes[i % 4]()
            f.stream_id = 2 * i + 1
            reqs.append(f)
            try:
                c.send_request(f)
                accepted.append(f)
            except asyncio.QueueFull:
                pass
        if wire:
            return 'a request was sent before the first LEASE'
        want = reqs[:qsize] if qsize > 0 else reqs
        if [id(x) for x in accepted] != [id(x) for x in want]:
            return 'accepted requests %r, expected the first %d' % ([x.stream_id for x in accepted], len(want))
        lf = F.LeaseFrame()
        lf.number_of_requests = granted
        lf.time_to_live = ttl_ms
        await c.handle_lease(lf)
        exp = accepted[:min(granted, len(accepted))]
        if [id(x) for x in wire] != [id(x) for x in exp]:
            return 'after LEASE(%d): streams on the wire %r, expected %r' % (granted, [x.stream_id for x in wire], [x.stream_id for x in exp])
        return None
    for k in ks:
        for qsize in sizes:
            for granted in (0, 1, 2, 3, 5, 100):
                bad = asyncio.run(scenario(k, qsize, granted, 60000))
                if bad:
                    return dict(requests_before_first_lease=k, request_queue_size=qsize, granted=granted, problem=bad)
    return None


def c12_parse_total(inputs, doc):
    """parse_or_ignore on the counter-model's bytes (and hostile neighbours of it) under the back end of the harness:
    returns a frame / None or raises an Exception; an accepted KEEPALIVE can be serialised again (the echo does that)."""
    backend = 'cbitstruct' if doc['harness'].endswith('@cbitstruct') else 'native'
    _force_backend(backend)
    import importlib
    import rsocket.frame_helpers
    import rsocket.frame
    importlib.reload(rsocket.frame_helpers)
    F = importlib.reload(rsocket.frame)
    buf = inputs.get('buffer', b'')
    cands = [bytes(buf)]
    # KEEPALIVE frames with every reserved / boundary position
    for pos in (0, 1, 2 ** 63 - 1, 2 ** 63, 2 ** 64 - 1):
        for flags in (0x00, 0x80):
            cands.append(b'\x00\x00\x00\x00' + bytes([0x0C, flags]) + pos.to_bytes(8, 'big') + b'xy')
    for b in cands:
        try:
            g = F.parse_or_ignore(b)
        except Exception:
            continue
        except BaseException as e:
            return dict(buffer=b.hex(), backend=backend, problem='parse_or_ignore raised a BaseException: %r' % e)
        if g is not None and type(g).__name__ == 'KeepAliveFrame':
            try:
                g.serialize()
            except Exception as e:
                return dict(buffer=b.hex(), backend=backend, last_received_position=g.last_received_position,
                            problem='an accepted KEEPALIVE cannot be serialised again (%s: %s): the echo kills the sender' % (type(e).__name__, e))
    return None


# --------------------------------------------------------------------------- C18: extension codecs against a native wire oracle

def _b(v, default=b''):
    return bytes(v) if isinstance(v, (bytes, bytearray)) else default


def _tag_cases(inputs):
    given = [_b(inputs[k]) for k in sorted(inputs) if k.startswith('tag') and isinstance(inputs[k], (bytes, bytearray))]
    cases = [given] if given else []
    x = _b(inputs.get('tag'), None) if 'tag' in inputs else None
    if x is not None:
        cases += [[x], [b'a', x], [x, b'']]
    cases += [[], [b''], [b'route.path', b''], [b'', b''], [b'', b'a'], [b'a'], [b'a', b'bc', b'def'], [b'x' * 255], [b'x' * 256],
              [b'ok', b'y' * 256], [b'\x00'], [b'\x01\x02', b'\x00']]
    return cases


def c18_tags(inputs, doc):
    from rsocket.exceptions import RSocketError
    from rsocket.extensions.routing import RoutingMetadata
    for tags in _tag_cases(inputs):
        want = b''.join(bytes([len(t)]) + t for t in tags) if all(len(t) <= 255 for t in tags) else None
        item = RoutingMetadata(list(tags))
        try:
            got = bytes(item.serialize())
        except RSocketError:
            if want is not None:
                return dict(tags=[t.hex() for t in tags], observed='rejected', expected=want.hex())
            continue
        except Exception as e:
            return dict(tags=[t.hex() for t in tags], observed=repr(e), expected='bytes or RSocketError')
        if want is None:
            return dict(tags=[t.hex()[:40] for t in tags], observed='encoded %d bytes' % len(got), expected='rejected (tag longer than 255)')
        if got != want:
            return dict(tags=[t.hex() for t in tags], observed=got.hex(), expected=want.hex())
        back = RoutingMetadata()
        back.parse(want)
        if [bytes(t) for t in back.tags] != list(tags):
            return dict(clause='decode(encode(tags)) == tags', tags=[t.hex() for t in tags], decoded=[bytes(t).hex() for t in back.tags])
        again = bytes(back.serialize())
        if again != want:
            return dict(clause='encode(decode(bytes)) == bytes', wire=want.hex(), observed=again.hex())
        # an item that encoded or decoded something before encodes its CURRENT tags
        item.tags = [b'other'] + list(tags[:1])
        want2 = b''.join(bytes([len(t)]) + t for t in item.tags)
        if bytes(item.serialize()) != want2:
            return dict(clause='encoding follows the current tags', tags=[t.hex() for t in item.tags], expected=want2.hex())
    return None


def _names(inputs):
    out = [_b(inputs[k]) for k in ('custom', 'custom2') if isinstance(inputs.get(k), (bytes, bytearray))]
    out += [b'a', b'x' * 2, b'application/x.custom', b'n' * 127, b'n' * 128, b'n' * 129, b'n' * 200]
    return [n for n in out if len(n) >= 1]


def c18_mime_header(inputs, doc):
    from rsocket.exceptions import RSocketError
    from rsocket.extensions.mimetypes import WellKnownMimeTypes
    from rsocket.helpers import serialize_well_known_encoding, parse_well_known_encoding
    members = [m for m in WellKnownMimeTypes if 0 <= m.value.id <= 127]       # the two negative ids are in-memory sentinels
    known = {bytes(m.value.name): m.value.id for m in members}
    if len(set(known.values())) != len(members) or len(known) != len(members):
        return dict(clause='ids and names map one-to-one', names=len(known), ids=len(set(known.values())))
    for name, wid in known.items():
        got = bytes(serialize_well_known_encoding(name, WellKnownMimeTypes.get_by_name))
        if got != bytes([0x80 | wid]):
            return dict(name=name.decode(), observed=got.hex(), expected=bytes([0x80 | wid]).hex())
        back, off = parse_well_known_encoding(got + b'rest', WellKnownMimeTypes.require_by_id)
        if bytes(back) != name or off != 1:
            return dict(clause='well-known id decodes to its name', wire=got.hex(), observed=[bytes(back).decode('latin1'), off])
    for name in _names(inputs):
        if name in known:
            continue
        want = bytes([len(name) - 1]) + name if len(name) <= 128 else None
        try:
            got = bytes(serialize_well_known_encoding(name, WellKnownMimeTypes.get_by_name))
        except RSocketError:
            if want is not None:
                return dict(name=name.hex(), observed='rejected', expected=want.hex())
            continue
        except Exception as e:
            return dict(name=name.hex()[:60], observed=repr(e), expected='bytes or RSocketError')
        if want is None:
            return dict(name_length=len(name), observed=got[:8].hex() + '...', expected='rejected (name longer than 128)')
        if got != want:
            return dict(name=name.hex(), observed=got.hex(), expected=want.hex())
        back, off = parse_well_known_encoding(want + b'rest', WellKnownMimeTypes.require_by_id)
        if bytes(back) != name or off != len(want):
            return dict(clause='custom header round trip', wire=want.hex(), observed=[bytes(back).hex(), off])
    return None


def c18_auth(inputs, doc):
    from rsocket.extensions.authentication import AuthenticationSimple, AuthenticationBearer
    from rsocket.extensions.authentication_content import AuthenticationContent
    cases = []
    if isinstance(inputs.get('username'), (bytes, bytearray)) or isinstance(inputs.get('password'), (bytes, bytearray)):
        cases.append((_b(inputs.get('username')), _b(inputs.get('password'))))
    cases += [(b'', b''), (b'u', b''), (b'', b'p'), (b'user', b'pass'), (b'u' * 255, b'p'), (b'u' * 256, b'p'), (b'u' * 65535, b'pw')]
    for user, pw in cases:
        if len(user) > 65535:
            continue
        want = len(user).to_bytes(2, 'big') + user + pw
        a = AuthenticationSimple(user, pw)
        got = bytes(a.serialize())
        if got != want:
            return dict(username=user.hex()[:60], password=pw.hex()[:60], observed=got[:40].hex(), expected=want[:40].hex())
        b = AuthenticationSimple()
        b.parse(want)
        if bytes(b.username) != user or bytes(b.password) != pw:
            return dict(clause='simple round trip', username_length=len(user), observed=[len(b.username), len(b.password)])
        full = bytes(AuthenticationContent(a).serialize())
        if full != b'\x80' + want:
            return dict(clause='content header 0x80', observed=full[:40].hex(), expected=(b'\x80' + want)[:40].hex())
        c = AuthenticationContent()
        c.parse(b'\x80' + want)
        if type(c.authentication).__name__ != 'AuthenticationSimple' or bytes(c.authentication.username) != user \
                or bytes(c.authentication.password) != pw or bytes(c.serialize()) != b'\x80' + want:
            return dict(clause='content decodes to simple and re-encodes to the same bytes', username_length=len(user))
    toks = ([_b(inputs['token'])] if isinstance(inputs.get('token'), (bytes, bytearray)) else []) + [b'', b't', b'token' * 50]
    for tok in toks:
        a = AuthenticationBearer(tok)
        if bytes(a.serialize()) != tok:
            return dict(token=tok.hex()[:60], observed=bytes(a.serialize()).hex()[:60])
        full = bytes(AuthenticationContent(a).serialize())
        if full != b'\x81' + tok:
            return dict(clause='content header 0x81', observed=full[:40].hex())
        c = AuthenticationContent()
        c.parse(b'\x81' + tok)
        if type(c.authentication).__name__ != 'AuthenticationBearer' or bytes(c.authentication.token) != tok \
                or bytes(c.serialize()) != b'\x81' + tok:
            return dict(clause='content decodes to bearer and re-encodes to the same bytes', token=tok.hex()[:60])
    return None


def c18_composite(inputs, doc):
    from rsocket.extensions.composite_metadata import CompositeMetadata
    from rsocket.extensions.helpers import composite, metadata_item, route
    from rsocket.extensions.mimetypes import WellKnownMimeTypes
    names = [n for n in _names(inputs) if len(n) <= 128][:4]
    bodies = [(_b(inputs.get('body1')), _b(inputs.get('body2'))), (b'', b''), (b'abc', b'{}'), (b'\x00' * 300, b'z')]
    for name in names:
        for b1, b2 in bodies:
            for tag in (b'', b'r', b'route.to.somewhere'):
                encs = [bytes([len(name) - 1]) + name + len(b1).to_bytes(3, 'big') + b1,
                        b'\x85' + len(b2).to_bytes(3, 'big') + b2,
                        b'\xfe' + (1 + len(tag)).to_bytes(3, 'big') + bytes([len(tag)]) + tag]
                for k in range(4):
                    items = [metadata_item(b1, name), metadata_item(b2, WellKnownMimeTypes.APPLICATION_JSON), route(tag)][:k]
                    want = b''.join(encs[:k])
                    got = bytes(composite(*items))
                    if got != want:
                        return dict(entries=k, name=name.hex(), observed=got[:80].hex(), expected=want[:80].hex())
                    cm = CompositeMetadata()
                    cm.parse(want)
                    if len(cm.items) != k:
                        return dict(clause='decode yields one item per entry', entries=k, decoded=len(cm.items), wire=want[:80].hex())
                    again = bytes(cm.serialize())
                    if again != want:
                        return dict(clause='encode(decode(bytes)) == bytes', wire=want[:80].hex(), observed=again[:80].hex())
    return None


# --------------------------------------------------------------------------- C06: lost wake-up of the library's stream sources

def c06_source_wakeup(inputs, doc):
    """Real StreamFromGenerator / StreamFromAsyncGenerator over an endless generator: grants at chosen event-loop ticks; after the
    loop has gone quiet every granted element must have been delivered (and never more than granted)."""
    import asyncio
    import itertools
    from rsocket.payload import Payload
    from rsocket.streams.stream_from_generator import StreamFromGenerator
    from rsocket.streams.stream_from_async_generator import StreamFromAsyncGenerator
    from reactivestreams.subscriber import DefaultSubscriber

    def sync_gen():
        for i in itertools.count():
            yield Payload(b'%d' % i), False

    async def async_gen():
        for i in itertools.count():
            yield Payload(b'%d' % i), False

    class Sub(DefaultSubscriber):
        def __init__(self):
            super().__init__()
            self.got = []

        def on_next(self, value, is_complete=False):
            self.got.append(value)

    async def scenario(cls, factory, first, ticks, second):
        src = cls(factory)
        sub = Sub()
        src.subscribe(sub)
        src.request(first)
        for _ in range(ticks):
            await asyncio.sleep(0)
        src.request(second)
        for _ in range(60):
            await asyncio.sleep(0)
        n = len(sub.got)
        src.cancel()
        await asyncio.sleep(0)
        return n
    for cls, factory in ((StreamFromGenerator, sync_gen), (StreamFromAsyncGenerator, async_gen)):
        for first in (1, 2, 3):
            for second in (1, 2, 4):
                for ticks in range(0, 7):
                    got = asyncio.run(scenario(cls, factory, first, ticks, second))
                    if got != first + second:
                        return dict(source=cls.__name__, first_grant=first, loop_ticks_before_second_grant=ticks, second_grant=second,
                                    delivered=got, expected=first + second)
    return None
