"""Seeded-change bookkeeping (self-test of the machinery; never part of a registered check).

  python3-vt -m pyvc.seeded confirm <dir> [...]   confirm a candidate change in a scratch git worktree of /repo:
        demo passes on the pristine tree, fails with the patch, and the stable baseline tests still pass with the patch
        (suite run inside a private network namespace).  Writes <dir>/confirm.json.
  python3-vt -m pyvc.seeded run [<id> ...]        apply each kept change under /verif/seeded/<id>/ to a scratch copy of
        /repo's sources (never to /repo), run the quick check of the property it breaks (and with --all every property)
        and record which obligations fail.  Writes /verif/seeded/RESULTS.json and prints the table for DESIGN.md 8.7.
  python3-vt -m pyvc.seeded harmless [<id> ...]   apply each behaviour-preserving change under /verif/harmless/<id>/ to a scratch
        copy and run ALL twenty quick checks: none may report a violation.  Writes /verif/harmless/RESULTS.json.
"""
import json
import os
import re
import shutil
import subprocess
import sys
import tempfile
import time
from concurrent.futures import ThreadPoolExecutor

ROOT = os.path.dirname(os.path.dirname(os.path.abspath(__file__)))
SEEDED = os.path.join(ROOT, 'seeded')
PY = '/venv/bin/python'
ALL = ['C%02d' % i for i in range(1, 21)]


def sh(cmd, **kw):
    return subprocess.run(cmd, capture_output=True, text=True, **kw)


def confirm(d):
    d = os.path.abspath(d)
    patch = os.path.join(d, 'patch.diff')
    demo = os.path.join(d, 'demo.py')
    wt = tempfile.mkdtemp(prefix='seedwt_')
    os.rmdir(wt)
    out = dict(dir=d, ran=[])
    try:
        r = sh(['git', '-C', '/repo', 'worktree', 'add', '-q', '--detach', wt, 'HEAD'])
        if r.returncode != 0:
            out['error'] = 'worktree: ' + r.stderr
            return out
        env = dict(os.environ, PYTHONPATH=wt, PYTHONDONTWRITEBYTECODE='1')

        def run_demo():
            try:
                r = subprocess.run(['unshare', '-n', 'sh', '-c', 'ip link set lo up; exec %s %s' % (PY, demo)], cwd=wt, env=env,
                                   capture_output=True, text=True, timeout=300)
                return r.returncode, (r.stdout + r.stderr)[-600:]
            except subprocess.TimeoutExpired:
                return 'timeout', ''
        rc0, t0 = run_demo()
        out['demo_pristine'] = rc0
        out['ran'].append('demo.py on pristine HEAD: exit %s' % rc0)
        r = sh(['git', '-C', wt, 'apply', patch])
        if r.returncode != 0:
            out['error'] = 'patch does not apply: ' + r.stderr
            return out
        rc1, t1 = run_demo()
        out['demo_patched'] = rc1
        out['demo_patched_tail'] = t1
        out['ran'].append('demo.py with patch: exit %s' % rc1)
        xml = os.path.join(d, 'suite.xml')
        t = time.time()
        r = sh(['unshare', '-n', 'sh', '-c',
                'ip link set lo up; exec %s -m pytest -q -p no:cacheprovider --timeout=900 --continue-on-collection-errors --junitxml=%s'
                % (PY, xml)], cwd=wt, env=env)
        c = sh(['python3', os.path.join(ROOT, 'pyvc', 'baseline_cmp.py'), xml])
        out['suite'] = c.stdout.strip().splitlines()
        out['suite_wall_s'] = round(time.time() - t)
        bad = [l.strip() for l in out['suite'][1:]]
        # timing-sensitive tests (quart/aiohttp fixtures race the server start) fail at random under load, also on the pristine
        # tree: re-run exactly the failing stable tests, alone, up to three rounds; a test counts as passing if it passes once
        import xml.etree.ElementTree as ET
        rounds = 0
        while bad and rounds < 3:
            rounds += 1
            ids = []
            for l in bad:
                name = l.split(None, 1)[1]
                cls, _, test = name.partition('::')
                ids.append('/'.join(cls.split('.')) + '.py::' + test)
            xml2 = os.path.join(d, 'suite_rerun.xml')
            subprocess.run(['unshare', '-n', 'sh', '-c', 'ip link set lo up; exec "$@"', 'sh', PY, '-m', 'pytest', '-q', '-p', 'no:cacheprovider',
                            '--timeout=900', '--junitxml=' + xml2] + ids, cwd=wt, env=env, capture_output=True, text=True)
            res = {}
            try:
                for tc in ET.parse(xml2).iter('testcase'):
                    res['%s::%s' % (tc.get('classname'), tc.get('name'))] = not any(ch.tag in ('failure', 'error', 'skipped') for ch in tc)
            except Exception:
                pass
            if os.path.exists(xml2):
                os.unlink(xml2)
            bad = [l for l in bad if not res.get(l.split(None, 1)[1], False)]
        out['suite_rerun_rounds'] = rounds
        out['suite_rerun_still_failing'] = bad
        if os.path.exists(xml):
            os.unlink(xml)
        out['suite_ok'] = not bad
        out['ran'].append('stable baseline with patch: %s%s' % (out['suite'][0] if out['suite'] else '?',
                                                                  '' if not out.get('suite_rerun_still_failing') is None and not bad else ''))
        out['confirmed'] = (rc0 == 0 and rc1 not in (0, 'timeout') and out['suite_ok'])
        if rc0 == 0 and rc1 == 'timeout':
            out['confirmed'] = out['suite_ok']      # a hang is a failing demonstration too
        return out
    finally:
        sh(['git', '-C', '/repo', 'worktree', 'remove', '--force', wt])
        shutil.rmtree(wt, ignore_errors=True)
        json.dump(out, open(os.path.join(d, 'confirm.json'), 'w'), indent=1)


def scratch_with_patch(patch):
    d = tempfile.mkdtemp(prefix='pyvc_seed_')
    for sub in ('rsocket', 'reactivestreams'):
        shutil.copytree(os.path.join('/repo', sub), os.path.join(d, sub), ignore=shutil.ignore_patterns('__pycache__'))
    r = sh(['patch', '-p1', '-s', '-i', os.path.abspath(patch)], cwd=d)
    if r.returncode != 0:
        shutil.rmtree(d, ignore_errors=True)
        raise RuntimeError('patch failed: ' + r.stdout + r.stderr)
    return d


def run_one(sid, props=None, tier='quick'):
    d = os.path.join(SEEDED, sid)
    meta = json.load(open(os.path.join(d, 'meta.json')))
    props = props or [meta['property']]
    scratch = scratch_with_patch(os.path.join(d, 'patch.diff'))
    res = {}
    try:
        for p in props:
            r = sh([sys.executable, '-m', 'pyvc.check', p, '--no-evidence', '--tier', tier], cwd=ROOT,
                   env=dict(os.environ, PYVC_REPO=scratch, PYVC_JOBS=os.environ.get('PYVC_SEED_JOBS', '8')))
            vio = [l for l in r.stdout.splitlines() if l.startswith('VIOLATION')]
            und = [l for l in r.stdout.splitlines() if l.startswith(('UNDECIDED', 'CHECKER-ERROR'))]
            res[p] = dict(exit=r.returncode,
                          obligations=sorted({re.sub(r'^.*obligation=', '', v).replace(' no-failing-input-found', '') for v in vio})[:12],
                          replayed=sum(1 for v in vio if 'no-failing-input-found' not in v), violations=len(vio),
                          undecided=[u[:300] for u in und[:4]])
    finally:
        shutil.rmtree(scratch, ignore_errors=True)
    return sid, meta, res


def main(argv):
    if argv and argv[0] == 'confirm':
        with ThreadPoolExecutor(int(os.environ.get('SEED_JOBS', '4'))) as ex:
            for out in ex.map(confirm, argv[1:]):
                print(json.dumps({k: out.get(k) for k in ('dir', 'demo_pristine', 'demo_patched', 'suite_ok', 'confirmed', 'error',
                                                           'suite_rerun_still_failing')}))
        return 0
    if argv and argv[0] == 'run':
        args = [a for a in argv[1:] if not a.startswith('--')]
        every = '--all' in argv
        ids = args or sorted(x for x in os.listdir(SEEDED) if os.path.isdir(os.path.join(SEEDED, x)))
        results = {}
        with ThreadPoolExecutor(int(os.environ.get('SEED_JOBS', '3'))) as ex:
            for sid, meta, res in ex.map(lambda i: run_one(i, ALL if every else None), ids):
                results[sid] = dict(property=meta['property'], title=meta.get('title'), checks=res)
                own = res[meta['property']]
                others = [p for p, r in res.items() if p != meta['property'] and r['exit'] == 1]
                print('%-12s %-4s exit=%s violations=%d replayed=%d %s%s' % (
                    sid, meta['property'], own['exit'], own['violations'], own['replayed'],
                    (own['obligations'][0][:110] if own['obligations'] else (own['undecided'][:1] or '')),
                    (' | also red: ' + ','.join(others)) if others else ''))
        path = os.path.join(SEEDED, 'RESULTS.json')
        old = {}
        if os.path.exists(path) and args:
            old = json.load(open(path))
        old.update(results)
        json.dump(old, open(path, 'w'), indent=1, sort_keys=True)
        missed = [s for s, r in results.items() if r['checks'][r['property']]['exit'] != 1]
        print('caught %d / %d' % (len(results) - len(missed), len(results)), 'missed:', missed)
        return 0
    if argv and argv[0] == 'harmless':
        # behaviour-preserving refactorings (sub-agents, /verif/harmless/<id>/patch.diff): no check may print a VIOLATION
        hdir = os.path.join(ROOT, 'harmless')
        args = [a for a in argv[1:] if not a.startswith('--')]
        ids = args or sorted(x for x in os.listdir(hdir) if os.path.isdir(os.path.join(hdir, x)))

        def one(hid):
            scratch = scratch_with_patch(os.path.join(hdir, hid, 'patch.diff'))
            res = {}
            try:
                for p in ALL:
                    r = sh([sys.executable, '-m', 'pyvc.check', p, '--no-evidence'], cwd=ROOT,
                           env=dict(os.environ, PYVC_REPO=scratch, PYVC_JOBS=os.environ.get('PYVC_SEED_JOBS', '5')))
                    if r.returncode != 0:
                        res[p] = dict(exit=r.returncode, first=[l[:300] for l in r.stdout.splitlines() if l.startswith(('VIOLATION', 'UNDECIDED', 'CHECKER'))][:2])
            finally:
                shutil.rmtree(scratch, ignore_errors=True)
            return hid, res
        results = {}
        with ThreadPoolExecutor(int(os.environ.get('SEED_JOBS', '3'))) as ex:
            for hid, res in ex.map(one, ids):
                results[hid] = res
                print('%-8s %s' % (hid, ' '.join('%s=%d' % (p, r['exit']) for p, r in sorted(res.items())) or 'all 20 checks exit 0'), flush=True)
        path = os.path.join(hdir, 'RESULTS.json')
        old = json.load(open(path)) if os.path.exists(path) and args else {}
        old.update(results)
        json.dump(old, open(path, 'w'), indent=1, sort_keys=True)
        alarms = sorted(h for h, r in results.items() if any(v['exit'] == 1 for v in r.values()))
        und = sorted(h for h, r in results.items() if r and h not in alarms)
        print('%d harmless changes: %d without any non-zero exit, %d undecided somewhere %s, %d FALSE ALARMS %s'
              % (len(results), len(results) - len(alarms) - len(und), len(und), und, len(alarms), alarms))
        return 0
    print(__doc__)
    return 2


if __name__ == '__main__':
    sys.exit(main(sys.argv[1:]))
