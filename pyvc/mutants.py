"""Mutation analysis of the contracts (self-test of the machinery: how sensitive are the obligations?).

Generates first-order AST mutants of the functions whose bodies the harnesses actually execute, writes each mutant to
a scratch copy of the sources (never to /repo) and runs the harnesses that execute the mutated function.  A mutant is
*killed* when some obligation is refuted (what a check would report as VIOLATION), *noticed* when a harness ends
undecided / with a checker error, *survived* otherwise.  Survivors are either equivalent mutants or holes in the
contracts; they are the work list for strengthening contracts (DESIGN 8.8).

  python3-vt -m pyvc.mutants index                         build the harness -> executed-functions index (runs every harness once)
  python3-vt -m pyvc.mutants run [--files re] [--funcs re] [--max N] [--out file] [--jobs N]
  python3-vt -m pyvc.mutants canaries [--props C03,C05] [--n N]   re-run a sample of mutants recorded as killed (thorough tier)
"""
import argparse
import subprocess
import ast
import copy
import hashlib
import json
import multiprocessing as mp
import os
import random
import re
import shutil
import sys
import tempfile
import time

ROOT = os.path.dirname(os.path.dirname(os.path.abspath(__file__)))
REPO = os.environ.get('PYVC_REPO', '/repo')
INDEX = os.path.join(ROOT, 'mutation', 'index.json')

CMP_SWAP = {ast.Lt: ast.LtE, ast.LtE: ast.Lt, ast.Gt: ast.GtE, ast.GtE: ast.Gt, ast.Eq: ast.NotEq, ast.NotEq: ast.Eq,
            ast.Is: ast.IsNot, ast.IsNot: ast.Is, ast.In: ast.NotIn, ast.NotIn: ast.In}
BIN_SWAP = {ast.Add: ast.Sub, ast.Sub: ast.Add, ast.BitOr: ast.BitAnd, ast.BitAnd: ast.BitOr, ast.Mult: ast.FloorDiv,
            ast.LShift: ast.RShift, ast.RShift: ast.LShift}


def _is_docstring(parent, node):
    return isinstance(node, ast.Expr) and isinstance(node.value, ast.Constant) and isinstance(node.value.value, str)


def _is_log_call(node):
    """logger().x(...) / log_frame(...) statements are dropped by the extraction: mutating them is pointless."""
    if isinstance(node, ast.Expr) and isinstance(node.value, ast.Call):
        t = ast.unparse(node.value.func)
        return t.startswith('logger()') or t.startswith('log_frame') or t.startswith('logging.')
    return False


def function_nodes(tree):
    """qualname (as the engine builds it, without the file prefix) -> node, for functions and methods incl. nested ones."""
    out = {}

    def walk(node, prefix, in_func):
        for ch in ast.iter_child_nodes(node):
            if isinstance(ch, (ast.FunctionDef, ast.AsyncFunctionDef)):
                q = prefix + ch.name
                out[q] = ch
                walk(ch, q + '.<locals>.', True)
            elif isinstance(ch, ast.ClassDef):
                walk(ch, prefix + ch.name + '.', in_func)
            else:
                walk(ch, prefix, in_func)
    walk(tree, '', False)
    return out


def mutation_sites(fn):
    """Yield (site_id, description, mutate(node_copy_root) ) for one function node; site ids are stable under
    unrelated edits of other functions: (operator kind, ordinal of that kind within the function)."""
    counters = {}
    sites = []

    def add(kind, desc, path, fn_apply):
        n = counters.get(kind, 0)
        counters[kind] = n + 1
        sites.append(('%s#%d' % (kind, n), desc, path, fn_apply))

    def visit(node, path):
        for field, value in ast.iter_fields(node):
            if isinstance(value, list):
                for i, ch in enumerate(value):
                    if isinstance(ch, ast.AST):
                        handle(ch, path + [(field, i)], node, field, i)
            elif isinstance(value, ast.AST):
                handle(value, path + [(field, None)], node, field, None)

    def handle(ch, path, parent, field, idx):
        if isinstance(ch, (ast.FunctionDef, ast.AsyncFunctionDef, ast.ClassDef, ast.Lambda)) and path:
            # nested functions are mutated under their own qualname
            if not isinstance(ch, ast.Lambda):
                return
        if field in ('annotation', 'returns', 'decorator_list'):
            return
        if isinstance(ch, ast.stmt):
            if _is_docstring(parent, ch) or _is_log_call(ch):
                return
            if isinstance(ch, ast.Expr) and isinstance(ch.value, (ast.Call, ast.Await)) and field in ('body', 'orelse', 'finalbody'):
                add('del_call', 'delete statement `%s`' % ast.unparse(ch)[:70], path, lambda n: ast.Pass())
            if isinstance(ch, (ast.Assign, ast.AugAssign)) and field in ('body', 'orelse', 'finalbody'):
                add('del_assign', 'delete statement `%s`' % ast.unparse(ch)[:70], path, lambda n: ast.Pass())
            if isinstance(ch, ast.Raise) and ch.exc is not None:
                add('del_raise', 'delete `%s`' % ast.unparse(ch)[:70], path, lambda n: ast.Pass())
            if isinstance(ch, ast.Return) and ch.value is not None and not (isinstance(ch.value, ast.Constant) and ch.value.value is None):
                add('ret_none', '`%s` -> `return None`' % ast.unparse(ch)[:60], path, lambda n: ast.Return(value=ast.Constant(None)))
            if isinstance(ch, ast.Return) and field == 'body':
                add('del_return', 'delete `%s`' % ast.unparse(ch)[:60], path, lambda n: ast.Pass())
            if isinstance(ch, ast.Break):
                add('break_continue', '`break` -> `continue`', path, lambda n: ast.Continue())
            if isinstance(ch, ast.Continue):
                add('continue_break', '`continue` -> `break`', path, lambda n: ast.Break())
            if isinstance(ch, (ast.If, ast.While)):
                add('neg_cond', 'negate condition `%s`' % ast.unparse(ch.test)[:60], path,
                    lambda n: _with(n, test=ast.UnaryOp(op=ast.Not(), operand=n.test)))
        if isinstance(ch, ast.IfExp):
            add('neg_cond', 'negate condition `%s`' % ast.unparse(ch.test)[:60], path,
                lambda n: _with(n, test=ast.UnaryOp(op=ast.Not(), operand=n.test)))
        if isinstance(ch, ast.Compare) and len(ch.ops) == 1 and type(ch.ops[0]) in CMP_SWAP:
            new = CMP_SWAP[type(ch.ops[0])]
            add('cmp', '`%s`: %s -> %s' % (ast.unparse(ch)[:60], type(ch.ops[0]).__name__, new.__name__), path,
                lambda n, new=new: _with(n, ops=[new()]))
            if isinstance(ch.ops[0], (ast.Lt, ast.LtE, ast.Gt, ast.GtE)):
                flip = {ast.Lt: ast.Gt, ast.LtE: ast.GtE, ast.Gt: ast.Lt, ast.GtE: ast.LtE}[type(ch.ops[0])]
                add('cmp_flip', '`%s`: %s -> %s' % (ast.unparse(ch)[:60], type(ch.ops[0]).__name__, flip.__name__), path,
                    lambda n, flip=flip: _with(n, ops=[flip()]))
        if isinstance(ch, ast.BoolOp):
            new = ast.Or if isinstance(ch.op, ast.And) else ast.And
            add('boolop', '`%s`: %s -> %s' % (ast.unparse(ch)[:60], type(ch.op).__name__, new.__name__), path,
                lambda n, new=new: _with(n, op=new()))
        if isinstance(ch, ast.UnaryOp) and isinstance(ch.op, ast.Not):
            add('del_not', '`%s`: drop `not`' % ast.unparse(ch)[:60], path, lambda n: n.operand)
        if isinstance(ch, ast.BinOp) and type(ch.op) in BIN_SWAP and not (isinstance(ch.op, ast.Mod)):
            if not (isinstance(ch.left, ast.Constant) and isinstance(ch.left.value, str)):
                new = BIN_SWAP[type(ch.op)]
                add('binop', '`%s`: %s -> %s' % (ast.unparse(ch)[:60], type(ch.op).__name__, new.__name__), path,
                    lambda n, new=new: _with(n, op=new()))
        if isinstance(ch, ast.AugAssign) and type(ch.op) in BIN_SWAP:
            new = BIN_SWAP[type(ch.op)]
            add('augop', '`%s`: %s -> %s' % (ast.unparse(ch)[:60], type(ch.op).__name__, new.__name__), path,
                lambda n, new=new: _with(n, op=new()))
        if isinstance(ch, ast.Constant) and isinstance(ch.value, bool):
            add('bool_const', '`%s` -> `%s`' % (ch.value, not ch.value), path, lambda n: ast.Constant(not n.value))
        elif isinstance(ch, ast.Constant) and isinstance(ch.value, int) and not isinstance(ch.value, bool) and abs(ch.value) < 2 ** 33:
            add('int_plus1', '`%s` -> `%s`' % (ch.value, ch.value + 1), path, lambda n: ast.Constant(n.value + 1))
            if ch.value != 0:
                add('int_minus1', '`%s` -> `%s`' % (ch.value, ch.value - 1), path, lambda n: ast.Constant(n.value - 1))
        if isinstance(ch, ast.Call) and len(ch.args) >= 2 and not ch.keywords and all(isinstance(a, (ast.Name, ast.Attribute)) for a in ch.args[:2]):
            add('swap_args', '`%s`: swap first two arguments' % ast.unparse(ch)[:60], path,
                lambda n: _with(n, args=[n.args[1], n.args[0]] + n.args[2:]))
        if isinstance(ch, ast.Call) and ch.keywords:
            for ki, kw in enumerate(ch.keywords):
                if kw.arg and isinstance(kw.value, ast.Constant) and isinstance(kw.value.value, bool):
                    pass    # covered by bool_const
        visit(ch, path)

    visit(fn, [])
    return sites


def _with(node, **kw):
    n = copy.copy(node)
    for k, v in kw.items():
        setattr(n, k, v)
    return n


def apply_at(root, path, fn_apply):
    """Functional update of the AST at `path` (list of (field, index))."""
    if not path:
        return fn_apply(root)
    (field, idx), rest = path[0], path[1:]
    new = copy.copy(root)
    val = getattr(root, field)
    if idx is None:
        setattr(new, field, apply_at(val, rest, fn_apply))
    else:
        lst = list(val)
        lst[idx] = apply_at(val[idx], rest, fn_apply)
        setattr(new, field, lst)
    return new


def make_mutant_source(src, qual, site_id):
    tree = ast.parse(src)
    fns = function_nodes(tree)
    fn = fns.get(qual)
    if fn is None:
        return None, None
    for sid, desc, path, fa in mutation_sites(fn):
        if sid == site_id:
            newfn = apply_at(fn, path, fa)
            # splice: replace fn by newfn in the tree
            class R(ast.NodeTransformer):
                def generic_visit(self, node):
                    for field, old in ast.iter_fields(node):
                        if isinstance(old, list):
                            for i, x in enumerate(old):
                                if x is fn:
                                    old[i] = newfn
                                elif isinstance(x, ast.AST):
                                    self.generic_visit(x)
                        elif isinstance(old, ast.AST):
                            if old is fn:
                                setattr(node, field, newfn)
                            else:
                                self.generic_visit(old)
                    return node
            R().generic_visit(tree)
            ast.fix_missing_locations(tree)
            try:
                out = ast.unparse(tree)
                compile(out, '<mutant>', 'exec')
            except Exception:
                return None, desc
            return out, desc
    return None, None


# --------------------------------------------------------------------------- index

def _index_worker(name):
    sys.path.insert(0, ROOT)
    from pyvc import check as C
    o = C.run_harness((name, 'quick', REPO))
    ref = sum(1 for r in o['results'] if r['status'] == 'refuted')
    return name, sorted(o['functions']), round(o['wall_s'], 2), ref, bool(o['errors'])


def build_index(jobs=16):
    sys.path.insert(0, ROOT)
    from pyvc import check as C
    reg = C.load_contracts()
    names = [h.name for h in reg]
    ctx = mp.get_context('fork')
    with ctx.Pool(jobs) as pool:
        rows = pool.map(_index_worker, names, chunksize=1)
    idx = dict(harnesses={n: dict(executed=f, wall_s=w, refuted_on_unchanged=r, errors=e, props=next(h.props for h in reg if h.name == n),
                                   declared=next(h.functions for h in reg if h.name == n)) for n, f, w, r, e in rows})
    os.makedirs(os.path.dirname(INDEX), exist_ok=True)
    json.dump(idx, open(INDEX, 'w'), indent=0, sort_keys=True)
    return idx


def load_index():
    if not os.path.exists(INDEX):
        return build_index()
    return json.load(open(INDEX))


# --------------------------------------------------------------------------- running mutants

def scratch_copy():
    d = tempfile.mkdtemp(prefix='pyvc_mu_')
    for sub in ('rsocket', 'reactivestreams'):
        shutil.copytree(os.path.join(REPO, sub), os.path.join(d, sub), ignore=shutil.ignore_patterns('__pycache__'))
    return d


def baseline_refuted(name):
    """Obligation names refuted on the unchanged tree by this harness (open known findings) – not a kill."""
    return None


def _mutant_worker(task):
    file, qual, site_id, harness_names, base_ref = task
    sys.path.insert(0, ROOT)
    t0 = time.time()
    src = open(os.path.join(REPO, file)).read()
    msrc, desc = make_mutant_source(src, qual, site_id)
    if msrc is None:
        return dict(file=file, function=qual, site=site_id, desc=desc, status='invalid')
    d = scratch_copy()
    try:
        open(os.path.join(d, file), 'w').write(msrc)
        from pyvc import check as C
        killed_by = None
        noticed = None
        ran = 0
        for hn in harness_names:
            o = C.run_harness((hn, 'mutation', d))
            ran += 1
            ref = sorted({r['name'] for r in o['results'] if r['status'] == 'refuted'} - set(base_ref.get(hn, [])))
            if ref:
                killed_by = dict(harness=hn, obligation=ref[0], n=len(ref))
                break
            und = [r['name'] for r in o['results'] if r['status'] not in ('proved', 'refuted', 'covered', 'unreachable', 'unknown-cover')
                   and not r['name'].startswith('cover:')]
            if (o['errors'] or und) and noticed is None:
                noticed = dict(harness=hn, why=(o['errors'] or und)[0][:200])
        status = 'killed' if killed_by else ('noticed' if noticed else 'survived')
        return dict(file=file, function=qual, site=site_id, desc=desc, status=status, killed_by=killed_by, noticed=noticed,
                    harnesses_run=ran, harnesses=len(harness_names), wall_s=round(time.time() - t0, 1))
    except BaseException as ex:       # pragma: no cover
        return dict(file=file, function=qual, site=site_id, desc=desc, status='error', error=repr(ex)[:300])
    finally:
        shutil.rmtree(d, ignore_errors=True)


def plan(idx, files_re=None, funcs_re=None, max_harnesses=10):
    """(file, qual) -> harnesses executing it, cheapest first, those that *declare* the function first."""
    users = {}
    for hn, h in idx['harnesses'].items():
        if h['errors']:
            continue
        for q in h['executed']:
            users.setdefault(q, []).append(hn)
    tasks = []
    for q, hs in sorted(users.items()):
        file, _, qual = q.partition('::')
        if '<lambda' in qual:
            continue
        if files_re and not re.search(files_re, file):
            continue
        if funcs_re and not re.search(funcs_re, qual):
            continue
        # every harness that DECLARES the function as under contract (the richest shapes first: they kill fastest),
        # then a few of the other harnesses that merely execute it
        decl = sorted([hn for hn in hs if q in idx['harnesses'][hn]['declared']], key=lambda hn: -idx['harnesses'][hn]['wall_s'])
        fam = {hn.split('.')[0] for hn in decl}       # contract family of the declaring harnesses ('c03', 'k', 'e', ...)
        other = sorted([hn for hn in hs if hn not in decl], key=lambda hn: (hn.split('.')[0] not in fam, idx['harnesses'][hn]['wall_s']))
        chosen = decl[:48] + other[:max_harnesses]
        tasks.append((file, qual, chosen))
    return tasks


def base_refuted(idx):
    """obligations refuted on the unchanged tree per harness (open findings) – computed once."""
    sys.path.insert(0, ROOT)
    out = {}
    need = [hn for hn, h in idx['harnesses'].items() if h['refuted_on_unchanged']]
    from pyvc import check as C
    for hn in need:
        o = C.run_harness((hn, 'quick', REPO))
        out[hn] = sorted({r['name'] for r in o['results'] if r['status'] == 'refuted'})
    return out


def run(a):
    idx = load_index()
    base_ref = base_refuted(idx)
    tasks = []
    only = None
    if a.recheck:
        # re-evaluate mutants recorded with one of the given statuses (e.g. survived,noticed) against the current contracts
        sts = set(a.recheck.split(','))
        prev = json.load(open(a.out or os.path.join(ROOT, 'mutation', 'results.json')))['mutants']
        only = {(r['file'], r['function'], r['site']) for r in prev if r['status'] in sts}
    have = set()
    if getattr(a, 'new_only', False):
        # only functions that have no recorded mutant yet (functions brought under contract since the last full run)
        prevp = a.out or os.path.join(ROOT, 'mutation', 'results.json')
        if os.path.exists(prevp):
            have = {(r['file'], r['function']) for r in json.load(open(prevp))['mutants']}
    for file, qual, hs in plan(idx, a.files, a.funcs, a.max_harnesses):
        if (file, qual) in have:
            continue
        src = open(os.path.join(REPO, file)).read()
        fn = function_nodes(ast.parse(src)).get(qual)
        if fn is None:
            continue
        for sid, desc, path, fa in mutation_sites(fn):
            if a.ops and not re.search(a.ops, sid):
                continue
            if only is not None and (file, qual, sid) not in only:
                continue
            tasks.append((file, qual, sid, hs, base_ref))
    rnd = random.Random(int(os.environ.get('VERIF_SEED', '0') or 0))
    if a.max and len(tasks) > a.max:
        tasks = rnd.sample(tasks, a.max)
    print('%d mutants planned' % len(tasks), flush=True)
    ctx = mp.get_context('fork')
    res = []
    t0 = time.time()
    with ctx.Pool(a.jobs) as pool:
        for i, r in enumerate(pool.imap_unordered(_mutant_worker, tasks, chunksize=1)):
            res.append(r)
            if r['status'] in ('survived', 'noticed', 'error'):
                print('%-8s %s::%s %s  %s' % (r['status'], r['file'], r['function'], r['site'], r['desc']), flush=True)
            if (i + 1) % 100 == 0:
                print('... %d/%d done, %.0fs' % (i + 1, len(tasks), time.time() - t0), flush=True)
    summary = {}
    for r in res:
        summary[r['status']] = summary.get(r['status'], 0) + 1
    print('summary', summary)
    out = a.out or os.path.join(ROOT, 'mutation', 'results.json')
    os.makedirs(os.path.dirname(out), exist_ok=True)
    old = []
    if os.path.exists(out) and a.merge:
        old = json.load(open(out))['mutants']
        keys = {(r['file'], r['function'], r['site']) for r in res}
        old = [r for r in old if (r['file'], r['function'], r['site']) not in keys]
    allr = sorted(old + res, key=lambda r: (r['file'], r['function'], r['site']))
    s2 = {}
    for r in allr:
        s2[r['status']] = s2.get(r['status'], 0) + 1
    json.dump(dict(summary=s2, mutants=allr), open(out, 'w'), indent=0)
    return 0


def canaries(a):
    """Re-run a seeded sample of mutants recorded as killed; each must still be killed by a harness of the property.
    exit 0: all sampled canaries killed (or no longer applicable); exit 3: a canary survived (tool defect)."""
    path = os.path.join(ROOT, 'mutation', 'results.json')
    if not os.path.exists(path):
        print('no mutation results recorded')
        return 0
    idx = load_index()
    props = set(a.props.split(',')) if a.props else None
    killed = [r for r in json.load(open(path))['mutants'] if r['status'] == 'killed']
    if props:
        killed = [r for r in killed if set(idx['harnesses'].get(r['killed_by']['harness'], {}).get('props', [])) & props]
    rnd = random.Random(int(os.environ.get('VERIF_SEED', '0') or 0))
    sample = rnd.sample(killed, min(a.n, len(killed)))
    base_ref = base_refuted(idx)
    # every harness of the property (or of any property) that executes the mutated function may kill the canary
    users = {}
    for hn, h in idx['harnesses'].items():
        if props and not (set(h['props']) & props):
            continue
        for q in h['executed']:
            users.setdefault(q, []).append(hn)
    tasks = []
    for r in sample:
        hs = [r['killed_by']['harness']] + [hn for hn in users.get('%s::%s' % (r['file'], r['function']), []) if hn != r['killed_by']['harness']]
        hs = [hn for hn in hs if hn in idx['harnesses']]
        tasks.append((r['file'], r['function'], r['site'], hs[:40], base_ref))
    ctx = mp.get_context('fork')
    with ctx.Pool(a.jobs) as pool:
        res = pool.map(_mutant_worker, tasks, chunksize=1)
    bad = [r for r in res if r['status'] in ('survived',)]
    skipped = [r for r in res if r['status'] in ('invalid', 'error')]
    print('canaries: %d sampled, %d killed, %d not applicable, %d survived' % (len(res), len(res) - len(bad) - len(skipped), len(skipped), len(bad)))
    for r in bad:
        print('SURVIVING-CANARY %s::%s %s %s' % (r['file'], r['function'], r['site'], r['desc']))
    return 3 if bad else 0


def _full_worker(task):
    file, qual, site_id, props = task
    src = open(os.path.join(REPO, file)).read()
    msrc, desc = make_mutant_source(src, qual, site_id)
    if msrc is None:
        return (file, qual, site_id, 'invalid', None)
    d = scratch_copy()
    try:
        open(os.path.join(d, file), 'w').write(msrc)
        verdict, by = 'survived', None
        for p in props:
            r = subprocess.run([sys.executable, '-m', 'pyvc.check', p, '--no-evidence'], cwd=ROOT, capture_output=True, text=True,
                               env=dict(os.environ, PYVC_REPO=d, PYVC_JOBS=os.environ.get('PYVC_MUT_JOBS', '5')), timeout=3600)
            if r.returncode == 1:
                first = [l for l in r.stdout.splitlines() if l.startswith('VIOLATION')][:1]
                return (file, qual, site_id, 'killed', dict(harness='(full check of %s)' % p,
                                                             obligation=(first[0].split('obligation=')[-1][:200] if first else ''), n=1))
            if r.returncode in (2, 3) and verdict == 'survived':
                verdict, by = 'noticed', dict(harness='(full check of %s)' % p, why='exit %d' % r.returncode)
        return (file, qual, site_id, verdict, by)
    finally:
        shutil.rmtree(d, ignore_errors=True)


def fullcheck(a):
    """Survivors of the sampled run (each mutant was only tried against a capped selection of harnesses) are re-tried against the
    COMPLETE quick check of every property that has a harness executing the mutated function."""
    idx = load_index()
    path = a.out or os.path.join(ROOT, 'mutation', 'results.json')
    doc = json.load(open(path))
    users = {}
    for hn, h in idx['harnesses'].items():
        for q in h['executed']:
            users.setdefault(q, set()).update(h['props'])
    order = ['C13', 'C14', 'C15', 'C16', 'C17', 'C18', 'C19', 'C20', 'C07', 'C06', 'C11', 'C05', 'C09', 'C03', 'C04', 'C08', 'C10', 'C12', 'C02', 'C01']
    tasks = []
    for r in doc['mutants']:
        if r['status'] != 'survived' or (a.files and not re.search(a.files, r['file'])):
            continue
        props = [p for p in order if p in users.get('%s::%s' % (r['file'], r['function']), ())]
        if a.props:
            props = [p for p in props if p in a.props.split(',')]
        if props:
            tasks.append((r['file'], r['function'], r['site'], props))
    print('%d surviving mutants to re-try against full checks' % len(tasks), flush=True)
    ctx = mp.get_context('fork')
    done = {}
    with ctx.Pool(a.jobs) as pool:
        for i, (f, q, sid, st, by) in enumerate(pool.imap_unordered(_full_worker, tasks, chunksize=1)):
            done[(f, q, sid)] = (st, by)
            if st != 'killed':
                print('%-8s %s::%s %s' % (st, f, q, sid), flush=True)
    for r in doc['mutants']:
        k = (r['file'], r['function'], r['site'])
        if k in done and done[k][0] in ('killed', 'noticed'):
            r['status'] = done[k][0]
            if done[k][0] == 'killed':
                r['killed_by'] = done[k][1]
            else:
                r['noticed'] = done[k][1]
    s2 = {}
    for r in doc['mutants']:
        s2[r['status']] = s2.get(r['status'], 0) + 1
    doc['summary'] = s2
    json.dump(doc, open(path, 'w'), indent=0)
    print('summary', s2)
    return 0


def main(argv=None):
    ap = argparse.ArgumentParser()
    ap.add_argument('cmd')
    ap.add_argument('--files')
    ap.add_argument('--funcs')
    ap.add_argument('--ops')
    ap.add_argument('--max', type=int, default=0)
    ap.add_argument('--max-harnesses', type=int, default=10)
    ap.add_argument('--jobs', type=int, default=16)
    ap.add_argument('--out')
    ap.add_argument('--merge', action='store_true')
    ap.add_argument('--recheck', help='comma list of statuses in the results file to re-evaluate')
    ap.add_argument('--new-only', action='store_true', dest='new_only')
    ap.add_argument('--props')
    ap.add_argument('--n', type=int, default=24)
    a = ap.parse_args(argv)
    if a.cmd == 'index':
        idx = build_index(a.jobs)
        print('%d harnesses indexed' % len(idx['harnesses']))
        return 0
    if a.cmd == 'run':
        return run(a)
    if a.cmd == 'canaries':
        return canaries(a)
    if a.cmd == 'fullcheck':
        return fullcheck(a)
    ap.print_help()
    return 2


if __name__ == '__main__':
    sys.exit(main())
