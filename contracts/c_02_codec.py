"""C02 - frame codec: encode = wire-format spec, decode(encode(f)) = f, canonical re-encoding,
incremental (prefix + data/metadata writes) form = one-shot form with a correct length, both codec back ends.
(DESIGN 5/C02, Appendix D)"""
import z3

from pyvc.values import *   # noqa
from pyvc.engine import EXC
from pyvc.harness import harness, both_backends, new_obj, OpaqueLog
from pyvc import models as M
from contracts import spec_wire as W

FR = 'rsocket/frame.py::'
CLASSES = {
    W.T_SETUP: 'SetupFrame', W.T_LEASE: 'LeaseFrame', W.T_KEEPALIVE: 'KeepAliveFrame', W.T_RR: 'RequestResponseFrame',
    W.T_FNF: 'RequestFireAndForgetFrame', W.T_STREAM: 'RequestStreamFrame', W.T_CHANNEL: 'RequestChannelFrame',
    W.T_REQUEST_N: 'RequestNFrame', W.T_CANCEL: 'CancelFrame', W.T_PAYLOAD: 'PayloadFrame', W.T_ERROR: 'ErrorFrame',
    W.T_MDPUSH: 'MetadataPushFrame', W.T_RESUME: 'ResumeFrame', W.T_RESUME_OK: 'ResumeOKFrame'}
HAS_MD = {W.T_SETUP, W.T_LEASE, W.T_RR, W.T_FNF, W.T_STREAM, W.T_CHANNEL, W.T_PAYLOAD, W.T_MDPUSH}
HAS_DATA = {W.T_SETUP, W.T_KEEPALIVE, W.T_RR, W.T_FNF, W.T_STREAM, W.T_CHANNEL, W.T_PAYLOAD, W.T_ERROR}

CODEC_FUNCS = [FR + 'Frame.serialize', FR + 'Frame.serialize_frame_prefix', FR + 'Frame.compute_frame_length',
               FR + 'Frame._compute_data_metadata_length', FR + 'Frame._compute_frame_prefix_length',
               FR + 'Frame.parse_metadata', FR + 'Frame.parse_data', FR + 'parse_or_ignore', FR + 'is_frame_to_ignore',
               FR + 'parse_header_native', FR + 'parse_header_cbitstruct', FR + 'Frame.write_data_metadata',
               FR + 'serialize_with_frame_size_header', FR + 'serialize_prefix_with_frame_size_header']

ASSUME = ['struct / cbitstruct C code behaves as modelled (big-endian fixed-width fields, MSB-first bit fields); '
          'conformance-checked against the real modules (bounded) by pyvc.conformance',
          'value domain = the wire format ranges: 31-bit stream id, 32-bit counters, 63-bit positions, 0..127-byte MIME '
          'strings, token length = len(token) <= 65535, metadata < 2^24 bytes, no metadata on KEEPALIVE/ERROR/REQUEST_N/CANCEL/RESUME*']


def sym_payload_part(E, name, kind, maxlen=None):
    if kind == 'none':
        return None
    if kind == 'empty':
        return b''
    return E.input(name, E.fresh_bytes(name, 0, maxlen))


def make_fields(E, t, md_kind, data_kind):
    f = {}
    f['stream_id'] = E.input('stream_id', E.fresh_int('stream_id', 0, 0x7FFFFFFF)) if t != W.T_MDPUSH else 0
    f['flags_ignore'] = E.input('flags_ignore', E.fresh_bool('flags_ignore'))
    if t in HAS_MD:
        f['metadata'] = sym_payload_part(E, 'metadata', md_kind, (1 << 24) - 1)
    if t in HAS_DATA:
        f['data'] = sym_payload_part(E, 'data', data_kind)

    def u(name, bits):
        f[name] = E.input(name, E.fresh_int(name, 0, (1 << bits) - 1))

    def flag(name):
        f[name] = E.input(name, E.fresh_bool(name))
    if t == W.T_SETUP:
        u('major_version', 16), u('minor_version', 16), u('keep_alive_milliseconds', 32), u('max_lifetime_milliseconds', 32)
        flag('flags_lease')
        f['flags_resume'] = E.path.choice(2, 'resume') == 1
        if f['flags_resume']:
            tok = E.input('resume_identification_token', E.fresh_bytes('token', 0, 65535))
            f['resume_identification_token'] = tok
            f['token_length'] = mk_int(tok.len_term())
        f['metadata_encoding'] = E.input('metadata_encoding', E.fresh_bytes('mdenc', 0, 127))
        f['data_encoding'] = E.input('data_encoding', E.fresh_bytes('denc', 0, 127))
    elif t == W.T_LEASE:
        u('time_to_live', 31), u('number_of_requests', 31)
    elif t == W.T_KEEPALIVE:
        flag('flags_respond'), u('last_received_position', 63)
    elif t in (W.T_RR, W.T_FNF):
        flag('flags_follows')
    elif t == W.T_STREAM:
        flag('flags_follows'), u('initial_request_n', 32)
    elif t == W.T_CHANNEL:
        flag('flags_follows'), flag('flags_complete'), u('initial_request_n', 32)
    elif t == W.T_REQUEST_N:
        u('request_n', 32)
    elif t == W.T_PAYLOAD:
        flag('flags_follows'), flag('flags_complete'), flag('flags_next')
    elif t == W.T_ERROR:
        codes = list(E.lookup('rsocket/error_codes.py::ErrorCode').members.values())
        f['error_code'] = E.input('error_code', codes[E.path.choice(len(codes), 'error_code')])
    elif t == W.T_RESUME:
        u('major_version', 16), u('minor_version', 16), u('last_server_position', 63), u('first_client_position', 63)
        tok = E.input('resume_identification_token', E.fresh_bytes('token', 0, 65535))
        f['resume_identification_token'] = tok
        f['token_length'] = mk_int(tok.len_term())
    elif t == W.T_RESUME_OK:
        u('last_received_client_position', 63)
    return f


def make_frame(E, t, f):
    """Build the frame with the REAL constructor, then set the fields like the library's builders do."""
    cls = E.lookup(FR + CLASSES[t])
    fr = E.call(cls, [])
    for k, v in f.items():
        E.setattr(fr, k, v)
    return fr


def same_bytes(E, a, b, tag):
    return M.b_eq_goal(E, W.bval(a), W.bval(b), tag)


def shapes_for(t):
    mds = ['none', 'bytes'] if t in HAS_MD else ['-']
    ds = ['none', 'bytes'] if t in HAS_DATA else ['-']
    if t == W.T_MDPUSH:
        mds = ['bytes']
    return [(m, d) for m in mds for d in ds]


# --------------------------------------------------------------------------- (a) encode = spec

def _encode(t, mdk, dk):
    def run(E):
        f = make_fields(E, t, mdk, dk)
        fr = make_frame(E, t, f)
        out = E.call(E.getattr(fr, 'serialize'), [])
        E.cover('serialized')
        exp = W.ENC(t, f)
        E.prove('encode:bytes_equal_wire_format', M.b_eq_goal(E, out, exp, 'enc'))
        E.prove('encode:length_field', I(E.getattr(fr, 'length')) == lift_bytes(exp).len_term())
        E.prove('encode:is_bytes', isinstance(out, (SBytes, bytes)))
        # encoding is a function of the frame's fields: encoding the same frame again gives the same bytes (no result or
        # partial state is carried from one call to the next)
        out2 = E.call(E.getattr(fr, 'serialize'), [])
        E.prove('encode:encoding_the_same_frame_again_gives_the_same_bytes', M.b_eq_goal(E, out2, exp, 'enc2'))
    return run


# --------------------------------------------------------------------------- (b)+(c) decode(encode) = id, canonical re-encoding

FIELDS_BACK = {
    W.T_SETUP: ['major_version', 'minor_version', 'keep_alive_milliseconds', 'max_lifetime_milliseconds', 'flags_lease',
                'flags_resume', 'metadata_encoding', 'data_encoding'],
    W.T_LEASE: ['time_to_live', 'number_of_requests'],
    W.T_KEEPALIVE: ['flags_respond', 'last_received_position'],
    W.T_RR: ['flags_follows'], W.T_FNF: ['flags_follows'],
    W.T_STREAM: ['flags_follows', 'initial_request_n'],
    W.T_CHANNEL: ['flags_follows', 'flags_complete', 'initial_request_n'],
    W.T_REQUEST_N: ['request_n'], W.T_CANCEL: [], W.T_PAYLOAD: ['flags_follows', 'flags_complete'],
    W.T_ERROR: ['error_code'], W.T_MDPUSH: [],
    W.T_RESUME: ['major_version', 'minor_version', 'last_server_position', 'first_client_position'],
    W.T_RESUME_OK: ['last_received_client_position'],
}


def field_eq(E, a, b, tag):
    if is_byteslike(a) or is_byteslike(b) or a is None or b is None:
        return same_bytes(E, a, b, tag)
    if isinstance(a, (bool, SBool)) or isinstance(b, (bool, SBool)):
        ta, tb = E.truth(a), E.truth(b)
        return B(ta) == B(tb)
    if isinstance(a, EnumMember) or isinstance(b, EnumMember):
        return a == b
    return I(a) == I(b)


def _decode(t, mdk, dk):
    def run(E):
        f = make_fields(E, t, mdk, dk)
        buf = W.ENC(t, f)
        g = E.call(E.lookup(FR + 'parse_or_ignore'), [buf])
        E.cover('parsed')
        E.prove('decode:returns_frame_of_same_type', isinstance(g, SObj) and g.cls is E.lookup(FR + CLASSES[t]))
        if not isinstance(g, SObj):
            return
        E.prove('decode:stream_id', I(E.getattr(g, 'stream_id')) == I(f['stream_id']))
        E.prove('decode:flags_ignore', B(E.truth(E.getattr(g, 'flags_ignore'))) == B(f['flags_ignore']))
        E.prove('decode:frame_type', E.getattr(g, 'frame_type').value == t)
        for name in FIELDS_BACK[t]:
            E.prove('decode:%s' % name, field_eq(E, E.getattr(g, name), f[name], name))
        if t in HAS_MD:
            E.prove('decode:metadata', same_bytes(E, E.getattr(g, 'metadata'), f['metadata'], 'md'))
        if t in HAS_DATA:
            E.prove('decode:data', same_bytes(E, E.getattr(g, 'data'), f['data'], 'd'))
        if t in (W.T_SETUP, W.T_RESUME) and f.get('flags_resume', True) is True:
            E.prove('decode:resume_token', same_bytes(E, E.getattr(g, 'resume_identification_token'),
                                                      f['resume_identification_token'], 'tok'))
            E.prove('decode:token_length', I(E.getattr(g, 'token_length')) == I(f['token_length']))
        if t == W.T_PAYLOAD:
            content = z3.Or(W.blen(f.get('metadata')) > 0, W.blen(f.get('data')) > 0)
            E.prove('decode:payload_with_content_has_next', z3.Implies(content, B(E.truth(E.getattr(g, 'flags_next')))))
            E.prove('decode:flags_next', B(E.truth(E.getattr(g, 'flags_next'))) == z3.Or(B(f['flags_next']), content))
        # canonical re-encoding
        out2 = E.call(E.getattr(g, 'serialize'), [])
        E.prove('reencode:same_bytes', M.b_eq_goal(E, out2, buf, 'reenc'))
    return run


# --------------------------------------------------------------------------- (d) incremental form

def _partial(t, mdk, dk):
    def run(E):
        f = make_fields(E, t, mdk, dk)
        fr = make_frame(E, t, f)
        enc = W.ENC(t, f)
        # the 3-byte length prefix can only state lengths < 2^24 (wire-format range of the quantifier)
        E.assume(lift_bytes(enc).len_term() < (1 << 24))
        exp = W.with_length_prefix(enc)
        prefix = E.call(E.lookup(FR + 'serialize_prefix_with_frame_size_header'), [fr])
        written = []
        writer = Builtin('writer.write', lambda b: written.append(b))
        E.call(E.getattr(fr, 'write_data_metadata'), [writer])
        E.cover('written')
        total = M.b_concat_all([prefix] + written)
        E.prove('partial:prefix+writes_equal_length_prefixed_encoding', M.b_eq_goal(E, total, exp, 'part'))
        E.prove('partial:at_most_two_writes', len(written) <= 2)
        if len(written) == 2:
            E.prove('partial:metadata_written_before_data',
                    z3.And(M.b_eq_goal(E, written[0], W.bval(f.get('metadata')), 'w0'),
                           M.b_eq_goal(E, written[1], W.bval(f.get('data')), 'w1')))
        fr2 = make_frame(E, t, f)
        one = E.call(E.lookup(FR + 'serialize_with_frame_size_header'), [fr2])
        E.prove('oneshot:equals_length_prefixed_encoding', M.b_eq_goal(E, one, exp, 'one'))
        if f.get('data') is not None and t in HAS_DATA:
            # the length prefix is that of the frame's CURRENT content: the same frame object written again after its data
            # changed (a frame that was decoded and is forwarded with other data, a frame re-used by the application)
            d2 = E.fresh_bytes('data2')
            f2 = dict(f, data=d2)
            if t == W.T_PAYLOAD:
                f2['flags_next'] = E.getattr(fr, 'flags_next')      # the frame's current fields (encoding content sets the flag on the object)
            enc2 = W.ENC(t, f2)
            E.assume(lift_bytes(enc2).len_term() < (1 << 24))
            E.setattr(fr, 'data', d2)
            prefix2 = E.call(E.lookup(FR + 'serialize_prefix_with_frame_size_header'), [fr])
            written2 = []
            E.call(E.getattr(fr, 'write_data_metadata'), [Builtin('writer.write', lambda b: written2.append(b))])
            E.prove('partial:written_again_after_its_data_changed_the_length_prefix_is_that_of_the_new_content[no stale length]',
                    M.b_eq_goal(E, M.b_concat_all([prefix2] + written2), W.with_length_prefix(enc2), 'part2'))
    return run


from pyvc.engine import Builtin  # noqa: E402

for _t, _name in CLASSES.items():
    for (_m, _d) in shapes_for(_t):
        _sh = 'md=%s,data=%s' % (_m, _d)
        # the wire form of a frame is part of every property that is stated in terms of what that frame carries
        _credit = {'RequestNFrame': ['C06'], 'RequestStreamFrame': ['C06'], 'RequestChannelFrame': ['C06'],      # credit
                   'SetupFrame': ['C16'], 'ResumeFrame': ['C16'], 'LeaseFrame': ['C14'], 'KeepAliveFrame': ['C15'],
                   'ErrorFrame': ['C12'], 'CancelFrame': ['C09']}.get(_name, [])
        both_backends('c02.encode.%s[%s]' % (_name, _sh), ['C02', 'C01'] + _credit, functions=CODEC_FUNCS, replay='c02_roundtrip',
                      assumptions=ASSUME)(_encode(_t, _m, _d))
        both_backends('c02.decode.%s[%s]' % (_name, _sh), ['C02', 'C01', 'C04'] + _credit, functions=CODEC_FUNCS,
                      replay='c02_roundtrip', assumptions=ASSUME)(_decode(_t, _m, _d))
        both_backends('c02.partial.%s[%s]' % (_name, _sh), ['C02'], functions=CODEC_FUNCS, replay='c02_roundtrip',
                      assumptions=ASSUME)(_partial(_t, _m, _d))


# --------------------------------------------------------------------------- (e) helper pairs: one contract, both back ends

FH = 'rsocket/frame_helpers.py::'


@both_backends('c02.helpers.pack_unpack', ['C02', 'C18'],
               functions=[FH + 'pack_24bit', FH + 'unpack_24bit', FH + 'pack_position', FH + 'unpack_position',
                          FH + 'parse_type', FH + 'unpack_32bit', FH + 'pack_string', FH + 'unpack_string',
                          FH + 'is_flag_set', FH + 'pack_24bit_length'], assumptions=ASSUME)
def helper_pairs(E):
    n = E.input('n24', E.fresh_int('n24', 0, (1 << 24) - 1))
    out = E.call(E.lookup(FH + 'pack_24bit'), [n])
    E.cover('helpers')
    E.prove('pack_24bit=be3', M.b_eq_goal(E, out, W.be(n, 3), 'p24'))
    pre = E.fresh_bytes('pre', 0, 64)
    post = E.fresh_bytes('post', 0, 64)
    buf = W.cat(pre, W.be(n, 3), post)
    got = E.call(E.lookup(FH + 'unpack_24bit'), [buf, mk_int(pre.len_term())])
    E.prove('unpack_24bit_inverse_at_any_offset', I(got) == I(n))
    md = E.fresh_bytes('item', 0, (1 << 24) - 1)
    E.prove('pack_24bit_length=be3(len)', M.b_eq_goal(E, E.call(E.lookup(FH + 'pack_24bit_length'), [md]),
                                                       W.be(mk_int(md.len_term()), 3), 'p24l'))
    p = E.input('pos', E.fresh_int('pos', 0, (1 << 63) - 1))
    outp = E.call(E.lookup(FH + 'pack_position'), [p])
    E.prove('pack_position=be8', M.b_eq_goal(E, outp, W.be(p, 8), 'pp'))
    gotp = E.call(E.lookup(FH + 'unpack_position'), [W.be(p, 8)])
    E.prove('unpack_position_inverse', I(gotp) == I(p))
    # reserved top bit is ignored on decode
    hi = E.fresh_int('hi', 0, 1)
    raw = mk_int(I(hi) * (1 << 63) + I(p))
    from pyvc import bitform as BF
    gotp2 = E.call(E.lookup(FH + 'unpack_position'), [M.be_bytes(I(raw), 8)])
    E.prove('unpack_position_masks_63_bits', I(gotp2) == I(p))
    b0 = E.fresh_bytes('tbuf', 1, 64)
    known, val = E.call(E.lookup(FH + 'parse_type'), [b0])
    first = b0.at(z3.IntVal(0))
    E.prove('parse_type:flag_is_top_bit', B(E.truth(known)) == (first >= 128))
    E.prove('parse_type:value_is_low_7_bits', I(val) == first % 128)
    u = E.input('u32', E.fresh_int('u32', 0, (1 << 32) - 1))
    got32 = E.call(E.lookup(FH + 'unpack_32bit'), [W.cat(pre, W.be(u, 4), post), mk_int(pre.len_term())])
    E.prove('unpack_32bit', I(got32) == I(u))
    s = E.fresh_bytes('s', 0, 127)
    ps = E.call(E.lookup(FH + 'pack_string'), [s])
    E.prove('pack_string=len_byte+bytes', M.b_eq_goal(E, ps, W.cat(W.be(mk_int(s.len_term()), 1), s), 'ps'))
    ln, back = E.call(E.lookup(FH + 'unpack_string'), [W.cat(pre, ps, post), mk_int(pre.len_term())])
    E.prove('unpack_string:length', I(ln) == s.len_term())
    E.prove('unpack_string:bytes', M.b_eq_goal(E, back, s, 'us'))


@both_backends('c02.header.parse', ['C02', 'C12'], functions=[FR + 'parse_header_native', FR + 'parse_header_cbitstruct'],
               assumptions=ASSUME)
def header_parse(E):
    """Both header parsers satisfy the SAME contract on every header whose reserved bit is 0."""
    buf = E.input('buffer', E.fresh_bytes('hdr', 6, 64))
    E.assume(buf.at(z3.IntVal(0)) < 128)
    hdr = new_obj(E, FR + 'Header')
    ph = E.getattr(E.lookup(FR + 'ParseHelper'), 'parse_header')
    b4, b5 = buf.at(z3.IntVal(4)), buf.at(z3.IntVal(5))
    try:
        flags = E.call(ph, [hdr, buf, 0])
    except PyExc as e:
        E.cover('unknown-type')
        E.prove('header:unknown_type_raises_RSocketUnknownFrameType',
                e.value.cls.issubclass(E.lookup('rsocket/exceptions.py::RSocketUnknownFrameType')))
        t = b4 / 4
        E.prove('header:raises_only_for_undefined_type_ids', z3.Or(t == 0, t > 14))
        return
    E.cover('parsed')
    be4 = ((buf.at(z3.IntVal(0)) * 256 + buf.at(z3.IntVal(1))) * 256 + buf.at(z3.IntVal(2))) * 256 + buf.at(z3.IntVal(3))
    E.prove('header:stream_id', I(E.getattr(hdr, 'stream_id')) == be4)
    E.prove('header:frame_type', E.getattr(hdr, 'frame_type').value == z3.simplify(b4 / 4) if False else
            z3.IntVal(E.getattr(hdr, 'frame_type').value) == b4 / 4)
    E.prove('header:length', I(E.getattr(hdr, 'length')) == buf.len_term())
    E.prove('header:flag_ignore', B(E.truth(E.getattr(hdr, 'flags_ignore'))) == ((b4 / 2) % 2 == 1))
    E.prove('header:flag_metadata', B(E.truth(E.getattr(hdr, 'flags_metadata'))) == (b4 % 2 == 1))
    E.prove('header:flag_0x80', B(E.truth(E.getattr(flags, 'flags_follows_resume_respond'))) == (b5 >= 128))
    E.prove('header:flag_0x40', B(E.truth(E.getattr(flags, 'flags_complete_lease'))) == ((b5 / 64) % 2 == 1))
    E.prove('header:flag_0x20', B(E.truth(E.getattr(flags, 'flags_next'))) == ((b5 / 32) % 2 == 1))


# --------------------------------------------------------------------------- (f) builders

FB = 'rsocket/frame_builders.py::'


def sym_payload(E):
    shape = E.path.choice(3, 'payload-shape')
    data = None if shape == 0 else E.input('data', E.fresh_bytes('data'))
    md = None if shape in (0, 1) else E.input('metadata', E.fresh_bytes('metadata'))
    return E.call(E.lookup('rsocket/payload.py::Payload'), [data, md]), data, md


def same_or_none(E, a, b, tag):
    if a is None or b is None:
        return a is b
    return M.b_eq_goal(E, a, b, tag)


@harness('c02.builders', ['C02', 'C01', 'C06', 'C08'],
         functions=[FB + n for n in ('to_payload_frame', 'to_request_n_frame', 'to_cancel_frame', 'to_request_channel_frame',
                                     'to_request_stream_frame', 'to_request_response_frame', 'to_fire_and_forget_frame',
                                     'to_metadata_push_frame', 'to_keepalive_frame')])
def builders(E):
    sid = E.input('stream_id', E.fresh_int('sid', 0, 0x7FFFFFFF))
    n = E.input('n', E.fresh_int('n', 1, 0x7FFFFFFF))
    fs = E.input('fragment_size', E.fresh_int('fs', 64, 1 << 24)) if E.path.choice(2, 'fs') else None
    p, data, md = sym_payload(E)
    cflag, nflag = E.fresh_bool('complete'), E.fresh_bool('is_next')
    cls = lambda nme: E.lookup(FR + nme)  # noqa: E731

    def common(fr, cname, tag, payload=True):
        E.prove('%s:class' % tag, fr.cls is cls(cname))
        E.prove('%s:stream_id' % tag, I(E.getattr(fr, 'stream_id')) == I(sid))
        if payload:
            E.prove('%s:data' % tag, same_or_none(E, E.getattr(fr, 'data'), data, tag + 'd'))
            E.prove('%s:metadata' % tag, same_or_none(E, E.getattr(fr, 'metadata'), md, tag + 'm'))
            fsz = E.getattr(fr, 'fragment_size_bytes')
            E.prove('%s:fragment_size' % tag, (fsz is None) if fs is None else (I(fsz) == I(fs)))
    E.cover('builders')
    fr = E.call(E.lookup(FB + 'to_payload_frame'), [sid, p, cflag, nflag, fs])
    common(fr, 'PayloadFrame', 'payload')
    E.prove('payload:complete', B(E.getattr(fr, 'flags_complete')) == B(cflag))
    E.prove('payload:next', B(E.getattr(fr, 'flags_next')) == B(nflag))
    E.prove('payload:not_follows', E.getattr(fr, 'flags_follows') is False)
    fr = E.call(E.lookup(FB + 'to_request_n_frame'), [sid, n])
    common(fr, 'RequestNFrame', 'request_n', payload=False)
    E.prove('request_n:n', I(E.getattr(fr, 'request_n')) == I(n))
    fr = E.call(E.lookup(FB + 'to_cancel_frame'), [sid])
    common(fr, 'CancelFrame', 'cancel', payload=False)
    fr = E.call(E.lookup(FB + 'to_request_channel_frame'), [], dict(stream_id=sid, payload=p, initial_request_n=n,
                                                                   complete=cflag, fragment_size_bytes=fs))
    common(fr, 'RequestChannelFrame', 'channel')
    E.prove('channel:initial_request_n', I(E.getattr(fr, 'initial_request_n')) == I(n))
    E.prove('channel:complete', B(E.getattr(fr, 'flags_complete')) == B(cflag))
    fr = E.call(E.lookup(FB + 'to_request_stream_frame'), [], dict(stream_id=sid, payload=p, initial_request_n=n,
                                                                  fragment_size_bytes=fs))
    common(fr, 'RequestStreamFrame', 'stream')
    E.prove('stream:initial_request_n', I(E.getattr(fr, 'initial_request_n')) == I(n))
    fr = E.call(E.lookup(FB + 'to_request_response_frame'), [sid, p, fs])
    common(fr, 'RequestResponseFrame', 'rr')
    fr = E.call(E.lookup(FB + 'to_fire_and_forget_frame'), [sid, p, fs])
    common(fr, 'RequestFireAndForgetFrame', 'fnf')
    sf = E.getattr(fr, 'sent_future')
    E.prove('fnf:has_pending_sent_future', isinstance(sf, SObj) and sf.cls.name == 'Future' and sf.attrs['state'] == 'pending')
    mdp = E.fresh_bytes('push')
    fr = E.call(E.lookup(FB + 'to_metadata_push_frame'), [mdp])
    E.prove('push:class', fr.cls is cls('MetadataPushFrame'))
    E.prove('push:stream_0', E.getattr(fr, 'stream_id') == 0)
    E.prove('push:metadata', M.b_eq_goal(E, E.getattr(fr, 'metadata'), mdp, 'push'))
    E.prove('push:has_sent_future', isinstance(E.getattr(fr, 'sent_future'), SObj))
    kd = E.fresh_bytes('kdata')
    fr = E.call(E.lookup(FB + 'to_keepalive_frame'), [kd])
    E.prove('keepalive:class', fr.cls is cls('KeepAliveFrame'))
    E.prove('keepalive:stream_0', E.getattr(fr, 'stream_id') == 0)
    E.prove('keepalive:respond', E.getattr(fr, 'flags_respond') is True)
    E.prove('keepalive:data', M.b_eq_goal(E, E.getattr(fr, 'data'), kd, 'kd'))


@both_backends('c02.builders.wire', ['C02', 'C01', 'C06', 'C15', 'C16', 'C09'],
               functions=[FB + n for n in ('to_payload_frame', 'to_request_n_frame', 'to_cancel_frame', 'to_request_channel_frame',
                                           'to_request_stream_frame', 'to_request_response_frame', 'to_fire_and_forget_frame',
                                           'to_metadata_push_frame', 'to_keepalive_frame', 'to_setup_frame')] + CODEC_FUNCS,
               assumptions=ASSUME)
def builders_wire(E):
    """What the library itself builds is what goes on the wire: for each frame builder, the encoding of the built frame is the
    wire format of (the arguments given, and for everything not given the protocol's neutral value: no ignore flag, no
    follows flag, position 0, version 1.0, no resume).  Ties the defaults set by the frame constructors to the wire."""
    which = E.path.choice(10, 'builder')
    sid = E.input('stream_id', E.fresh_int('sid', 1, 0x7FFFFFFF))
    n = E.input('n', E.fresh_int('n', 1, 0x7FFFFFFF))
    p, data, md = sym_payload(E)
    if md is not None:
        E.assume(lift_bytes(md).len_term() < (1 << 24))          # the wire format's range for metadata (24-bit length)
    base = dict(stream_id=sid, flags_ignore=False, metadata=md, data=data)
    L = E.lookup
    if which == 0:
        c, nx = E.fresh_bool('complete'), E.fresh_bool('is_next')
        fr, t, f = E.call(L(FB + 'to_payload_frame'), [sid, p, c, nx]), W.T_PAYLOAD, dict(base, flags_follows=False, flags_complete=c, flags_next=nx)
    elif which == 1:
        fr, t, f = E.call(L(FB + 'to_request_n_frame'), [sid, n]), W.T_REQUEST_N, dict(stream_id=sid, flags_ignore=False, request_n=n)
    elif which == 2:
        fr, t, f = E.call(L(FB + 'to_cancel_frame'), [sid]), W.T_CANCEL, dict(stream_id=sid, flags_ignore=False)
    elif which == 3:
        c = E.fresh_bool('complete')
        fr = E.call(L(FB + 'to_request_channel_frame'), [], dict(stream_id=sid, payload=p, initial_request_n=n, complete=c))
        t, f = W.T_CHANNEL, dict(base, flags_follows=False, flags_complete=c, initial_request_n=n)
    elif which == 4:
        fr = E.call(L(FB + 'to_request_stream_frame'), [], dict(stream_id=sid, payload=p, initial_request_n=n))
        t, f = W.T_STREAM, dict(base, flags_follows=False, initial_request_n=n)
    elif which == 5:
        fr, t, f = E.call(L(FB + 'to_request_response_frame'), [sid, p]), W.T_RR, dict(base, flags_follows=False)
    elif which == 6:
        fr, t, f = E.call(L(FB + 'to_fire_and_forget_frame'), [sid, p]), W.T_FNF, dict(base, flags_follows=False)
    elif which == 7:
        mdp = E.fresh_bytes('push', 0, (1 << 24) - 1)
        fr, t, f = E.call(L(FB + 'to_metadata_push_frame'), [mdp]), W.T_MDPUSH, dict(stream_id=0, flags_ignore=False, metadata=mdp)
    elif which == 8:
        kd = E.fresh_bytes('kdata')
        fr, t, f = E.call(L(FB + 'to_keepalive_frame'), [kd]), W.T_KEEPALIVE, dict(stream_id=0, flags_ignore=False, data=kd, flags_respond=True,
                                                                               last_received_position=0)
    else:
        from pyvc import aio as _aio
        ka, ml = E.fresh_int('keep_alive_ms', 0, 0xFFFFFFFF), E.fresh_int('max_lifetime_ms', 0, 0xFFFFFFFF)
        lease = E.fresh_bool('honor_lease')
        de, me = E.fresh_bytes('denc', 0, 127), E.fresh_bytes('menc', 0, 127)
        pl = p if E.path.choice(2, 'setup-payload') == 1 else None
        fr = E.call(L(FB + 'to_setup_frame'), [pl, de, me, _aio.mk_timedelta(E, mk_int(I(ka) * 1000)), _aio.mk_timedelta(E, mk_int(I(ml) * 1000)), lease])
        t = W.T_SETUP
        f = dict(stream_id=0, flags_ignore=False, metadata=md if pl is not None else None, data=data if pl is not None else None,
                 major_version=1, minor_version=0, keep_alive_milliseconds=ka, max_lifetime_milliseconds=ml, flags_lease=lease,
                 flags_resume=False, metadata_encoding=me, data_encoding=de)
    out = E.call(E.getattr(fr, 'serialize'), [])
    E.cover('built-and-encoded')
    E.prove('builders:the_built_frame_encodes_to_the_wire_format_of_its_arguments_and_neutral_defaults[%s]' % CLASSES[t],
            M.b_eq_goal(E, out, W.ENC(t, f), 'bw'))


# --------------------------------------------------------------------------- TransportTCP.serialize_partial

@harness('c02.tcp.serialize_partial', ['C02', 'C05', 'C11'],
         functions=['rsocket/transports/tcp.py::TransportTCP.serialize_partial', 'rsocket/transports/tcp.py::TransportTCP.send_frame',
                    'rsocket/helpers.py::wrap_transport_exception'] + CODEC_FUNCS,
         assumptions=ASSUME + ['StreamWriter is abstract: write(b) appends b to the socket buffer, drain() is a suspension point; either may raise'])
def tcp_partial(E):
    t = W.T_PAYLOAD
    f = make_fields(E, t, 'bytes', 'bytes')
    fr = make_frame(E, t, f)
    enc = W.ENC(t, f)
    E.assume(lift_bytes(enc).len_term() < (1 << 24))
    exp = W.with_length_prefix(enc)
    writer = SOpaque('writer', 'writer')
    log = OpaqueLog(E, returns={'drain': lambda *a: __import__('pyvc.aio', fromlist=['x']).Awaitable('ready')},
                    may_raise=lambda o, m: True)
    tr = new_obj(E, 'rsocket/transports/tcp.py::TransportTCP', _writer=writer, _reader=SOpaque('reader', 'reader'))
    try:
        E.await_value(E.call(E.getattr(tr, 'send_frame'), [fr]))
    except PyExc as e:
        E.cover('writer-failed')
        E.prove('tcp:writer_failure_becomes_RSocketTransportError',
                e.value.cls.issubclass(E.lookup('rsocket/exceptions.py::RSocketTransportError')))
        return
    E.cover('written')
    calls = log.of(writer)
    names = [c[1] for c in calls]
    E.prove('tcp:drain_once_after_all_writes', names.count('drain') == 1 and names[-1] == 'drain'
            and all(n == 'write' for n in names[:-1]))
    total = M.b_concat_all([c[2][0] for c in calls if c[1] == 'write'])
    E.prove('tcp:bytes_written_equal_length_prefixed_encoding', M.b_eq_goal(E, total, exp, 'tcp'))
