"""C19 - routed dispatch is exact and the authentication gate cannot be bypassed.  (DESIGN 5/C19)
Routes are compared only by equality, so generic distinct route strings stand for all routes (parametricity);
table shapes (registered / not, unknown-route handler / none, for each of the five types) are enumerated."""
import z3

from pyvc.values import *   # noqa
from pyvc.engine import EXC
from pyvc.harness import harness, new_obj, OpaqueLog
from pyvc import models as M
from pyvc import aio

RR = 'rsocket/routing/request_router.py::'
RH = 'rsocket/routing/routing_request_handler.py::RoutingRequestHandler'
TYPES = ['REQUEST_RESPONSE', 'REQUEST_STREAM', 'REQUEST_CHANNEL', 'REQUEST_FNF', 'METADATA_PUSH']
DECOS = {'REQUEST_RESPONSE': 'response', 'REQUEST_STREAM': 'stream', 'REQUEST_CHANNEL': 'channel', 'REQUEST_FNF': 'fire_and_forget',
         'METADATA_PUSH': 'metadata_push'}
PARAMETRIC = 'routes are only compared for equality: generic distinct route strings stand for all routes'


def handler_fn(name, params=('payload',)):
    return SOpaque('callable', name, attrs={'__name__': name, '_params': params})


def sig_hook(E):
    def hook(E_, f):
        params = {}
        for p in f.attrs.get('_params', ()):
            pname, ann = (p, aio.EMPTY) if isinstance(p, str) else p
            params[pname] = SObj(M._builtin_class('Parameter'), {'name': pname, 'annotation': ann})
        return SObj(M._builtin_class('Signature'), {'parameters': params, 'return_annotation': aio.EMPTY})
    E.import_module('inspect')
    E.signature_hook = hook


@harness('c19.registration', ['C19'], functions=[RR + 'decorator_factory', RR + 'RequestRouter.__init__', RR + 'RouteInfo.__init__']
         + [RR + 'RequestRouter.' + d for d in DECOS.values()] + [RR + 'RequestRouter.%s_unknown' % d for d in DECOS.values()],
         assumptions=[PARAMETRIC])
def registration(E):
    sig_hook(E)
    router = E.call(E.lookup(RR + 'RequestRouter'), [])
    ft = E.lookup('rsocket/frame.py::FrameType').members
    tables = {t: E.getattr(router, '_route_map_by_frame_type')[ft[t]] for t in TYPES}
    E.prove('router:five_distinct_empty_tables', len({id(v) for v in tables.values()}) == 5 and all(v == {} for v in tables.values()))
    which = TYPES[E.path.choice(5, 'type')]
    f1, f2 = handler_fn('h1'), handler_fn('h2')
    deco = E.call(E.getattr(router, DECOS[which]), ['r1'])
    r = E.call(deco, [f1])
    E.cover('registered')
    E.prove('register:returns_the_function', r is f1)
    E.prove('register:written_to_exactly_the_table_of_its_decorator',
            all((list(tb) == ['r1'] and tb['r1'].attrs['method'] is f1) if t == which else tb == {} for t, tb in tables.items()))
    try:
        E.call(E.call(E.getattr(router, DECOS[which]), ['r1']), [f2])
        E.prove('register:duplicate_route_rejected', False)
    except PyExc as e:
        E.prove('register:duplicate_route_rejected', e.value.cls.issubclass(EXC['KeyError']) and tables[which]['r1'].attrs['method'] is f1)
    try:
        E.call(E.call(E.getattr(router, DECOS[which]), ['']), [f2])
        E.prove('register:empty_route_rejected', False)
    except PyExc as e:
        E.prove('register:empty_route_rejected', e.value.cls.name == 'RSocketEmptyRoute' and '' not in tables[which])
    E.call(E.call(E.getattr(router, DECOS[which] + '_unknown'), []), [f2])
    unk = router.attrs['_unknown']
    E.prove('register:unknown_handler_stored_for_exactly_that_type',
            all((E.getattr(unk, DECOS[t]) is not None and E.getattr(unk, DECOS[t]).attrs['method'] is f2) if t == which
                else E.getattr(unk, DECOS[t]) is None for t in TYPES))


def build_router(E, log):
    """arbitrary table shape: for every type route 'r1' registered or not, unknown-route handler present or not"""
    sig_hook(E)
    router = E.call(E.lookup(RR + 'RequestRouter'), [])
    shape = {}
    for t in TYPES:
        reg = E.path.choice(2, 'registered[%s]' % t) == 1
        unk = E.path.choice(2, 'unknown[%s]' % t) == 1
        shape[t] = (reg, unk)
        if reg:
            E.call(E.call(E.getattr(router, DECOS[t]), ['r1']), [handler_fn('route:%s:r1' % t)])
        E.call(E.call(E.getattr(router, DECOS[t]), ['r2']), [handler_fn('route:%s:r2' % t)])
        if unk:
            E.call(E.call(E.getattr(router, DECOS[t] + '_unknown'), []), [handler_fn('unknown:%s' % t)])
    return router, shape


@harness('c19.route', ['C19'], functions=[RR + 'RequestRouter.route', RR + 'RequestRouter._get_unknown_route',
                                         RR + 'RequestRouter._collect_route_arguments'], max_paths=200000,
         assumptions=[PARAMETRIC, 'route handlers are abstract callables (may return anything)'])
def route(E):
    result = SOpaque('result', 'handler-result', props={'isinstance:Future': False, 'isinstance:Payload': E.path.choice(2, 'result-is-payload') == 1})
    # a route handler is application code: it may fail with any exception (KeyError, LookupError, ... included)
    log = OpaqueLog(E, returns={'__call__': lambda *a: aio.Awaitable('ready', result=result)}, may_raise=lambda o, m: o.kind == 'callable' and m == '__call__')
    # to keep the enumeration small the table shape of the OTHER types is fixed to "registered + unknown" (worst case for confusion)
    sig_hook(E)
    router = E.call(E.lookup(RR + 'RequestRouter'), [])
    t = TYPES[E.path.choice(5, 'request-type')]
    reg = E.path.choice(2, 'route-registered') == 1
    unk = E.path.choice(2, 'unknown-handler') == 1
    for tt in TYPES:
        if tt != t or reg:
            E.call(E.call(E.getattr(router, DECOS[tt]), ['r1']), [handler_fn('route:%s:r1' % tt)])
        E.call(E.call(E.getattr(router, DECOS[tt]), ['r2']), [handler_fn('route:%s:r2' % tt)])
        if tt != t or unk:
            E.call(E.call(E.getattr(router, DECOS[tt] + '_unknown'), []), [handler_fn('unknown:%s' % tt)])
    E.opaque_isinstance = lambda E_, obj, cls: obj.props.get('isinstance:' + cls.name, False)
    ft = E.lookup('rsocket/frame.py::FrameType').members[t]
    payload = SOpaque('payload', 'payload')
    cm = SOpaque('composite', 'composite-metadata')
    try:
        r = E.await_value(E.call(E.getattr(router, 'route'), [ft, 'r1', payload, cm]))
    except PyExc as e:
        if 'from_opaque' in e.value.attrs:
            # the invoked handler failed: the request fails with exactly that exception - it is NOT re-dispatched (a failing
            # registered handler is not an unknown route), whatever the class of the exception
            E.cover('handler-failed')
            inv = [c for c in log.calls if c[0].kind == 'callable']
            want = 'route:%s:r1' % t if reg else 'unknown:%s' % t
            E.prove('route:a_failing_handler_fails_the_request_and_nothing_else_is_invoked', len(inv) == 1 and inv[0][0].ident == want
                    and (reg or unk))
            return
        E.cover('unknown-route')
        E.prove('route:fails_only_without_registered_and_without_unknown_handler', not reg and not unk)
        E.prove('route:raises_RSocketUnknownRoute_and_invokes_nothing', e.value.cls.name == 'RSocketUnknownRoute'
                and not [c for c in log.calls if c[0].kind == 'callable'])
        return
    E.cover('routed')
    inv = [c for c in log.calls if c[0].kind == 'callable']
    E.prove('route:exactly_one_handler_invoked', len(inv) == 1)
    want = 'route:%s:r1' % t if reg else 'unknown:%s' % t
    E.prove('route:the_handler_registered_for_exactly_this_type_and_route_else_the_unknown_handler_of_this_type', inv[0][0].ident == want)
    E.prove('route:payload_bound_to_the_payload_parameter', inv[0][3] == {'payload': payload})
    if t == 'REQUEST_RESPONSE':
        E.prove('route:plain_response_wrapped_in_resolved_future', isinstance(r, SObj) and r.cls.name == 'Future' and r.attrs['state'] == 'result')
    else:
        E.prove('route:result_passed_through', r is result)


@harness('c19.argument_binding', ['C19'], functions=[RR + 'RequestRouter._collect_route_arguments'])
def binding(E):
    sig_hook(E)
    CMcls = E.lookup('rsocket/extensions/composite_metadata.py::CompositeMetadata')
    Pcls = E.lookup('rsocket/payload.py::Payload')
    custom = SOpaque('class', 'MyDataclass')
    seen = []
    router = E.call(E.lookup(RR + 'RequestRouter'), [Builtin('deserializer', lambda cls, p: (seen.append((cls, p)), SOpaque('obj', 'deserialised'))[1])])
    fn = handler_fn('h', params=('payload', 'composite_metadata', ('meta2', CMcls), ('typed', custom), ('raw', Pcls)))
    info = E.call(E.lookup(RR + 'RouteInfo'), [fn])
    payload, cm = SOpaque('payload', 'payload'), SOpaque('composite', 'cm')
    kw = E.call(E.getattr(router, '_collect_route_arguments'), [info, payload, cm])
    E.cover('bound')
    E.prove('binding:unannotated_parameter_gets_the_payload', kw['payload'] is payload)
    E.prove('binding:parameter_named_composite_metadata_gets_the_parsed_metadata', kw['composite_metadata'] is cm)
    E.prove('binding:parameter_annotated_CompositeMetadata_gets_the_parsed_metadata', kw['meta2'] is cm)
    E.prove('binding:Payload_annotation_gets_the_raw_payload', kw['raw'] is payload)
    E.prove('binding:other_annotation_gets_the_deserialised_payload', kw['typed'].ident == 'deserialised' and seen == [(custom, payload)])
    E.prove('binding:exactly_the_declared_parameters', sorted(kw) == ['composite_metadata', 'meta2', 'payload', 'raw', 'typed'])


from pyvc.engine import Builtin  # noqa: E402

PAR = RH + '._parse_and_route'


def mk_handler(E, with_verifier):
    sig_hook(E)
    router = SOpaque('router', 'router')
    verifier = SOpaque('callable', 'verifier') if with_verifier else None
    h = E.call(E.lookup(RH), [router, verifier])
    return h, router, verifier


def mk_cm(E, route_pos, auth):
    """composite metadata whose routing entry sits at position route_pos (0..2, or None), with / without authentication entry"""
    X = 'rsocket/extensions/'
    H = X + 'helpers.py::'
    items = [E.call(E.lookup(H + 'metadata_item'), [b'x', b'a/b']), E.call(E.lookup(H + 'metadata_item'), [b'y', b'c/d'])]
    tag = E.fresh_bytes('tag', 1, 255)
    rt = E.call(E.lookup(X + 'routing.py::RoutingMetadata'), [[tag, b'second-tag']])
    rt2 = E.call(E.lookup(X + 'routing.py::RoutingMetadata'), [[b'later-route']])
    au = E.call(E.lookup(H + 'authenticate_bearer'), ['tok']) if auth else None
    if route_pos is not None:
        items.insert(route_pos, rt)
        items.append(rt2)
    if au is not None:
        items.insert(E.path.choice(2, 'auth-position') * len(items), au)
    cm = E.call(E.lookup(X + 'composite_metadata.py::CompositeMetadata'), [items])
    return cm, tag, au


@harness('c19.parse_and_route', ['C19', 'C12'], functions=[PAR, RH + '._verify_authentication', RH + '.__init__',
                                                          'rsocket/extensions/helpers.py::require_route'],
         assumptions=['composite metadata decoding is C18; here _parse_composite_metadata is stubbed by an arbitrary parsed item list',
                      'the authentication verifier is an abstract coroutine function: returns normally (accept) or raises (reject)'])
def parse_and_route(E):
    with_verifier = E.path.choice(2, 'verifier-configured') == 1
    h, router, verifier = mk_handler(E, with_verifier)
    pos = [0, 1, 2, None][E.path.choice(4, 'route-entry-position')]
    auth = E.path.choice(2, 'authentication-entry') == 1
    cm, tag, au = mk_cm(E, pos, auth)
    E.stubs['rsocket/request_handler.py::RequestHandler._parse_composite_metadata'] = lambda E_, f, a, k: cm
    rejected = E.path.choice(2, 'verifier-rejects') == 1 if (with_verifier and auth) else False

    def verify(E_, o, m, a, k):
        if rejected:
            raise PyExc(E_.make_exc('Exception', 'rejected'))
        return aio.Awaitable('ready')
    routed = SOpaque('result', 'routed-result')
    log = OpaqueLog(E, returns={('callable', '__call__'): verify, 'route': lambda *a: aio.Awaitable('ready', result=routed)})
    ft = E.lookup('rsocket/frame.py::FrameType').members[TYPES[E.path.choice(5, 'type')]]
    payload = E.call(E.lookup('rsocket/payload.py::Payload'), [b'd', E.fresh_bytes('md')])
    P = E.prove
    def snap(v):
        # containers are compared by content (a cache filled in place is a trace, too)
        if isinstance(v, dict):
            return ('dict', tuple((id(k), id(x)) for k, x in v.items()))
        if isinstance(v, (list, tuple, set, frozenset)):
            return (type(v).__name__, tuple(sorted(id(x) for x in v)))
        if isinstance(v, SObj) and v.cls.name in ('deque',):
            return ('deque', tuple(id(x) for x in v.attrs['items']))
        return ('obj', id(v))
    before = {k: snap(v) for k, v in h.attrs.items()}

    def stateless():
        # frame condition: a request leaves no trace on the handler object, so every request (any history) is decided
        # from the same state as the first one - the gate cannot be opened by an earlier, accepted request
        return set(h.attrs) == set(before) and all(snap(h.attrs[k]) == before[k] for k in before)
    try:
        r = E.await_value(E.call(E.getattr(h, '_parse_and_route'), [ft, payload]))
    except PyExc as e:
        E.cover('refused')
        P('gate:handler_keeps_no_memory_between_requests', stateless())
        routes = log.of(router, 'route')
        P('gate:refused_request_reaches_no_route_handler', routes == [])
        undecodable = e.value.cls.name == 'UnicodeDecodeError'
        P('gate:refusal_only_for_missing_route_undecodable_route_missing_or_rejected_authentication',
          pos is None or undecodable or (with_verifier and (not auth or rejected)))
        return
    E.cover('routed')
    routes = log.of(router, 'route')
    if not stateless():
        # The handler remembers something from this (accepted) request.  Then the single-request contract no longer covers
        # every history, so at least the histories of two requests are checked: whatever came first, a later request on the
        # SAME route that carries no authentication entry, or one the verifier rejects, must not reach a route handler.
        if with_verifier and pos is not None:
            n_routes = len(routes)
            second = E.path.choice(2, 'second-request')          # 0: rejected credentials, 1: no authentication entry
            items2 = [it for it in cm.attrs['items'] if second == 0 or it is not au]
            cm2 = E.call(E.lookup('rsocket/extensions/composite_metadata.py::CompositeMetadata'), [items2])
            E.stubs['rsocket/request_handler.py::RequestHandler._parse_composite_metadata'] = lambda E_, f, a, k: cm2
            log.returns[('callable', '__call__')] = lambda E_, o, m, a, k: (_ for _ in ()).throw(PyExc(E_.make_exc('Exception', 'rejected')))
            try:
                E.await_value(E.call(E.getattr(h, '_parse_and_route'), [ft, payload]))
            except PyExc:
                pass
            P('gate:an_earlier_accepted_request_does_not_open_the_gate_for_a_later_one[same route, %s]'
              % ('rejected credentials' if second == 0 else 'no authentication entry'), len(log.of(router, 'route')) == n_routes)
        raise Unsupported('the routing handler keeps state between requests: only histories of two requests were checked '
                          '(the contract assumes a stateless handler)')
    P('route:router_invoked_exactly_once_with_this_frame_type_payload_and_parsed_metadata',
      len(routes) == 1 and routes[0][2][0] is ft and routes[0][2][2] is payload and routes[0][2][3] is cm and r is routed)
    rstr = routes[0][2][1]
    P('route:route_is_the_first_tag_of_the_first_routing_entry_wherever_it_sits',
      isinstance(rstr, SStr) and E.path.ghost.get('str_bytes', {}).get(rstr.h.get_id()) is tag)
    if with_verifier:
        vc = log.of(verifier)
        P('gate:verifier_awaited_once_with_route_and_first_authentication_entry_BEFORE_routing',
          len(vc) == 1 and vc[0][2][0] is rstr and vc[0][2][1] is au.attrs['authentication']
          and log.calls.index(vc[0]) < log.calls.index(routes[0]))
        P('gate:routing_only_with_accepted_authentication', auth and not rejected)
    else:
        P('gate:no_verifier_no_gate', not log.of(verifier) if verifier else True)


@harness('c19.gate.with_real_router', ['C19', 'C12'], functions=[PAR, RH + '._verify_authentication', RR + 'RequestRouter.route',
                                                               RR + 'RequestRouter._get_unknown_route'], max_paths=200000,
         assumptions=[PARAMETRIC, 'route handlers and the verifier are abstract callables; composite metadata decoding is C18'])
def gate_with_real_router(E):
    """The gate composed with the REAL router (c19.parse_and_route uses an abstract one): with a verifier configured, a
    request that carries no authentication entry or that the verifier rejects runs NO handler of the router - neither the
    registered one nor the unknown-route handler of its type - whether or not its route is registered."""
    sig_hook(E)
    router = E.call(E.lookup(RR + 'RequestRouter'), [])
    t = TYPES[E.path.choice(5, 'request-type')]
    reg = E.path.choice(2, 'route-registered') == 1
    unk = E.path.choice(2, 'unknown-handler') == 1
    if reg:
        E.call(E.call(E.getattr(router, DECOS[t]), ['r1']), [handler_fn('route:%s:r1' % t)])
    E.call(E.call(E.getattr(router, DECOS[t]), ['r2']), [handler_fn('route:%s:r2' % t)])
    if unk:
        E.call(E.call(E.getattr(router, DECOS[t] + '_unknown'), []), [handler_fn('unknown:%s' % t)])
    verifier = SOpaque('callable', 'verifier')
    h = E.call(E.lookup(RH), [router, verifier])
    auth = E.path.choice(2, 'authentication-entry') == 1
    Xd = 'rsocket/extensions/'
    items = [E.call(E.lookup(Xd + 'routing.py::RoutingMetadata'), [[b'r1']])]
    au = None
    if auth:
        au = E.call(E.lookup(Xd + 'helpers.py::authenticate_bearer'), ['tok'])
        items.insert(E.path.choice(2, 'auth-position'), au)
    cm = E.call(E.lookup(Xd + 'composite_metadata.py::CompositeMetadata'), [items])
    E.stubs['rsocket/request_handler.py::RequestHandler._parse_composite_metadata'] = lambda E_, f, a, k: cm
    rejected = E.path.choice(2, 'verifier-rejects') == 1 if auth else False
    result = SOpaque('result', 'handler-result', props={'isinstance:Future': False, 'isinstance:Payload': True})
    E.opaque_isinstance = lambda E_, obj, cls: obj.props.get('isinstance:' + cls.name, False)

    def call(E_, o, m, a, k):
        if o is verifier:
            if rejected:
                raise PyExc(E_.make_exc('Exception', 'rejected'))
            return aio.Awaitable('ready')
        return aio.Awaitable('ready', result=result)
    log = OpaqueLog(E, returns={('callable', '__call__'): call})
    ft = E.lookup('rsocket/frame.py::FrameType').members[t]
    payload = E.call(E.lookup('rsocket/payload.py::Payload'), [b'd', b'md'])
    try:
        E.await_value(E.call(E.getattr(h, '_parse_and_route'), [ft, payload]))
        refused = False
    except PyExc as e:
        refused = True
    E.cover('handled')
    ran = [c[0].ident for c in log.calls if c[0].kind == 'callable' and c[0] is not verifier]
    if not auth or rejected:
        E.prove('gate:without_accepted_authentication_no_handler_of_the_router_runs[registered route or not, unknown-route handler or not]',
                ran == [] and refused)
    else:
        want = ['route:%s:r1' % t] if reg else (['unknown:%s' % t] if unk else [])
        E.prove('gate:with_accepted_authentication_exactly_the_handler_the_router_selects_runs', ran == want and refused == (not want))
        E.prove('gate:verifier_consulted_once_before_any_handler', [c[0] for c in log.calls][:1] == [verifier]
                and len(log.of(verifier)) == 1)


def _entry(name, tname):
    def run(E):
        h, router, verifier = mk_handler(E, False)
        seen = []
        outcome = E.path.choice(2, 'routing-fails')
        boom = E.make_exc('ValueError', 'boom')
        ok = SOpaque('result', 'routed')

        def par(E_, f, a, k):
            seen.append(a[1:])
            if outcome:
                raise PyExc(boom)
            return aio.Awaitable('ready', result=ok)
        E.stubs[PAR] = par
        payload = SOpaque('payload', 'payload')
        try:
            r = E.await_value(E.call(E.getattr(h, name), [payload]))
        except PyExc as e:
            E.cover('escaped')
            E.prove('%s:failure_confined_to_this_request' % name, False)
            return
        E.cover('returned')
        ft = E.lookup('rsocket/frame.py::FrameType').members[tname]
        E.prove('%s:routes_with_its_own_interaction_type_once' % name, len(seen) == 1 and seen[0][0] is ft and seen[0][1] is payload)
        if not outcome:
            E.prove('%s:returns_what_the_route_returned' % name, r is ok if name not in ('request_fire_and_forget', 'on_metadata_push') else r is None)
        elif name == 'request_response':
            E.prove('request_response:failure_becomes_an_error_future', isinstance(r, SObj) and r.cls.name == 'Future'
                    and r.attrs['state'] == 'exception' and r.attrs['value'] is boom)
        elif name == 'request_stream':
            E.prove('request_stream:failure_becomes_an_error_stream', isinstance(r, SObj) and r.cls.name == 'ErrorStream' and r.attrs['_exception'] is boom)
        elif name == 'request_channel':
            E.prove('request_channel:failure_becomes_error_stream_and_null_subscriber', isinstance(r, tuple) and r[0].cls.name == 'ErrorStream'
                    and r[0].attrs['_exception'] is boom and r[1].cls.name == 'NullSubscriber')
        else:
            E.prove('%s:failure_swallowed' % name, r is None)
    return run


for _n, _t in (('request_response', 'REQUEST_RESPONSE'), ('request_stream', 'REQUEST_STREAM'), ('request_channel', 'REQUEST_CHANNEL'),
               ('request_fire_and_forget', 'REQUEST_FNF'), ('on_metadata_push', 'METADATA_PUSH')):
    harness('c19.entry.%s' % _n, ['C19', 'C12'], functions=[RH + '.' + _n])(_entry(_n, _t))


@harness('c19.error_stream', ['C19', 'C12'], functions=['rsocket/streams/error_stream.py::ErrorStream.request', 'rsocket/streams/error_stream.py::ErrorStream.__init__'])
def error_stream(E):
    ex = E.make_exc('ValueError', 'boom')
    es = E.call(E.lookup('rsocket/streams/error_stream.py::ErrorStream'), [ex])
    sub = SOpaque('subscriber', 'sub')
    log = OpaqueLog(E)
    E.call(E.getattr(es, 'subscribe'), [sub])
    E.call(E.getattr(es, 'request'), [E.fresh_int('n', 1)])
    E.cover('requested')
    E.prove('error_stream:on_subscribe_then_the_error_once', [(c[1], c[2]) for c in log.of(sub)] == [('on_subscribe', (es,)), ('on_error', (ex,))])


@harness('c19.on_setup', ['C19', 'C16'], functions=[RH + '.on_setup'])
def on_setup(E):
    h, router, verifier = mk_handler(E, False)
    good = E.path.choice(2, 'composite-metadata-encoding') == 1
    menc = b'message/x.rsocket.composite-metadata.v0' if good else b'application/json'
    try:
        E.await_value(E.call(E.getattr(h, 'on_setup'), [b'application/json', menc, SOpaque('payload', 'p')]))
    except PyExc as e:
        E.cover('rejected')
        E.prove('on_setup:rejects_only_non_composite_metadata_encoding', not good)
        return
    E.cover('accepted')
    E.prove('on_setup:accepts_composite_metadata_and_records_encodings', good and lift_bytes(h.attrs['metadata_encoding']).conc == menc)
