"""C02 - frame codec: encode = wire-format spec, decode(encode(f)) = f, canonical re-encoding,
incremental (prefix + data/metadata writes) form = one-shot form with a correct length, both codec back ends.
(DESIGN 5/C02, Appendix D)"""
import z3

from pyvc.values import *   # noqa
from pyvc.engine import EXC
from pyvc.harness import harness, both_backends, new_obj, OpaqueLog
from pyvc import models as M
from contracts import spec_wire as W

FR = 'rsocket/frame.py::'
CLASSES = {
    W.T_SETUP: 'SetupFrame', W.T_LEASE: 'LeaseFrame', W.T_KEEPALIVE: 'KeepAliveFrame', W.T_RR: 'RequestResponseFrame',
    W.T_FNF: 'RequestFireAndForgetFrame', W.T_STREAM: 'RequestStreamFrame', W.T_CHANNEL: 'RequestChannelFrame',
    W.T_REQUEST_N: 'RequestNFrame', W.T_CANCEL: 'CancelFrame', W.T_PAYLOAD: 'PayloadFrame', W.T_ERROR: 'ErrorFrame',
    W.T_MDPUSH: 'MetadataPushFrame', W.T_RESUME: 'ResumeFrame', W.T_RESUME_OK: 'ResumeOKFrame'}
HAS_MD = {W.T_SETUP, W.T_LEASE, W.T_RR, W.T_FNF, W.T_STREAM, W.T_CHANNEL, W.T_PAYLOAD, W.T_MDPUSH}
HAS_DATA = {W.T_SETUP, W.T_KEEPALIVE, W.T_RR, W.T_FNF, W.T_STREAM, W.T_CHANNEL, W.T_PAYLOAD, W.T_ERROR}

CODEC_FUNCS = [FR + 'Frame.serialize', FR + 'Frame.serialize_frame_prefix', FR + 'Frame.compute_frame_length',
               FR + 'Frame._compute_data_metadata_length', FR + 'Frame._compute_frame_prefix_length',
               FR + 'Frame.parse_metadata', FR + 'Frame.parse_data', FR + 'parse_or_ignore', FR + 'is_frame_to_ignore',
               FR + 'parse_header_native', FR + 'parse_header_cbitstruct', FR + 'Frame.write_data_metadata',
               FR + 'serialize_with_frame_size_header', FR + 'serialize_prefix_with_frame_size_header']

ASSUME = ['struct / cbitstruct C code behaves as modelled (big-endian fixed-width fields, MSB-first bit fields); '
          'conformance-checked against the real modules (bounded) by pyvc.conformance',
          'value domain = the wire format ranges: 31-bit stream id, 32-bit counters, 63-bit positions, 0..127-byte MIME '
          'strings, token length = len(token) <= 65535, metadata < 2^24 bytes, no metadata on KEEPALIVE/ERROR/REQUEST_N/CANCEL/RESUME*']


def sym_payload_part(E, name, kind, maxlen=None):
    if kind == 'none':
        return None
    if kind == 'empty':
        return b''
    return E.input(name, E.fresh_bytes(name, 0, maxlen))


def make_fields(E, t, md_kind, data_kind):
    f = {}
    f['stream_id'] = E.input('stream_id', E.fresh_int('stream_id', 0, 0x7FFFFFFF)) if t != W.T_MDPUSH else 0
    f['flags_ignore'] = E.input('flags_ignore', E.fresh_bool('flags_ignore'))
    if t in HAS_MD:
        f['metadata'] = sym_payload_part(E, 'metadata', md_kind, (1 << 24) - 1)
    if t in HAS_DATA:
        f['data'] = sym_payload_part(E, 'data', data_kind)

    def u(name, bits):
        f[name] = E.input(name, E.fresh_int(name, 0, (1 << bits) - 1))

    def flag(name):
        f[name] = E.input(name, E.fresh_bool(name))
    if t == W.T_SETUP:
        u('major_version', 16), u('minor_version', 16), u('keep_alive_milliseconds', 32), u('max_lifetime_milliseconds', 32)
        flag('flags_lease')
        f['flags_resume'] = E.path.choice(2, 'resume') == 1
        if f['flags_resume']:
            tok = E.input('resume_identification_token', E.fresh_bytes('token', 0, 65535))
            f['resume_identification_token'] = tok
            f['token_length'] = mk_int(tok.len_term())
        f['metadata_encoding'] = E.input('metadata_encoding', E.fresh_bytes('mdenc', 0, 127))
        f['data_encoding'] = E.input('data_encoding', E.fresh_bytes('denc', 0, 127))
    elif t == W.T_LEASE:
        u('time_to_live', 31), u('number_of_requests', 31)
    elif t == W.T_KEEPALIVE:
        flag('flags_respond'), u('last_received_position', 63)
    elif t in (W.T_RR, W.T_FNF):
        flag('flags_follows')
    elif t == W.T_STREAM:
        flag('flags_follows'), u('initial_request_n', 32)
    elif t == W.T_CHANNEL:
        flag('flags_follows'), flag('flags_complete'), u('initial_request_n', 32)
    elif t == W.T_REQUEST_N:
        u('request_n', 32)
    elif t == W.T_PAYLOAD:
        flag('flags_follows'), flag('flags_complete'), flag('flags_next')
    elif t == W.T_ERROR:
        codes = list(E.lookup('rsocket/error_codes.py::ErrorCode').members.values())
        f['error_code'] = E.input('error_code', codes[E.path.choice(len(codes), 'error_code')])
    elif t == W.T_RESUME:
        u('major_version', 16), u('minor_version', 16), u('last_server_position', 63), u('first_client_position', 63)
        tok = E.input('resume_identification_token', E.fresh_bytes('token', 0, 65535))
        f['resume_identification_token'] = tok
        f['token_length'] = mk_int(tok.len_term())
    elif t == W.T_RESUME_OK:
        u('last_received_client_position', 63)
    return f


def make_frame(E, t, f):
    """Build the frame with the REAL constructor, then set the fields like the library's builders do."""
    cls = E.lookup(FR + CLASSES[t])
    fr = E.call(cls, [])
    for k, v in f.items():
        E.setattr(fr, k, v)
    return fr


def same_bytes(E, a, b, tag):
    return M.b_eq_goal(E, W.bval(a), W.bval(b), tag)


def shapes_for(t):
    mds = ['none', 'bytes'] if t in HAS_MD else ['-']
    ds = ['none', 'bytes'] if t in HAS_DATA else ['-']
    if t == W.T_MDPUSH:
        mds = ['bytes']
    return [(m, d) for m in mds for d in ds]


# --------------------------------------------------------------------------- (a) encode = spec

def _encode(t, mdk, dk):
    def run(E):
        f = make_fields(E, t, mdk, dk)
        fr = make_frame(E, t, f)
        out = E.call(E.getattr(fr, 'serialize'), [])
        E.cover('serialized')
        exp = W.ENC(t, f)
        E.prove('encode:bytes_equal_wire_format', M.b_eq_goal(E, out, exp, 'enc'))
        E.prove('encode:length_field', I(E.getattr(fr, 'length')) == lift_bytes(exp).len_term())
        E.prove('encode:is_bytes', isinstance(out, (SBytes, bytes)))
    return run


# --------------------------------------------------------------------------- (b)+(c) decode(encode) = id, canonical re-encoding

FIELDS_BACK = {
    W.T_SETUP: ['major_version', 'minor_version', 'keep_alive_milliseconds', 'max_lifetime_milliseconds', 'flags_lease',
                'flags_resume', 'metadata_encoding', 'data_encoding'],
    W.T_LEASE: ['time_to_live', 'number_of_requests'],
    W.T_KEEPALIVE: ['flags_respond', 'last_received_position'],
    W.T_RR: ['flags_follows'], W.T_FNF: ['flags_follows'],
    W.T_STREAM: ['flags_follows', 'initial_request_n'],
    W.T_CHANNEL: ['flags_follows', 'flags_complete', 'initial_request_n'],
    W.T_REQUEST_N: ['request_n'], W.T_CANCEL: [], W.T_PAYLOAD: ['flags_follows', 'flags_complete'],
    W.T_ERROR: ['error_code'], W.T_MDPUSH: [],
    W.T_RESUME: ['major_version', 'minor_version', 'last_server_position', 'first_client_position'],
    W.T_RESUME_OK: ['last_received_client_position'],
}


def field_eq(E, a, b, tag):
    if is_byteslike(a) or is_byteslike(b) or a is None or b is None:
        return same_bytes(E, a, b, tag)
    if isinstance(a, (bool, SBool)) or isinstance(b, (bool, SBool)):
        ta, tb = E.truth(a), E.truth(b)
        return B(ta) == B(tb)
    if isinstance(a, EnumMember) or isinstance(b, EnumMember):
        return a == b
    return I(a) == I(b)


def _decode(t, mdk, dk):
    def run(E):
        f = make_fields(E, t, mdk, dk)
        buf = W.ENC(t, f)
        g = E.call(E.lookup(FR + 'parse_or_ignore'), [buf])
        E.cover('parsed')
        E.prove('decode:returns_frame_of_same_type', isinstance(g, SObj) and g.cls is E.lookup(FR + CLASSES[t]))
        if not isinstance(g, SObj):
            return
        E.prove('decode:stream_id', I(E.getattr(g, 'stream_id')) == I(f['stream_id']))
        E.prove('decode:flags_ignore', B(E.truth(E.getattr(g, 'flags_ignore'))) == B(f['flags_ignore']))
        E.prove('decode:frame_type', E.getattr(g, 'frame_type').value == t)
        for name in FIELDS_BACK[t]:
            E.prove('decode:%s' % name, field_eq(E, E.getattr(g, name), f[name], name))
        if t in HAS_MD:
            E.prove('decode:metadata', same_bytes(E, E.getattr(g, 'metadata'), f['metadata'], 'md'))
        if t in HAS_DATA:
            E.prove('decode:data', same_bytes(E, E.getattr(g, 'data'), f['data'], 'd'))
        if t in (W.T_SETUP, W.T_RESUME) and f.get('flags_resume', True) is True:
            E.prove('decode:resume_token', same_bytes(E, E.getattr(g, 'resume_identification_token'),
                                                      f['resume_identification_token'], 'tok'))
            E.prove('decode:token_length', I(E.getattr(g, 'token_length')) == I(f['token_length']))
        if t == W.T_PAYLOAD:
            content = z3.Or(W.blen(f.get('metadata')) > 0, W.blen(f.get('data')) > 0)
            E.prove('decode:payload_with_content_has_next', z3.Implies(content, B(E.truth(E.getattr(g, 'flags_next')))))
            E.prove('decode:flags_next', B(E.truth(E.getattr(g, 'flags_next'))) == z3.Or(B(f['flags_next']), content))
        # canonical re-encoding
        out2 = E.call(E.getattr(g, 'serialize'), [])
        E.prove('reencode:same_bytes', M.b_eq_goal(E, out2, buf, 'reenc'))
    return run


# --------------------------------------------------------------------------- (d) incremental form

def _partial(t, mdk, dk):
    def run(E):
        f = make_fields(E, t, mdk, dk)
        fr = make_frame(E, t, f)
        enc = W.ENC(t, f)
        # the 3-byte length prefix can only state lengths < 2^24 (wire-format range of the quantifier)
        E.assume(lift_bytes(enc).len_term() < (1 << 24))
        exp = W.with_length_prefix(enc)
        prefix = E.call(E.lookup(FR + 'serialize_prefix_with_frame_size_header'), [fr])
        written = []
        writer = Builtin('writer.write', lambda b: written.append(b))
        E.call(E.getattr(fr, 'write_data_metadata'), [writer])
        E.cover('written')
        total = M.b_concat_all([prefix] + written)
        E.prove('partial:prefix+writes_equal_length_prefixed_encoding', M.b_eq_goal(E, total, exp, 'part'))
        E.prove('partial:at_most_two_writes', len(written) <= 2)
        if len(written) == 2:
            E.prove('partial:metadata_written_before_data',
                    z3.And(M.b_eq_goal(E, written[0], W.bval(f.get('metadata')), 'w0'),
                           M.b_eq_goal(E, written[1], W.bval(f.get('data')), 'w1')))
        fr2 = make_frame(E, t, f)
        one = E.call(E.lookup(FR + 'serialize_with_frame_size_header'), [fr2])
        E.prove('oneshot:equals_length_prefixed_encoding', M.b_eq_goal(E, one, exp, 'one'))
    return run


from pyvc.engine import Builtin  # noqa: E402

for _t, _name in CLASSES.items():
    for (_m, _d) in shapes_for(_t):
        _sh = 'md=%s,data=%s' % (_m, _d)
        both_backends('c02.encode.%s[%s]' % (_name, _sh), ['C02', 'C01'], functions=CODEC_FUNCS, replay='c02_roundtrip',
                      assumptions=ASSUME)(_encode(_t, _m, _d))
        both_backends('c02.decode.%s[%s]' % (_name, _sh), ['C02', 'C01', 'C04'], functions=CODEC_FUNCS,
                      replay='c02_roundtrip', assumptions=ASSUME)(_decode(_t, _m, _d))
        both_backends('c02.partial.%s[%s]' % (_name, _sh), ['C02'], functions=CODEC_FUNCS, replay='c02_roundtrip',
                      assumptions=ASSUME)(_partial(_t, _m, _d))
