"""K-HANDLER contracts (DESIGN Appendix A.1-A.4): request-response and request-stream handlers.
Clauses are tagged with the properties they serve: C07 (terminal at most once), C08 (legal emission),
C09 (cancellation), C10 (no state survives), C01 (delivery hop), C06 (credit forwarding), C11/C12."""
import z3

from pyvc.values import *   # noqa
from pyvc.engine import EXC
from pyvc.harness import harness, new_obj
from pyvc import models as M
from pyvc import aio
from contracts.khandler import *   # noqa
from contracts import khandler as K

RRQ = H + 'request_response_requester.py::RequestResponseRequester'
RRS = H + 'request_response_responder.py::RequestResponseResponder'
SRQ = H + 'request_stream_requester.py::RequestStreamRequester'
SRS = H + 'request_stream_responder.py::RequestStreamResponder'
SH = 'rsocket/streams/stream_handler.py::StreamHandler'
PROPS = ['C07', 'C08', 'C09', 'C10', 'C01']


def mk_payload(E):
    shape = E.path.choice(3, 'request-payload')
    data = None if shape == 0 else E.fresh_bytes('pdata')
    md = None if shape != 2 else E.fresh_bytes('pmeta')
    return E.call(E.lookup('rsocket/payload.py::Payload'), [data, md]), data, md


# =========================================================================== A.1 RequestResponseRequester

def mk_rrq(E, fstate='pending'):
    c = K.Ctx(E, fragment_size=E.fresh_int('fs', 64) if E.path.choice(2, 'fs') else None)
    p, data, md = mk_payload(E)
    h = E.call(E.lookup(RRQ), [c.sock, p])
    sid = E.fresh_int('sid', 1, 0x7FFFFFFF)
    h.attrs['stream_id'] = sid
    E.call(E.getattr(h, 'setup'), [])
    fut = h.attrs['_future']
    return c, h, sid, fut, (p, data, md)


@harness('k.rr_requester.run', ['C01', 'C08'], functions=[RRQ + '.__init__', RRQ + '.setup', RRQ + '.run'])
def rrq_run(E):
    c, h, sid, fut, (p, data, md) = mk_rrq(E)
    E.prove('setup:done_callback_registered_once', len(fut.attrs['callbacks']) == 1)
    r = E.call(E.getattr(h, 'run'), [])
    E.cover('run')
    em = c.emissions()
    E.prove('run:emits_exactly_one_request', len(em) == 1 and em[0][1] == 'send_request')
    f = em[0][2][0]
    E.prove('run:REQUEST_RESPONSE_on_own_stream', is_frame(f, 'RequestResponseFrame') and E.getattr(f, 'stream_id') is sid)
    E.prove('run:carries_exactly_the_payload', E.getattr(f, 'data') is data and E.getattr(f, 'metadata') is md)
    E.prove('run:fragment_size_is_the_configured_one', E.getattr(f, 'fragment_size_bytes') is c.fs)
    E.prove('run:returns_own_future', r is fut and fut.attrs['state'] == 'pending')
    E.prove('run:stream_stays_registered', len(c.finishes()) == 0)


def _rrq_frame(kind, fstate):
    def run(E):
        c, h, sid, fut, _ = mk_rrq(E)
        if fstate == 'cancelled':
            # the application cancelled the awaitable; the done-callback is queued but has not run yet
            E.call(E.getattr(fut, 'cancel'), [])
        if kind == 'payload':
            f, data, md = sym_payload_frame(E, sid)
        else:
            f = error_frame(E, sid)
        n0 = len(E.path.ghost.get('events', []))
        try:
            E.call(E.getattr(h, 'frame_received'), [f])
        except PyExc as e:
            E.cover('raised')
            E.prove('frame_received:never_raises[%s,future %s]' % (kind, fstate), False)
            return
        E.cover('handled')
        E.prove('frame_received:emits_nothing', len(c.emissions()) == 0)
        ev = [e for e in E.path.ghost.get('events', [])[n0:] if e[0].startswith('future.')]
        if fstate == 'pending':
            E.prove('frame_received:future_resolved_exactly_once', len(ev) == 1 and fut.attrs['state'] == ('result' if kind == 'payload' else 'exception'))
            if kind == 'payload':
                E.prove('frame_received:result_is_the_frame_payload', payload_is(E, fut.attrs['value'], data, md))
            else:
                ex = fut.attrs['value']
                E.prove('frame_received:error_carries_the_code',
                        isinstance(ex, SObj) and (ex.attrs.get('error_code') is E.getattr(f, 'error_code')
                                                  or E.getattr(f, 'error_code').name == 'APPLICATION_ERROR'))
            E.prove('frame_received:stream_released_once', [x[2][0] for x in c.finishes()] == [sid])
        else:
            E.prove('frame_received:cancelled_future_left_alone', len(ev) == 0 and fut.attrs['state'] == 'cancelled')
            # the race resolves when the queued done-callback runs: however the response and the cancellation crossed,
            # the interaction is over and the stream has to be released (exactly once)
            for cb, f_ in list(E.path.ghost.get('call_soon', [])):
                E.call(cb, [f_])
            E.prove('@C10,C07,C09:race:stream_released_once_the_done_callback_has_run[response crossed the cancellation]',
                    [x[2][0] for x in c.finishes()] == [sid])
            E.prove('@C08,C09:race:at_most_one_CANCEL_and_nothing_else_emitted',
                    len(c.emissions()) <= 1 and all(is_frame(x[2][0], 'CancelFrame') for x in c.emissions()))
    return run


for _k in ('payload', 'error'):
    for _s in ('pending', 'cancelled'):
        harness('k.rr_requester.frame_received[%s,future=%s]' % (_k, _s), ['C07', 'C08', 'C09', 'C10', 'C01', 'C11', 'C12'],
                functions=[RRQ + '.frame_received', 'rsocket/frame.py::error_frame_to_exception', 'rsocket/helpers.py::payload_from_frame'],
                replay='k_rr_requester',
                assumptions=['asyncio.Future model: set_result/set_exception on a done future raise InvalidStateError; done-callbacks '
                             'never run synchronously (Appendix B)'])(_rrq_frame(_k, _s))


@harness('k.rr_requester.on_future_complete', ['C09', 'C08', 'C10', 'C07'], functions=[RRQ + '._on_future_complete', RRQ + '.cancel',
                                                                                   SH + '.send_cancel', SH + '._finish_stream'])
def rrq_done(E):
    c, h, sid, fut, _ = mk_rrq(E)
    how = E.path.choice(3, 'completion')
    if how == 0:
        E.call(E.getattr(fut, 'cancel'), [])
    elif how == 1:
        E.call(E.getattr(fut, 'set_result'), [SOpaque('payload', 'p')])
    else:
        E.call(E.getattr(fut, 'set_exception'), [E.make_exc('RuntimeError')])
    cbs = E.path.ghost.get('call_soon', [])
    E.prove('callback:scheduled_once', len(cbs) == 1)
    E.call(cbs[0][0], [cbs[0][1]])
    E.cover('callback-ran')
    em = c.emissions()
    if how == 0:
        E.prove('cancel:exactly_one_CANCEL_on_own_stream',
                len(em) == 1 and em[0][1] == 'send_frame' and is_frame(em[0][2][0], 'CancelFrame') and E.getattr(em[0][2][0], 'stream_id') is sid)
        E.prove('cancel:stream_released', [x[2][0] for x in c.finishes()] == [sid])
        E.prove('cancel:CANCEL_precedes_release', [m for (k, m) in c.order()] == ['send_frame', 'finish_stream'])
    else:
        E.prove('callback:normal_completion_emits_nothing', len(em) == 0 and len(c.finishes()) == 0)


# =========================================================================== A.2 RequestResponseResponder

@harness('k.rr_responder', ['C01', 'C07', 'C08', 'C09', 'C10', 'C11', 'C12'],
         functions=[RRS + '.__init__', RRS + '.setup', RRS + '.future_done', RRS + '.frame_received', RRS + '.dispose'])
def rr_responder(E):
    c = K.Ctx(E, fragment_size=None)
    fut = aio.new_future(E)
    h = E.call(E.lookup(RRS), [c.sock, fut])
    sid = E.fresh_int('sid', 1, 0x7FFFFFFF)
    h.attrs['stream_id'] = sid
    E.call(E.getattr(h, 'setup'), [])
    E.prove('setup:future_done_registered_once', len(fut.attrs['callbacks']) == 1)
    scenario = E.path.choice(5, 'scenario')
    p = SOpaque('payload', 'response')
    ex = E.make_exc('RuntimeError', 'boom')
    if scenario == 0:
        E.call(E.getattr(fut, 'set_result'), [p])
    elif scenario == 1:
        E.call(E.getattr(fut, 'set_exception'), [ex])
    elif scenario == 2:
        E.call(E.getattr(fut, 'cancel'), [])
    elif scenario == 3:
        f = frame(E, 'CancelFrame', sid)
        E.call(E.getattr(h, 'frame_received'), [f])
        E.cover('cancel-frame')
        E.prove('CANCEL:handler_future_cancelled', fut.attrs['state'] == 'cancelled')
        E.prove('CANCEL:stream_released_nothing_emitted', [x[2][0] for x in c.finishes()] == [sid] and not c.emissions())
    else:
        other = [frame(E, 'RequestNFrame', sid, request_n=5), frame(E, 'PayloadFrame', sid)][E.path.choice(2, 'other-frame')]
        E.call(E.getattr(h, 'frame_received'), [other])
        E.cover('other-frame')
        E.prove('other_frames:ignored', fut.attrs['state'] == 'pending' and not c.emissions() and not c.finishes())
        E.call(E.getattr(h, 'dispose'), [])
        E.prove('dispose:cancels_handler_future', fut.attrs['state'] == 'cancelled')
    nfin = len(c.finishes())
    for cb, f_ in list(E.path.ghost.get('call_soon', [])):
        E.call(cb, [f_])
    E.cover('callbacks-ran')
    em = c.emissions()
    if scenario == 0:
        E.prove('result:one_PAYLOAD_complete_next_on_own_stream',
                len(em) == 1 and em[0][1] == 'send_payload' and em[0][2][0] is sid and em[0][2][1] is p
                and em[0][3].get('complete') is True and em[0][3].get('is_next', True) is True)
    elif scenario == 1:
        E.prove('exception:one_ERROR_on_own_stream', len(em) == 1 and em[0][1] == 'send_error' and em[0][2][0] is sid and em[0][2][1] is ex)
    else:
        E.prove('cancelled:nothing_emitted', len(em) == 0)
    E.prove('always:stream_released', len(c.finishes()) >= 1 and all(x[2][0] is sid for x in c.finishes()))
    E.prove('always:emission_precedes_release', not em or c.order().index(('socket', em[0][1])) < c.order().index(('socket', 'finish_stream')))


# =========================================================================== A.3 RequestStreamRequester

def reenter_choices(ctx, obj, method):
    """Application re-entrancy from a subscriber callback: nothing | Subscription.request(n) | Subscription.cancel()."""
    E = ctx.E
    sub = ctx.subscription
    if sub is None:
        return
    ch = E.path.choice(3, 'reenter@%s' % method)
    if ch == 1:
        E.call(E.getattr(sub, 'request'), [E.fresh_int('reenter.n', 1, 0x7FFFFFFF)])
    elif ch == 2:
        E.call(E.getattr(sub, 'cancel'), [])


def mk_srq(E, subscribed=True, reenter=False):
    c = K.Ctx(E, fragment_size=E.fresh_int('fs', 64) if E.path.choice(2, 'fs') else None,
              reenter=reenter_choices if reenter else None)
    p, data, md = mk_payload(E)
    h = E.call(E.lookup(SRQ), [c.sock, p])
    c.subscription = h
    sid = E.fresh_int('sid', 1, 0x7FFFFFFF)
    h.attrs['stream_id'] = sid
    sub = SOpaque('subscriber', 'app-subscriber')
    return c, h, sid, sub, (p, data, md)


@harness('k.stream_requester.subscribe', ['C01', 'C07', 'C08', 'C06'],
         functions=[SRQ + '.__init__', SRQ + '.subscribe', SRQ + '._send_stream_request', SH + '.initial_request_n',
                    'rsocket/helpers.py::DefaultPublisherSubscription.subscribe'], replay='k_stream_requester_subscribe')
def srq_subscribe(E):
    c, h, sid, sub, (p, data, md) = mk_srq(E, reenter=True)
    n = None
    if E.path.choice(2, 'initial_request_n'):
        n = E.fresh_int('n')
        try:
            chained = E.call(E.getattr(h, 'initial_request_n'), [n])
            E.prove('initial_request_n:returns_the_stream_itself[the documented call chain .initial_request_n(n).subscribe(s)]', chained is h)
        except PyExc as e:
            E.cover('bad-n')
            E.prove('initial_request_n:rejects_only_non_positive', I(n) <= 0)
            E.prove('initial_request_n:raises_RSocketValueError', e.value.cls.issubclass(E.lookup('rsocket/exceptions.py::RSocketValueError')))
            E.prove('initial_request_n:rejected_stream_released_nothing_emitted',
                    [x[2][0] for x in c.finishes()] == [sid] and not c.emissions())
            return
        E.prove('initial_request_n:accepts_only_positive', I(n) > 0)
    E.call(E.getattr(h, 'subscribe'), [sub])
    E.cover('subscribed')
    sig = c.signals(sub)
    E.prove('subscribe:on_subscribe_first_and_once', len(sig) >= 1 and sig[0][1] == 'on_subscribe' and sig[0][2][0] is h
            and [s[1] for s in sig].count('on_subscribe') == 1)
    em = c.emissions()
    reqs = [x for x in em if x[1] == 'send_request']
    E.prove('subscribe:exactly_one_request_frame', len(reqs) == 1)
    f = reqs[0][2][0]
    E.prove('subscribe:REQUEST_STREAM_with_payload_on_own_stream',
            is_frame(f, 'RequestStreamFrame') and E.getattr(f, 'stream_id') is sid and E.getattr(f, 'data') is data
            and E.getattr(f, 'metadata') is md and E.getattr(f, 'fragment_size_bytes') is c.fs)
    want = 0x7FFFFFFF if n is None else n
    E.prove('subscribe:initial_request_n_transmitted_exactly', I(E.getattr(f, 'initial_request_n')) == I(want))
    E.prove('subscribe:initial_request_n_positive', I(E.getattr(f, 'initial_request_n')) > 0)
    E.prove('subscribe:request_frame_is_the_first_frame_on_the_stream[re-entrant request/cancel in on_subscribe]', em[0] is reqs[0])
    # the subscriber that was given is the one elements are delivered to (two-step: subscribe, then a frame arrives)
    if not c.finishes():
        f2, d2, m2 = sym_payload_frame(E, sid)
        E.setattr(f2, 'flags_next', True)
        E.setattr(f2, 'flags_complete', False)
        before = len(c.signals(sub))
        E.call(E.getattr(h, 'frame_received'), [f2])
        after = c.signals(sub)[before:]
        E.prove('subscribe:elements_arriving_afterwards_reach_exactly_that_subscriber',
                len(after) >= 1 and after[0][1] == 'on_next' and payload_is(E, after[0][2][0], d2, m2))


def _srq_action(action):
    def run(E):
        c, h, sid, sub, _ = mk_srq(E)
        h.attrs['_subscriber'] = sub
        if action == 'request':
            n = E.fresh_int('n', 1, 0x7FFFFFFF)
            E.call(E.getattr(h, 'request'), [n])
            E.cover('requested')
            em = c.emissions()
            E.prove('request:exactly_one_REQUEST_N_with_exactly_n',
                    len(em) == 1 and em[0][1] == 'send_frame' and is_frame(em[0][2][0], 'RequestNFrame')
                    and E.getattr(em[0][2][0], 'stream_id') is sid and E.getattr(em[0][2][0], 'request_n') is n)
            E.prove('request:stream_stays_registered', not c.finishes())
            # frames handed to the socket wait in the send queue: a later request must not change an earlier one
            n2 = E.fresh_int('n2', 1, 0x7FFFFFFF)
            E.call(E.getattr(h, 'request'), [n2])
            em = c.emissions()
            E.prove('request:a_later_request_leaves_the_queued_REQUEST_N_untouched[each credit transmitted with exactly its value]',
                    len(em) == 2 and em[1][2][0] is not em[0][2][0] and E.getattr(em[0][2][0], 'request_n') is n
                    and is_frame(em[1][2][0], 'RequestNFrame') and E.getattr(em[1][2][0], 'request_n') is n2
                    and E.getattr(em[1][2][0], 'stream_id') is sid)
        else:
            E.call(E.getattr(h, 'cancel'), [])
            E.cover('cancelled')
            em = c.emissions()
            E.prove('cancel:exactly_one_CANCEL_on_own_stream',
                    len(em) == 1 and is_frame(em[0][2][0], 'CancelFrame') and E.getattr(em[0][2][0], 'stream_id') is sid)
            E.prove('cancel:stream_released_after_CANCEL', [m for (k, m) in c.order()] == ['send_frame', 'finish_stream'])
            E.prove('cancel:nothing_signalled_to_the_canceller', not c.signals(sub))
    return run


for _a in ('request', 'cancel'):
    harness('k.stream_requester.%s' % _a, ['C06', 'C08', 'C09', 'C10'],
            functions=[SRQ + '.' + _a, SH + '.send_request_n', SH + '.send_cancel'])(_srq_action(_a))


def _srq_frame(kind, subscribed):
    def run(E):
        c, h, sid, sub, _ = mk_srq(E, reenter=True)
        if subscribed:
            h.attrs['_subscriber'] = sub
        if kind == 'payload':
            f, data, md = sym_payload_frame(E, sid)
        else:
            f = error_frame(E, sid)
        try:
            E.call(E.getattr(h, 'frame_received'), [f])
        except PyExc as e:
            E.cover('raised')
            E.prove('frame_received:never_raises[%s,%s]' % (kind, 'subscribed' if subscribed else 'never subscribed'), False)
            return
        E.cover('handled')
        sig = c.signals(sub)
        names = [s[1] for s in sig]
        if kind == 'payload':
            nxt, comp = B(E.getattr(f, 'flags_next')), B(E.getattr(f, 'flags_complete'))
            if names == ['on_next']:
                E.prove('PAYLOAD:on_next_only_for_next_flag', nxt)
                E.prove('PAYLOAD:element_is_the_frame_payload', payload_is(E, sig[0][2][0], data, md))
                E.prove('PAYLOAD:complete_flag_passed_exactly', B(E.truth(sig[0][3].get('is_complete'))) == comp)
            elif names == ['on_complete']:
                E.prove('PAYLOAD:on_complete_only_for_complete_without_next', z3.And(z3.Not(nxt), comp))
            else:
                E.prove('PAYLOAD:at_most_one_signal', names == [])
                E.prove('PAYLOAD:nothing_signalled_only_without_flags', z3.And(z3.Not(nxt), z3.Not(comp)))
            fin = c.finishes()
            reent_cancel = any(is_frame(x[2][0], 'CancelFrame') for x in c.emissions() if x[1] == 'send_frame')
            if not reent_cancel:
                E.prove('PAYLOAD:released_iff_complete', comp if len(fin) >= 1 else z3.Not(comp))
        else:
            if subscribed:
                E.prove('ERROR:on_error_exactly_once', names == ['on_error'])
            E.prove('ERROR:stream_released', len(c.finishes()) >= 1 and all(x[2][0] is sid for x in c.finishes()))
        ems = [x for x in c.emissions()]
        reent = [x for x in ems]
        E.prove('frame_received:emits_only_what_the_application_asked_for',
                all(x[1] == 'send_frame' and (is_frame(x[2][0], 'RequestNFrame') or is_frame(x[2][0], 'CancelFrame')) for x in ems))
    return run


for _k in ('payload', 'error'):
    for _sub in (True, False):
        if _k == 'payload' and not _sub:
            continue
        harness('k.stream_requester.frame_received[%s,%s]' % (_k, 'subscribed' if _sub else 'never-subscribed'),
                ['C01', 'C07', 'C08', 'C10', 'C11', 'C12'], functions=[SRQ + '.frame_received'], replay='k_stream_requester_frame',
                assumptions=['peer legality: PAYLOAD frames reach a stream requester only after it was subscribed (the request frame is '
                             'sent by subscribe); ERROR frames (peer or the synthetic one of stop_all_streams) can arrive in every state'])(
            _srq_frame(_k, _sub))


def _srq_after_termination(how):
    def run(E):
        c, h, sid, sub, _ = mk_srq(E)
        h.attrs['_subscriber'] = sub
        if how == 'completed':
            E.call(E.getattr(h, 'frame_received'), [frame(E, 'PayloadFrame', sid, flags_complete=True, flags_next=False)])
        elif how == 'failed':
            E.call(E.getattr(h, 'frame_received'), [frame(E, 'ErrorFrame', sid, data=b'x',
                                                         error_code=E.lookup('rsocket/error_codes.py::ErrorCode').members['APPLICATION_ERROR'])])
        else:
            E.call(E.getattr(h, 'cancel'), [])
        n0 = len(c.emissions())
        E.prove('terminated:stream_released', len(c.finishes()) >= 1)
        for _ in range(2):
            act = E.path.choice(2, 'late-action')
            if act == 0:
                E.call(E.getattr(h, 'request'), [E.fresh_int('n', 1, 0x7FFFFFFF)])
            else:
                E.call(E.getattr(h, 'cancel'), [])
        E.cover('late-actions')
        E.prove('terminated:nothing_further_emitted[after %s]' % how, len(c.emissions()) == n0)
        if how == 'cancelled':
            E.prove('cancel:exactly_one_CANCEL_overall', len([x for x in c.emissions() if is_frame(x[2][0], 'CancelFrame')]) == 1)
    return run


for _how in ('completed', 'failed', 'cancelled'):
    harness('k.stream_requester.after_termination[%s]' % _how, ['C08', 'C09', 'C10'],
            functions=[SRQ + '.cancel', SRQ + '.request', SH + '.send_cancel', SH + '.send_request_n', SH + '._finish_stream'],
            replay='k_after_termination')(_srq_after_termination(_how))


# =========================================================================== A.4 RequestStreamResponder + StreamSubscriber

SSUB = H + 'request_stream_responder.py::StreamSubscriber'


def mk_srs(E):
    c = K.Ctx(E)
    pub = SOpaque('publisher', 'app-publisher')
    h = E.call(E.lookup(SRS), [c.sock, pub])
    sid = E.fresh_int('sid', 1, 0x7FFFFFFF)
    h.attrs['stream_id'] = sid
    subscription = SOpaque('subscription', 'app-subscription')
    # the publisher hands its subscription to the wrapper synchronously (usual) or not at all before returning
    # K-APP: Publisher.subscribe(s) calls s.on_subscribe(subscription) before it returns (every publisher of the library does)
    sync = True

    def subscribe(E_, obj, method, args, kwargs):
        if sync:
            E_.call(E_.getattr(args[0], 'on_subscribe'), [subscription])
        return None
    c.log.returns[('publisher', 'subscribe')] = subscribe
    return c, h, sid, pub, subscription, sync


@harness('k.stream_responder.frames', ['C06', 'C09', 'C10', 'C08', 'C12', 'C11'],
         functions=[SRS + '.__init__', SRS + '.setup', SRS + '.frame_received', SRS + '.dispose', SSUB + '.__init__',
                    'reactivestreams/subscriber.py::DefaultSubscriber.on_subscribe'], replay='k_stream_responder')
def srs_frames(E):
    c, h, sid, pub, subscription, sync = mk_srs(E)
    if E.path.choice(2, 'disposed-before-its-request-frame-was-processed') == 1:
        # stop_all_streams / close while the application handler is still being awaited: there is nothing to cancel yet
        try:
            E.call(E.getattr(h, 'dispose'), [])
        except PyExc as e:
            E.prove('dispose:before_setup_never_raises', False)
            return
        E.cover('disposed-early')
        E.prove('dispose:before_setup_touches_nothing', not c.log.calls)
        return
    n = E.fresh_int('n', 1, 0x7FFFFFFF)
    f = frame(E, 'RequestStreamFrame', sid, initial_request_n=n)
    try:
        E.call(E.getattr(h, 'frame_received'), [f])
    except PyExc as e:
        E.cover('request-raised')
        E.prove('REQUEST_STREAM:never_raises[publisher %s]' % ('subscribes synchronously' if sync else 'has not called on_subscribe yet'), False)
        return
    E.cover('requested')
    subs = c.signals(pub)
    E.prove('REQUEST_STREAM:publisher_subscribed_once_with_wrapper',
            len(subs) == 1 and subs[0][1] == 'subscribe' and subs[0][2][0] is h.attrs['subscriber'] and h.attrs['subscriber'].cls.name == 'StreamSubscriber')
    w = h.attrs['subscriber']
    E.prove('REQUEST_STREAM:wrapper_bound_to_own_stream', w.attrs['stream_id'] is sid and w.attrs['socket'] is c.sock)
    if sync:
        reqs = c.signals(subscription)
        E.prove('REQUEST_STREAM:initial_credit_forwarded_exactly_once', [(r[1], r[2]) for r in reqs] == [('request', (n,))])
    E.prove('REQUEST_STREAM:emits_nothing', not c.emissions() and not c.finishes())
    step = E.path.choice(3, 'then')
    n0 = len(c.log.calls)
    if step == 0:
        m = E.fresh_int('m', 1, 0x7FFFFFFF)
        try:
            E.call(E.getattr(h, 'frame_received'), [frame(E, 'RequestNFrame', sid, request_n=m)])
        except PyExc:
            E.prove('REQUEST_N:never_raises[publisher %s]' % ('subscribes synchronously' if sync else 'has not called on_subscribe yet'), False)
            return
        new = c.log.calls[n0:]
        if sync:
            E.prove('REQUEST_N:credit_forwarded_exactly_once', [(x[0], x[1], x[2]) for x in new] == [(subscription, 'request', (m,))])
    elif step == 1:
        try:
            E.call(E.getattr(h, 'frame_received'), [frame(E, 'CancelFrame', sid)])
        except PyExc:
            E.prove('CANCEL:never_raises[publisher %s]' % ('subscribes synchronously' if sync else 'has not called on_subscribe yet'), False)
            return
        new = c.log.calls[n0:]
        if sync:
            E.prove('CANCEL:producer_cancelled_exactly_once', [(x[0], x[1]) for x in new if x[0] is subscription] == [(subscription, 'cancel')])
        E.prove('CANCEL:stream_released_nothing_emitted', [x[2][0] for x in c.finishes()] == [sid] and not c.emissions())
    else:
        try:
            E.call(E.getattr(h, 'dispose'), [])
        except PyExc as e:
            E.prove('dispose:never_raises[publisher %s]' % ('subscribes synchronously' if sync else 'has not called on_subscribe yet'), False)
            return
        new = c.log.calls[n0:]
        E.prove('dispose:cancels_subscription_iff_there_is_one',
                [(x[0], x[1]) for x in new] == ([(subscription, 'cancel')] if sync else []))


@harness('k.stream_responder.subscriber', ['C01', 'C06', 'C08', 'C10', 'C12'],
         functions=[SSUB + '.on_next', SSUB + '.on_complete', SSUB + '.on_error'])
def srs_subscriber(E):
    c = K.Ctx(E)
    sid = E.fresh_int('sid', 1, 0x7FFFFFFF)
    w = E.call(E.lookup(SSUB), [sid, c.sock])
    what = E.path.choice(3, 'signal')
    if what == 0:
        v = SOpaque('payload', 'element')
        comp = E.path.choice(2, 'is_complete') == 1
        E.call(E.getattr(w, 'on_next'), [v], dict(is_complete=comp) if E.path.choice(2, 'kw') else {} if not comp else dict(is_complete=comp))
        E.cover('on_next')
        em = c.emissions()
        E.prove('on_next:exactly_one_PAYLOAD_with_the_element_on_own_stream',
                len(em) == 1 and em[0][1] == 'send_payload' and em[0][2][0] is sid and em[0][2][1] is v
                and em[0][3].get('complete', False) is comp and em[0][3].get('is_next', True) is True)
        E.prove('on_next:released_iff_complete', ([x[2][0] for x in c.finishes()] == [sid]) if comp else (not c.finishes()))
    elif what == 1:
        E.call(E.getattr(w, 'on_complete'), [])
        E.cover('on_complete')
        em = c.emissions()
        E.prove('on_complete:one_empty_PAYLOAD_complete_without_next',
                len(em) == 1 and em[0][1] == 'send_payload' and em[0][2][0] is sid and em[0][3].get('complete') is True
                and em[0][3].get('is_next') is False and em[0][2][1].attrs['data'] is None and em[0][2][1].attrs['metadata'] is None)
        E.prove('on_complete:stream_released_after_emission', [m for (k, m) in c.order()] == ['send_payload', 'finish_stream'])
    else:
        ex = E.make_exc('RuntimeError', 'boom')
        E.call(E.getattr(w, 'on_error'), [ex])
        E.cover('on_error')
        em = c.emissions()
        E.prove('on_error:one_ERROR_on_own_stream', len(em) == 1 and em[0][1] == 'send_error' and em[0][2][0] is sid and em[0][2][1] is ex)
        E.prove('on_error:stream_released_after_emission', [m for (k, m) in c.order()] == ['send_error', 'finish_stream'])
