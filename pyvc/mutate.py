"""Run checks against a scratch copy of the repository with a mutation applied (self-test of the machinery).

usage: python3-vt -m pyvc.mutate <prop> <relative file> <old text> <new text> [check args...]
       python3-vt -m pyvc.mutate --patch <patch.diff> <prop> [<prop> ...]
The scratch copy lives in a mkdtemp directory and is removed afterwards; /repo is never touched.
"""
import os
import shutil
import subprocess
import sys
import tempfile

ROOT = os.path.dirname(os.path.dirname(os.path.abspath(__file__)))


def scratch_copy():
    d = tempfile.mkdtemp(prefix='pyvc_mut_')
    for sub in ('rsocket', 'reactivestreams'):
        shutil.copytree(os.path.join('/repo', sub), os.path.join(d, sub), ignore=shutil.ignore_patterns('__pycache__'))
    return d


def run_check(prop, d, extra=()):
    env = dict(os.environ, PYVC_REPO=d)
    r = subprocess.run([sys.executable, '-m', 'pyvc.check', prop, '--no-evidence'] + list(extra),
                       capture_output=True, text=True, env=env, cwd=ROOT)
    return r.returncode, r.stdout + r.stderr


def run_mutant(prop, rel, old, new, extra=()):
    d = scratch_copy()
    try:
        p = os.path.join(d, rel)
        s = open(p).read()
        if s.count(old) != 1:
            return None, 'pattern occurs %d times' % s.count(old)
        open(p, 'w').write(s.replace(old, new))
        return run_check(prop, d, extra)
    finally:
        shutil.rmtree(d, ignore_errors=True)


def run_patch(patch, props, extra=()):
    d = scratch_copy()
    out = {}
    try:
        r = subprocess.run(['patch', '-p1', '-s', '-i', os.path.abspath(patch)], cwd=d, capture_output=True, text=True)
        if r.returncode != 0:
            return {p: (None, 'patch failed: ' + r.stdout + r.stderr) for p in props}
        for p in props:
            out[p] = run_check(p, d, extra)
        return out
    finally:
        shutil.rmtree(d, ignore_errors=True)


if __name__ == '__main__':
    if sys.argv[1] == '--patch':
        res = run_patch(sys.argv[2], sys.argv[3:])
        for p, (rc, out) in res.items():
            lines = [l for l in out.splitlines() if l.startswith(('VIOLATION', 'UNDECIDED', 'CHECKER', 'property', 'KNOWN'))]
            print('\n'.join(l[:260] for l in lines[:12]))
            print('%s exit %s' % (p, rc))
    else:
        rc, out = run_mutant(sys.argv[1], sys.argv[2], sys.argv[3], sys.argv[4], sys.argv[5:])
        print(out)
        print('exit', rc)
