"""Connection-level contracts: keepalive (C15), setup handshake (C16), reconnect (C17), loss/close (C11).
Coroutines are interpreted as sequential code plus suspension points; E.suspend_hook logs every suspension
(and, where asked, lets it raise CancelledError).  Clock: ghost microseconds; sleep(d) advances it by exactly d."""
import z3

from pyvc.values import *   # noqa
from pyvc.engine import LoopSpec, EXC
from pyvc.harness import harness, new_obj, OpaqueLog
from pyvc import models as M
from pyvc import aio
from contracts.khandler import frame, is_frame, payload_is, FR
from contracts.c_10_endpoint import mk_endpoint, BASE, SERVER, CLIENT, SC

VIRTUAL_CLOCK = 'virtual clock: asyncio.sleep(d) resumes exactly d later and datetime.now() reads the same ghost clock'


class Suspends:
    def __init__(self, E, cancel_at=None):
        self.E = E
        self.log = []
        self.cancel_at = cancel_at
        E.suspend_hook = self

    def __call__(self, E, what):
        kind, obj = what
        self.log.append((kind, obj))
        if self.cancel_at is not None and self.cancel_at(kind, obj, len(self.log)):
            E.throw('CancelledError')
        if kind == 'sleep':
            aio.advance_clock(E, z3.ToInt(R(obj) * 1000000) if not isinstance(obj, int) else obj * 1000000)
        return None


def mk_client(E, **attrs):
    E.import_module('asyncio')
    E.import_module('datetime')
    sock, table, ctable = mk_endpoint(E, CLIENT)
    sock.attrs.update(attrs)
    return sock, table, ctable


# =========================================================================== C15 keepalive

@harness('c15.handle_keep_alive', ['C15', 'C08'], functions=[BASE + '.handle_keep_alive', CLIENT + '._update_last_keepalive'],
         assumptions=[VIRTUAL_CLOCK])
def handle_keep_alive(E):
    role = [CLIENT, SERVER][E.path.choice(2, 'role')]
    E.import_module('datetime')
    sock, table, ctable = mk_endpoint(E, role)
    now = E.fresh_int('now')
    E.path.ghost['now'] = I(now)
    sock.attrs['_last_server_keepalive'] = aio.mk_datetime(E, E.fresh_int('old'))
    sent = []
    E.stubs[BASE + '.send_frame'] = lambda E_, f, a, k: sent.append(a[1])
    respond = E.path.choice(2, 'respond') == 1
    data = E.fresh_bytes('kdata')
    pos = E.fresh_int('position', 0, (1 << 63) - 1)
    f = frame(E, 'KeepAliveFrame', 0, flags_respond=respond, data=data, last_received_position=pos)
    E.await_value(E.call(E.getattr(sock, 'handle_keep_alive'), [f]))
    E.cover('handled')
    if respond:
        E.prove('keepalive:respond_flag_answered_by_exactly_one_KEEPALIVE', len(sent) == 1 and is_frame(sent[0], 'KeepAliveFrame'))
        g = sent[0]
        E.prove('keepalive:answer_has_no_respond_flag', E.getattr(g, 'flags_respond') is False)
        E.prove('keepalive:answer_carries_the_same_data', E.getattr(g, 'data') is data)
        E.prove('keepalive:answer_on_stream_0_with_same_position', E.getattr(g, 'stream_id') == 0 and E.getattr(g, 'last_received_position') is pos)
        # answers wait in the send queue: a later KEEPALIVE must not change an answer that is already queued
        data2 = E.fresh_bytes('kdata2')
        pos2 = E.fresh_int('position2', 0, (1 << 63) - 1)
        f2 = frame(E, 'KeepAliveFrame', 0, flags_respond=True, data=data2, last_received_position=pos2)
        E.await_value(E.call(E.getattr(sock, 'handle_keep_alive'), [f2]))
        E.prove('keepalive:each_answer_keeps_its_own_data[an earlier answer still queued is not overwritten by a later one]',
                len(sent) == 2 and sent[1] is not sent[0] and E.getattr(sent[0], 'data') is data
                and E.getattr(sent[0], 'last_received_position') is pos and E.getattr(sent[1], 'data') is data2
                and E.getattr(sent[1], 'flags_respond') is False)
    else:
        E.prove('keepalive:without_respond_flag_never_answered', len(sent) == 0)
    if role == CLIENT:
        E.prove('keepalive:client_records_arrival_time', I(sock.attrs['_last_server_keepalive'].attrs['t']) == I(now))


KST = CLIENT + '._keepalive_send_task'


@harness('c15.keepalive_send_task', ['C15', 'C08', 'C11'], functions=[KST, BASE + '._send_new_keepalive', 'rsocket/frame_builders.py::to_keepalive_frame'],
         assumptions=[VIRTUAL_CLOCK, 'service loop: termination is by cancellation only'])
def keepalive_send(E):
    period = E.fresh_int('period_us', 1)
    sock, table, ctable = mk_client(E, _keep_alive_period=aio.mk_timedelta(E, period),
                                    _max_lifetime_period=aio.mk_timedelta(E, E.fresh_int('other_period_us', 1)))
    t0 = E.fresh_int('t0')
    E.path.ghost['now'] = I(t0)
    sent = []
    E.stubs[BASE + '.send_frame'] = lambda E_, f, a, k: sent.append((a[1], aio.now(E_)))
    cancelled = E.path.choice(2, 'cancelled-while-sleeping') == 1
    sus = Suspends(E, cancel_at=(lambda kind, obj, n: True) if cancelled else None)
    st = {}

    def inv(ctx):
        if ctx.phase == 'step':
            return [('one iteration: slept exactly the keep-alive period, then queued exactly one KEEPALIVE',
                     len(sus.log) - st['nsus'] == 1 and len(sent) - st['nsent'] == 1)]
        return []

    def havoc(ctx):
        st['nsus'], st['nsent'] = len(sus.log), len(sent)
        E.path.ghost['now'] = I(E.fresh_int('t'))
        st['t'] = E.path.ghost['now']
    spec = LoopSpec(inv, None, havoc=havoc)
    spec.nonterminating = True
    E.loop_specs[(KST, 0)] = spec
    try:
        E.await_value(E.call(E.getattr(sock, '_keepalive_send_task'), []))
    except PyExc as e:
        E.prove('keepalive_send:cancellation_is_absorbed', False)
        return
    E.cover('task-ended')
    E.prove('keepalive_send:ends_only_by_cancellation', cancelled)
    E.prove('keepalive_send:nothing_sent_after_cancellation', len(sent) == st.get('nsent', 0))


@harness('c15.keepalive_send_task.iteration', ['C15', 'C08'], functions=[KST, BASE + '._send_new_keepalive'],
         assumptions=[VIRTUAL_CLOCK])
def keepalive_send_iteration(E):
    """one arbitrary iteration, looked at in detail (clock and frame content)"""
    period = E.fresh_int('period_us', 1)
    sock, table, ctable = mk_client(E, _keep_alive_period=aio.mk_timedelta(E, period),
                                    _max_lifetime_period=aio.mk_timedelta(E, E.fresh_int('other_period_us', 1)))
    sent = []
    E.stubs[BASE + '.send_frame'] = lambda E_, f, a, k: sent.append((a[1], aio.now(E_)))
    sus = Suspends(E)
    st = {}

    def inv(ctx):
        if ctx.phase != 'step':
            return []
        E.cover('iteration')
        fr, when = sent[-1]
        return [('sleep argument is the keep-alive period in seconds', sus.log[-1][0] == 'sleep' and z3.simplify(R(sus.log[-1][1]) * 1000000 == z3.ToReal(I(period))) if True else True),
                ('KEEPALIVE queued exactly one period after the previous one', when == st['t'] + I(period)),
                ('respond-flagged KEEPALIVE on stream 0', is_frame(fr, 'KeepAliveFrame') and E.getattr(fr, 'flags_respond') is True
                 and E.getattr(fr, 'stream_id') == 0)]

    def havoc(ctx):
        E.path.ghost['now'] = I(E.fresh_int('t'))
        st['t'] = E.path.ghost['now']
    spec = LoopSpec(inv, None, havoc=havoc)
    spec.nonterminating = True
    E.loop_specs[(KST, 0)] = spec
    E.await_value(E.call(E.getattr(sock, '_keepalive_send_task'), []))
    E.cover('unreachable-without-cancel')


KTT = CLIENT + '._keepalive_timeout_task'


@harness('c15.keepalive_timeout_task', ['C15'], functions=[KTT], assumptions=[VIRTUAL_CLOCK, 'RequestHandler.on_keepalive_timeout is abstract'])
def keepalive_timeout(E):
    L = E.fresh_int('max_lifetime_us', 1)
    app = SOpaque('app-handler', 'handler')
    sock, table, ctable = mk_client(E, _max_lifetime_period=aio.mk_timedelta(E, L), _handler=app, _is_server_alive=True,
                                    _keep_alive_period=aio.mk_timedelta(E, E.fresh_int('other_period_us', 1)))
    log = OpaqueLog(E, returns={'on_keepalive_timeout': lambda *a: aio.Awaitable('ready')})
    sus = Suspends(E)
    st = {}

    def inv(ctx):
        if ctx.phase != 'step':
            return []
        E.cover('iteration')
        now = aio.now(E)
        silent = now - st['last']
        calls = log.of(app, 'on_keepalive_timeout')
        out = [('checks once per max-lifetime', now == st['t'] + I(L)),
               ('timeout callback invoked iff silence exceeds the max lifetime',
                z3.If(silent > I(L), len(calls) - st['ncalls'] == 1, len(calls) - st['ncalls'] == 0))]
        if len(calls) - st['ncalls'] == 1:
            out.append(('alive flag cleared before the callback and the socket passed to it',
                        sock.attrs['_is_server_alive'] is False and calls[-1][2][1] is sock
                        and I(calls[-1][2][0].attrs['us']) == silent))
        else:
            out.append(('alive flag untouched while keepalives arrive', sock.attrs['_is_server_alive'] is True))
        return out

    def havoc(ctx):
        E.path.ghost['now'] = I(E.fresh_int('t'))
        st['t'] = E.path.ghost['now']
        last = E.fresh_int('last_keepalive')
        E.assume(I(last) <= st['t'] + I(L))
        st['last'] = I(last)
        sock.attrs['_last_server_keepalive'] = aio.mk_datetime(E, last)
        sock.attrs['_is_server_alive'] = True
        st['ncalls'] = len(log.of(app, 'on_keepalive_timeout'))
    spec = LoopSpec(inv, None, havoc=havoc)
    spec.nonterminating = True
    E.loop_specs[(KTT, 0)] = spec
    sock.attrs['_last_server_keepalive'] = aio.mk_datetime(E, E.fresh_int('last0'))
    E.await_value(E.call(E.getattr(sock, '_keepalive_timeout_task'), []))
    # the service loop has no exit of its own: reaching this point without a cancellation means the watchdog stopped watching
    E.prove('keepalive_timeout:the_watchdog_ends_only_by_cancellation', False)


@harness('c15.lemma.keepalive_arithmetic', ['C15'], functions=[],
         desc='L-KEEPALIVE: checks at t0+k*L. (a) arrivals at gaps <= L  => no check sees silence > L. '
              '(b) last arrival s  => the check k with (k-2)L <= s-t0 < (k-1)L lies in (s+L, s+2L] and sees silence > L.')
def keepalive_lemma(E):
    L, t0, s = z3.Real('L'), z3.Real('t0'), z3.Real('s')
    P = z3.Real('kL')              # the product k*L of the chosen check index (Archimedean property: such k exists)
    E.path.add(z3.And(L > 0, s >= t0))
    E.cover('lemma')
    # (b)
    E.path.add(z3.And(P - 2 * L <= s - t0, s - t0 < P - L))
    E.prove('lemma:some_check_falls_within_two_lifetimes_of_the_last_keepalive', z3.And(t0 + P > s + L, t0 + P <= s + 2 * L))
    E.prove('lemma:that_check_sees_silence_longer_than_the_lifetime', (t0 + P) - s > L)
    # (a) at a check time t the most recent arrival a satisfies t - L <= a <= t
    t, a = z3.Real('t'), z3.Real('a')
    E.path.add(z3.And(a <= t, a >= t - L))
    E.prove('lemma:no_timeout_while_keepalives_arrive_within_the_lifetime', z3.Not(t - a > L))


@harness('c15.tasks', ['C15', 'C11', 'C17'], functions=[CLIENT + '._before_sender', CLIENT + '._finally_sender', CLIENT + '._stop_tasks',
                                                      BASE + '._stop_tasks', BASE + '._start_task_if_not_closing',
                                                      'rsocket/helpers.py::cancel_if_task_exists', CLIENT + '.is_server_alive'],
         assumptions=['asyncio.create_task / Task.cancel modelled: a cancelled task ends with CancelledError at its next suspension (Appendix B)'])
def keepalive_tasks(E):
    sock, table, ctable = mk_client(E, _is_closing=False, _keepalive_task=None, _sender_task=None, _receiver_task=None,
                                    _is_server_alive=E.path.choice(2, 'alive') == 1)
    tasks = []
    E.create_task_hook = lambda E_, t, coro: tasks.append((t, coro))

    def on_suspend(E_, what):
        kind, obj = what
        if kind == 'future' and obj.attrs.get('cancel_requested'):
            obj.attrs['state'] = 'cancelled'
        return None
    E.suspend_hook = on_suspend
    E.prove('is_server_alive:reads_the_flag', E.call(E.getattr(sock, 'is_server_alive'), []) is sock.attrs['_is_server_alive'])
    E.call(E.getattr(sock, '_before_sender'), [])
    E.cover('started')
    E.prove('before_sender:keepalive_task_started_once', len(tasks) == 1 and sock.attrs['_keepalive_task'] is tasks[0][0]
            and tasks[0][1].func.name == '_keepalive_send_task')
    kt = tasks[0][0]
    which = E.path.choice(2, 'stop-path')
    if which == 0:
        E.await_value(E.call(E.getattr(sock, '_finally_sender'), []))
    else:
        st = aio.new_task(E, None)
        rt = aio.new_task(E, None)
        sock.attrs['_sender_task'], sock.attrs['_receiver_task'] = st, rt
        E.await_value(E.call(E.getattr(sock, '_stop_tasks'), []))
        E.prove('stop_tasks:sender_and_receiver_cancelled', st.attrs['cancel_requested'] and rt.attrs['cancel_requested']
                and sock.attrs['_sender_task'] is None and sock.attrs['_receiver_task'] is None)
        E.prove('stop_tasks:marks_closing', sock.attrs['_is_closing'] is True)
    E.prove('stop:keepalive_task_cancelled', kt.attrs['cancel_requested'] is True)


# =========================================================================== C16 setup

@harness('c16.setup_frame', ['C16', 'C08'], functions=[BASE + '._create_setup_frame', 'rsocket/frame_builders.py::to_setup_frame',
                                                      BASE + '.connect', 'rsocket/extensions/mimetypes.py::ensure_encoding_name',
                                                      BASE + '.send_priority_frame'],
         assumptions=['floats in to_milliseconds treated as exact reals'])
def setup_frame(E):
    ka = E.fresh_int('keep_alive_us', 0, (1 << 40))
    ml = E.fresh_int('max_lifetime_us', 0, (1 << 40))
    E.assume(z3.And(I(ka) % 1000 == 0, I(ml) % 1000 == 0))
    honor = E.path.choice(2, 'honor_lease') == 1
    wk = E.lookup('rsocket/extensions/mimetypes.py::WellKnownMimeTypes')
    enc_choice = E.path.choice(3, 'encoding-kind')
    denc_in = [wk.members['APPLICATION_JSON'], b'text/x-custom', 'application/x-str'][enc_choice]
    menc_in = [wk.members['MESSAGE_RSOCKET_COMPOSITE_METADATA'], b'meta/custom', 'x/str'][enc_choice]
    denc = E.call(E.lookup('rsocket/extensions/mimetypes.py::ensure_encoding_name'), [denc_in])
    menc = E.call(E.lookup('rsocket/extensions/mimetypes.py::ensure_encoding_name'), [menc_in])
    want_d = [b'application/json', b'text/x-custom', b'application/x-str'][enc_choice]
    want_m = [b'message/x.rsocket.composite-metadata.v0', b'meta/custom', b'x/str'][enc_choice]
    E.prove('setup:encoding_names_normalised_to_bytes', M.values_equal(E, denc, want_d) is True and M.values_equal(E, menc, want_m) is True)
    has_payload = E.path.choice(2, 'setup-payload') == 1
    data, md = E.fresh_bytes('sdata'), E.fresh_bytes('smeta')
    payload = E.call(E.lookup('rsocket/payload.py::Payload'), [data, md]) if has_payload else None
    sock, table, ctable = mk_client(E, _keep_alive_period=aio.mk_timedelta(E, ka), _max_lifetime_period=aio.mk_timedelta(E, ml),
                                    _honor_lease=honor, _data_encoding=denc, _metadata_encoding=menc, _setup_payload=payload,
                                    _lease_publisher=None)
    sent = []
    E.stubs[BASE + '.send_priority_frame'] = lambda E_, f, a, k: sent.append(a[1])
    r = E.await_value(E.call(E.getattr(E.lookup(BASE), 'connect'), [sock]))
    E.cover('connected')
    E.prove('setup:exactly_one_frame_through_the_priority_path', len(sent) == 1 and is_frame(sent[0], 'SetupFrame') and r is sock)
    if len(sent) != 1:
        return
    f = sent[0]
    P = E.prove
    P('setup:protocol_version_1_0', E.getattr(f, 'major_version') == 1 and E.getattr(f, 'minor_version') == 0)
    P('setup:keep_alive_in_milliseconds', I(E.getattr(f, 'keep_alive_milliseconds')) * 1000 == I(ka))
    P('setup:max_lifetime_in_milliseconds', I(E.getattr(f, 'max_lifetime_milliseconds')) * 1000 == I(ml))
    P('setup:data_and_metadata_mime_types', E.getattr(f, 'data_encoding') is denc and E.getattr(f, 'metadata_encoding') is menc)
    P('setup:lease_flag_is_honor_lease', E.getattr(f, 'flags_lease') is honor)
    P('setup:no_resume', E.getattr(f, 'flags_resume') is False)
    P('setup:stream_0', E.getattr(f, 'stream_id') == 0)
    if has_payload:
        P('setup:payload', E.getattr(f, 'data') is data and E.getattr(f, 'metadata') is md)
    else:
        P('setup:empty_payload', M.values_equal(E, E.getattr(f, 'data'), b'') is True and M.values_equal(E, E.getattr(f, 'metadata'), b'') is True)


@harness('c16.setup_frame.two_clients', ['C16', 'C17'], functions=[BASE + '._create_setup_frame', 'rsocket/frame_builders.py::to_setup_frame', BASE + '.connect'],
         assumptions=['concrete configuration (500 ms / 10 min, JSON) so that any memo keyed on it is exercised'])
def setup_frame_two_clients(E):
    """The SETUP frame of a connection is built from THAT client's configuration only: two clients of one process with the
    same periods / encodings / lease flag - one with a setup payload, one without, in either order - each announce exactly
    their own payload, in frames that are distinct objects (a frame still queued is never rewritten by another client)."""
    frames = {}
    data, md = E.fresh_bytes('sdata', 1), E.fresh_bytes('smeta', 1)
    payload = E.call(E.lookup('rsocket/payload.py::Payload'), [data, md])
    order = [('with-payload', payload), ('without-payload', None)]
    if E.path.choice(2, 'first-client') == 1:
        order.reverse()
    for who, pl in order:
        sock, table, ctable = mk_client(E, _keep_alive_period=aio.mk_timedelta(E, 500000), _max_lifetime_period=aio.mk_timedelta(E, 600000000),
                                        _honor_lease=False, _data_encoding=b'application/json', _metadata_encoding=b'application/json',
                                        _setup_payload=pl, _lease_publisher=None)
        sent = []
        E.stubs[BASE + '.send_priority_frame'] = lambda E_, f, a, k, sent=sent: sent.append(a[1])
        E.await_value(E.call(E.getattr(E.lookup(BASE), 'connect'), [sock]))
        frames[who] = sent[0] if len(sent) == 1 else None
    E.cover('both-connected')
    a, b = frames['with-payload'], frames['without-payload']
    E.prove('setup:each_connection_builds_its_own_frame', a is not None and b is not None and a is not b)
    if a is None or b is None:
        return
    E.prove('setup:the_client_with_a_payload_announces_exactly_it[whatever another client did before or after]',
            E.getattr(a, 'data') is data and E.getattr(a, 'metadata') is md)
    E.prove('setup:the_client_without_a_payload_announces_none[not the payload of another client]',
            M.values_equal(E, E.getattr(b, 'data'), b'') is True and M.values_equal(E, E.getattr(b, 'metadata'), b'') is True)


CNT = CLIENT + '._connect_new_transport'


@harness('c16.setup_precedes_everything', ['C16', 'C08', 'C17', 'C15'], functions=[CLIENT + '.connect', CNT, CLIENT + '._get_new_transport', BASE + '.connect'],
         replay='c16_setup_first',
         assumptions=['the sender task dequeues only after awaiting the transport future (RSocketBase._sender); so SETUP is the first frame '
                      'written iff at every suspension point of connect():  transport future resolved  =>  SETUP already queued at the head',
                      'Transport.connect and the transport provider are abstract suspension points'])
def setup_first(E):
    E.import_module('asyncio')
    sock, table, ctable = mk_client(E, _honor_lease=False, _lease_publisher=None, _setup_payload=None, _request_queue_size=0,
                                    _keep_alive_period=aio.mk_timedelta(E, 500000), _max_lifetime_period=aio.mk_timedelta(E, 600000000),
                                    _data_encoding=b'a/b', _metadata_encoding=b'c/d', _is_closing=False, _connecting=True,
                                    _keepalive_task=None,
                                    # whatever ended the previous connection: after a keepalive timeout the flag is False
                                    _is_server_alive=[True, False][E.path.choice(2, 'previous-connection-ended-by-keepalive-timeout')])
    E.import_module('datetime')
    E.path.ghost['now'] = I(E.fresh_int('now'))
    nt = aio.new_future(E)
    sock.attrs['_next_transport'] = nt
    transport = SOpaque('transport', 'transport')
    provider = SOpaque('provider', 'provider')
    sock.attrs['_transport_provider'] = provider
    suspends_connect = E.path.choice(2, 'transport.connect-suspends') == 1
    state = {'violated': None, 'setup_queued': False}

    def check(where):
        q = sock.attrs['_send_queue'].attrs['_queue']
        setup_at_head = len(q) >= 1 and is_frame(q[0], 'SetupFrame')
        if nt.attrs['state'] == 'result' and not setup_at_head and state['violated'] is None:
            state['violated'] = where
        # the sender and receiver loops run as soon as the transport future is resolved and exit at once unless the
        # endpoint considers the server alive: the flag must be set before the future resolves, not after
        if nt.attrs['state'] == 'result' and sock.attrs.get('_is_server_alive') is not True and state.get('dead') is None:
            state['dead'] = where
    log = OpaqueLog(E, returns={'__anext__': lambda *a: aio.Awaitable('provider'),
                                'connect': lambda *a: aio.Awaitable('transport.connect') if suspends_connect else aio.Awaitable('ready')})

    lease_obj = E.call(E.lookup('rsocket/lease.py::DefinedLease'), [5])

    def on_suspend(E_, what):
        kind, obj = what
        check('suspended in %s' % kind)
        # rely: while connect() is suspended the client's own lease publisher may publish a lease (LeaseSubscriber.on_next ->
        # send_lease); like every other frame it has to end up behind SETUP
        if E_.path.choice(2, 'lease-published-while-suspended-in-%s' % kind) == 1:
            E_.call(E_.getattr(sock, 'send_lease'), [lease_obj])
            state['leases'] = state.get('leases', 0) + 1
        if kind == 'provider':
            # while connect() is suspended the application may issue requests: they are queued
            E_.call(E_.getattr(sock.attrs['_send_queue'], 'put_nowait'), [SOpaque('frame', 'early-request')])
            return transport
        if kind == 'transport.connect':
            E_.call(E_.getattr(sock.attrs['_send_queue'], 'put_nowait'), [SOpaque('frame', 'request-during-connect')])
        return None
    E.suspend_hook = on_suspend
    E.create_task_hook = lambda E_, t, coro: None
    E.await_value(E.call(E.getattr(sock, 'connect'), []))
    E.cover('connected')
    q = sock.attrs['_send_queue'].attrs['_queue']
    E.prove('connect:SETUP_queued_exactly_once_at_the_head', len([x for x in q if is_frame(x, 'SetupFrame')]) == 1 and len(q) >= 1
            and is_frame(q[0], 'SetupFrame'))
    E.prove('connect:requests_issued_while_connecting_are_kept_behind_SETUP_in_order',
            [x.ident for x in q if isinstance(x, SOpaque)] == (['early-request', 'request-during-connect'] if suspends_connect else ['early-request'])
            and len(q) >= 1 and not isinstance(q[0], SOpaque))
    E.prove('connect:leases_published_while_connecting_are_queued_behind_SETUP',
            len([x for x in q if is_frame(x, 'LeaseFrame')]) == state.get('leases', 0) and is_frame(q[0], 'SetupFrame'))
    E.prove('connect:at_every_suspension_transport_resolved_implies_SETUP_queued[%s]' % ('transport.connect() suspends' if suspends_connect else 'transport.connect() does not suspend'),
            state['violated'] is None)
    E.prove('@C17,C15:connect:whenever_the_new_tasks_can_run_the_server_is_considered_alive[also after a keepalive timeout]',
            state.get('dead') is None and sock.attrs.get('_is_server_alive') is True)
    E.prove('connect:transport_future_resolved_with_the_provided_transport', nt.attrs['state'] == 'result' and nt.attrs['value'] is transport)
    E.prove('connect:transport_connected_once', len(log.of(transport, 'connect')) == 1)


@harness('c16.head_insertion_is_reserved_for_SETUP', ['C16', 'C08', 'C05', 'C01', 'C15'], functions=[BASE + '.connect', BASE + '.send_priority_frame'],
         assumptions=['syntactic call-site obligation: every call of send_priority_frame in the library sources is inspected; the frame '
                      'passed at the permitted site is proved to be the SETUP frame by c16.setup_precedes_everything'])
def head_insertion_sites(E):
    """send_priority_frame puts a frame AHEAD of everything queued.  "SETUP precedes every other frame" therefore needs the
    frame condition that nothing but connect()'s SETUP is ever queued that way."""
    import ast as _ast
    import os as _os
    sites = []
    root = _os.path.join(E.repo_root, 'rsocket')
    for dp, dn, fn in _os.walk(root):
        for f in fn:
            if not f.endswith('.py'):
                continue
            path = _os.path.join(dp, f)
            tree = _ast.parse(open(path).read())
            stack = []

            def walk(node):
                named = isinstance(node, (_ast.FunctionDef, _ast.AsyncFunctionDef, _ast.ClassDef))
                if named:
                    stack.append(node.name)
                if isinstance(node, _ast.Call) and isinstance(node.func, _ast.Attribute) and node.func.attr == 'send_priority_frame':
                    sites.append((_os.path.relpath(path, E.repo_root), '.'.join(stack), _ast.unparse(node)[:80]))
                if isinstance(node, _ast.Attribute) and node.attr == 'send_priority_frame' and not isinstance(getattr(node, 'ctx', None), _ast.Store):
                    pass
                for ch in _ast.iter_child_nodes(node):
                    walk(ch)
                if named:
                    stack.pop()
            walk(tree)
    E.cover('scanned')
    allowed = [s for s in sites if s[0] == 'rsocket/rsocket_base.py' and s[1] == 'RSocketBase.connect']
    other = [s for s in sites if s not in allowed]
    E.prove('head_insertion:used_by_connect_for_SETUP', len(allowed) == 1)
    E.prove('head_insertion:no_other_frame_is_ever_queued_ahead_of_the_queue%s' % (('[%s in %s]' % (other[0][2], other[0][1])) if other else ''),
            not other)


@harness('c16.handle_setup', ['C16', 'C12'], functions=[BASE + '.handle_setup', BASE + '.handle_resume'],
         assumptions=['RequestHandler.on_setup is abstract and may raise any Exception'])
def handle_setup(E):
    sock, table, ctable = mk_endpoint(E)
    app = sock.attrs['_handler']
    has_pub = E.path.choice(2, 'lease-publisher') == 1
    pub = SOpaque('publisher', 'lease-publisher') if has_pub else None
    sock.attrs['_lease_publisher'] = pub
    log = OpaqueLog(E, returns={'on_setup': lambda *a: aio.Awaitable('ready')}, may_raise=lambda o, m: o.kind == 'app-handler')
    resume = E.path.choice(2, 'resume') == 1
    lease = E.path.choice(2, 'lease') == 1
    data, md = E.fresh_bytes('d'), E.fresh_bytes('m')
    denc, menc = E.fresh_bytes('denc', 0, 127), E.fresh_bytes('menc', 0, 127)
    f = frame(E, 'SetupFrame', 0, flags_resume=resume, flags_lease=lease, data=data, metadata=md, data_encoding=denc, metadata_encoding=menc)
    codes = E.lookup('rsocket/error_codes.py::ErrorCode').members
    PE = E.lookup('rsocket/exceptions.py::RSocketProtocolError')
    P = E.prove
    try:
        E.await_value(E.call(E.getattr(sock, 'handle_setup'), [f]))
    except PyExc as e:
        E.cover('rejected')
        P('setup:rejection_is_a_protocol_error', e.value.cls.issubclass(PE))
        calls = log.of(app, 'on_setup')
        if resume:
            P('setup:resume_requested=>UNSUPPORTED_SETUP_and_on_setup_not_called', e.value.attrs['error_code'] is codes['UNSUPPORTED_SETUP'] and not calls)
        elif lease and not has_pub:
            P('setup:lease_without_publisher=>UNSUPPORTED_SETUP_and_on_setup_not_called', e.value.attrs['error_code'] is codes['UNSUPPORTED_SETUP'] and not calls)
        else:
            P('setup:on_setup_raising=>REJECTED_SETUP', e.value.attrs['error_code'] is codes['REJECTED_SETUP'] and len(calls) == 1)
        return
    E.cover('accepted')
    calls = log.of(app, 'on_setup')
    P('setup:acceptable_setup_only', not resume and (not lease or has_pub))
    P('setup:accepted_only_if_on_setup_returned_normally[a failing on_setup is never swallowed]',
      not any('opaque-raise:app-handler.on_setup:1' in x for x in E.path.sig))
    if lease:
        ls = log.of(pub, 'subscribe')
        P('setup:lease_publisher_gets_a_subscriber_that_announces_on_this_socket',
          len(ls) == 1 and isinstance(ls[0][2][0], SObj) and ls[0][2][0].cls.name == 'LeaseSubscriber')
    else:
        P('setup:no_lease_requested=>publisher_not_subscribed', pub is None or not log.of(pub, 'subscribe'))
    P('setup:on_setup_called_exactly_once_with_encodings_and_payload',
      len(calls) == 1 and calls[0][2][0] is denc and calls[0][2][1] is menc and payload_is(E, calls[0][2][2], data, md))
    if lease:
        P('setup:lease_publisher_subscribed_once', len(log.of(pub, 'subscribe')) == 1)
    try:
        E.await_value(E.call(E.getattr(sock, 'handle_resume'), [frame(E, 'ResumeFrame', 0)]))
        P('resume:always_rejected', False)
    except PyExc as e:
        P('resume:REJECTED_RESUME', e.value.cls.issubclass(PE) and e.value.attrs['error_code'] is codes['REJECTED_RESUME'])


# =========================================================================== C17 reconnect / C11 close

@harness('c17.connect_gives_fresh_state', ['C17', 'C13', 'C14', 'C03', 'C10', 'C15', 'C11', 'C05', 'C16', 'C01', 'C08'], functions=[CLIENT + '.connect', BASE + '._reset_internals', BASE + '._start_tasks',
                                                                           SC + '.__init__'],
         replay='c17_reconnect',
         assumptions=['pre-state arbitrary: any old stream table / queues / lease, alive flag either value (previous connection ended by EOF, '
                      'transport error, keepalive timeout or explicit reconnect)', VIRTUAL_CLOCK])
def connect_fresh(E):
    E.import_module('datetime')
    sock, table, ctable = mk_client(E, _honor_lease=E.path.choice(2, 'honor') == 1, _lease_publisher=None, _setup_payload=None,
                                    _request_queue_size=E.fresh_int('qsize', 0),
                                    _keep_alive_period=aio.mk_timedelta(E, 500000), _max_lifetime_period=aio.mk_timedelta(E, 600000000),
                                    _data_encoding=b'a/b', _metadata_encoding=b'c/d',
                                    _is_closing=E.path.choice(2, 'was-closing') == 1, _connecting=True, _keepalive_task=None,
                                    _is_server_alive=E.path.choice(2, 'alive-flag-after-previous-connection') == 1)
    now = E.fresh_int('now')
    E.path.ghost['now'] = I(now)
    sock.attrs['_last_server_keepalive'] = aio.mk_datetime(E, E.fresh_int('stale'))
    old_sc, old_q = sock.attrs['_stream_control'], sock.attrs['_send_queue']
    # a request retained by the lease mechanism of the previous connection, and a lease it had been granted
    old_rq = E.call(E.import_module('asyncio').getattr(E, 'Queue'), [])
    E.call(E.getattr(old_rq, 'put_nowait'), [SOpaque('frame', 'stale-request-of-the-old-connection')])
    sock.attrs['_request_queue'] = old_rq
    old_lease = E.call(E.lookup('rsocket/lease.py::DefinedLease'), [7])
    sock.attrs['_requester_lease'] = old_lease
    nt = aio.new_future(E)
    sock.attrs['_next_transport'] = nt
    transport = SOpaque('transport', 'next-transport')
    provider = SOpaque('provider', 'provider')
    sock.attrs['_transport_provider'] = provider
    log = OpaqueLog(E, returns={'__anext__': lambda *a: aio.Awaitable('ready', result=transport), 'connect': lambda *a: aio.Awaitable('ready')})
    tasks = []
    E.create_task_hook = lambda E_, t, coro: tasks.append(coro.func.name)
    E.await_value(E.call(E.getattr(sock, 'connect'), []))
    E.cover('connected')
    P = E.prove
    sc = sock.attrs['_stream_control']
    P('reconnect:fresh_stream_table', sc is not old_sc and sc.attrs['_streams'] == {})
    first = E.call(E.getattr(sc, 'allocate_stream'), [])
    P('reconnect:stream_ids_restart_from_1', first == 1)
    q = sock.attrs['_send_queue']
    P('reconnect:fresh_send_queue_with_SETUP_only', q is not old_q and len(q.attrs['_queue']) == 1 and is_frame(q.attrs['_queue'][0], 'SetupFrame'))
    P('reconnect:nothing_retained_for_the_old_connection_is_carried_over[retention queue replaced by an empty one]',
      sock.attrs['_request_queue'] is not old_rq and M_len(sock.attrs['_request_queue']) == 0)
    P('reconnect:fresh_reassembly_cache', sock.attrs['_frame_fragment_cache'].attrs['_frames_by_stream_id'] == {})
    lease = sock.attrs['_requester_lease']
    P('reconnect:the_lease_of_the_old_connection_is_discarded', lease is not old_lease)
    P('reconnect:initial_lease', (lease.cls.name == 'DefinedLease' and lease.attrs['maximum_request_count'] == 0) if sock.attrs['_honor_lease']
      else lease.cls.name == 'NullLease')
    P('reconnect:receiver_and_sender_restarted', sorted(tasks) == ['_receiver', '_sender'] and sock.attrs['_is_closing'] is False)
    P('reconnect:next_transport_taken_from_provider', nt.attrs['state'] == 'result' and nt.attrs['value'] is transport
      and len(log.of(provider, '__anext__')) == 1 and len(log.of(transport, 'connect')) == 1)
    P('reconnect:server_considered_alive_again[whatever ended the previous connection]', sock.attrs['_is_server_alive'] is True)
    P('reconnect:keepalive_clock_restarted', I(sock.attrs['_last_server_keepalive'].attrs['t']) == I(now))
    P('reconnect:not_connecting_any_more', sock.attrs['_connecting'] is False)
    P('reconnect:responder_lease_reset_and_endpoint_open', sock.attrs['_responder_lease'].cls.name == 'NullLease' and sock.attrs['_is_closing'] is False)


def M_len(q):
    """number of retained items, whatever container holds them"""
    a = q.attrs
    return len(a['_queue']) if '_queue' in a else len(a['items'])


RCL = CLIENT + '._reconnect_listener'


@harness('c17.reconnect_listener.step', ['C17', 'C11'], functions=[RCL, CLIENT + '._close', CLIENT + '.reconnect', BASE + '.close'],
         assumptions=['asyncio.Event modelled; one iteration of the listener loop (service loop)'])
def reconnect_listener(E):
    sock, table, ctable = mk_client(E, _connecting=E.path.choice(2, 'already-connecting') == 1)
    ev = E.call(E.import_module('asyncio').getattr(E, 'Event'), [])
    sock.attrs['_connect_request_event'] = ev
    old_future = aio.new_future(E, 'result', SOpaque('transport', 'old-transport'))
    sock.attrs['_next_transport'] = old_future
    order = []
    E.stubs[CLIENT + '._close'] = lambda E_, f, a, k: (order.append(('close', k.get('reconnect', a[1] if len(a) > 1 else False),
                                                                    sock.attrs['_next_transport'] is old_future, sock.attrs['_connecting'],
                                                                    ev.attrs['flag'])), aio.Awaitable('ready'))[1]
    E.stubs[CLIENT + '.connect'] = lambda E_, f, a, k: (order.append(('connect', sock.attrs['_next_transport'])), aio.Awaitable('ready'))[1]
    E.stubs[BASE + '.stop_all_streams'] = lambda E_, f, a, k: order.append(('stop_all_streams',))
    E.await_value(E.call(E.getattr(sock, 'reconnect'), []))
    E.prove('reconnect():only_sets_the_request_event', ev.attrs['flag'] is True and not order)
    n = [0]

    def on_suspend(E_, what):
        # the request event is already set, so the first wait() returns at once; the next time the listener really parks
        # (event clear) the service loop is ended by cancellation: one iteration is observed
        n[0] += 1
        E_.throw('CancelledError')
    E.suspend_hook = on_suspend
    was_connecting = sock.attrs['_connecting']
    E.await_value(E.call(E.getattr(sock, '_reconnect_listener'), []))
    E.cover('listener-step')
    steps = [o[0] for o in order]
    E.prove('listener:keeps_serving[after handling - or ignoring - a request it waits for the next one]', n[0] == 1)
    if was_connecting:
        E.prove('listener:request_ignored_while_already_connecting', steps == ['stop_all_streams'])
    else:
        E.prove('listener:close_old_then_connect_new', steps == ['close', 'connect', 'stop_all_streams'])
        E.prove('listener:old_connection_closed_in_reconnect_mode_before_the_transport_future_is_replaced',
                order[0][1] is True and order[0][2] is True)
        E.prove('listener:marked_as_connecting_and_request_consumed_before_the_old_connection_is_closed[further requests meanwhile are not lost, concurrent ones ignored]',
                order[0][3] is True and order[0][4] is False)
        nf = order[1][1]
        E.prove('listener:fresh_pending_transport_future_installed_before_connect', nf is not old_future and nf.attrs['state'] == 'pending')
    E.prove('listener:request_event_cleared', ev.attrs['flag'] is False)


@harness('c11.client_close', ['C11', 'C17'], functions=[CLIENT + '._close', CLIENT + '.close', BASE + '.close', BASE + '._close_transport'],
         assumptions=['Transport.close is abstract and may raise'])
def client_close(E):
    sock, table, ctable = mk_client(E)
    transport = SOpaque('transport', 'transport')
    resolved = E.path.choice(2, 'transport-resolved') == 1
    sock.attrs['_next_transport'] = aio.new_future(E, 'result', transport) if resolved else aio.new_future(E)
    rtask = aio.new_task(E, None)
    sock.attrs['_reconnect_task'] = rtask
    order = []
    E.stubs[CLIENT + '._stop_tasks'] = lambda E_, f, a, k: (order.append('stop_tasks'), aio.Awaitable('ready'))[1]
    log = OpaqueLog(E, returns={'close': lambda E_, o, m, a, k: (order.append('transport.close'), aio.Awaitable('ready'))[1]},
                    may_raise=lambda o, m: o.kind == 'transport')

    def on_suspend(E_, what):
        kind, obj = what
        if kind == 'future' and obj.attrs.get('cancel_requested'):
            obj.attrs['state'] = 'cancelled'
    E.suspend_hook = on_suspend
    reconnect = E.path.choice(2, 'reconnect-mode') == 1
    try:
        E.await_value(E.call(E.getattr(sock, '_close'), [reconnect]))
    except PyExc as e:
        E.prove('close:transport_close_failure_is_contained', False)
        return
    E.cover('closed')
    E.prove('close:reconnect_listener_cancelled_unless_reconnecting', rtask.attrs['cancel_requested'] is (not reconnect))
    E.prove('close:tasks_stopped_before_transport_closed', order[:1] == ['stop_tasks'])
    closes = log.of(transport, 'close')
    E.prove('close:old_transport_closed_once_iff_it_was_established', len(closes) == (1 if resolved else 0))


RCV = BASE + '._receiver'


@harness('c11.receiver_exit', ['C11', 'C07', 'C17'], functions=[RCV, BASE + '._on_connection_closed'],
         assumptions=['_receiver_listen is used through its exit behaviours: returns (EOF / not alive), raises RSocketTransportError, '
                      'is cancelled (CancelledError), or raises another Exception',
                      'RequestHandler.on_close is abstract'])
def receiver_exit(E):
    sock, table, ctable = mk_endpoint(E)
    app = sock.attrs['_handler']
    how = E.path.choice(4, 'listen-ends-by')
    order = []

    def listen(E_, f, a, k):
        if how == 1:
            raise PyExc(E_.make_exc(E_.lookup('rsocket/exceptions.py::RSocketTransportError')))
        if how == 2:
            E_.throw('CancelledError')
        if how == 3:
            E_.throw('ValueError', 'bug')
        return aio.Awaitable('ready')
    E.stubs[SERVER + '._receiver_listen'] = listen
    E.stubs[BASE + '._receiver_listen'] = listen
    E.stubs[BASE + '.stop_all_streams'] = lambda E_, f, a, k: order.append('stop_all_streams')
    E.stubs[BASE + '._stop_tasks'] = lambda E_, f, a, k: (order.append('stop_tasks'), aio.Awaitable('ready'))[1]
    log = OpaqueLog(E, returns={'on_close': lambda E_, o, m, a, k: (order.append('on_close'), aio.Awaitable('ready'))[1]})
    try:
        E.await_value(E.call(E.getattr(sock, '_receiver'), []))
    except PyExc as e:
        E.cover('unknown-error')
        E.prove('receiver:only_unknown_errors_propagate', how == 3)
        return
    E.cover('connection-ended')
    E.prove('receiver:eof_transport_error_and_cancellation_all_run_the_clean_up', how in (0, 1, 2))
    E.prove('receiver:clean_up_once_in_order[fail pending, notify application, stop sending]', order == ['stop_all_streams', 'on_close', 'stop_tasks'])
    E.prove('receiver:pending_requests_are_failed_before_application_code_that_may_suspend_runs[a close or reconnect during on_close must not leave awaitables unresolved]',
            'stop_all_streams' in order and 'on_close' in order and order.index('stop_all_streams') < order.index('on_close'))
    E.prove('receiver:close_notification_exactly_once_with_the_socket', len(log.of(app, 'on_close')) == 1 and log.of(app, 'on_close')[0][2][0] is sock)


SND = BASE + '._sender'


@harness('c11.sender_exit', ['C11', 'C15', 'C17'], functions=[SND, CLIENT + '._finally_sender'],
         assumptions=['Transport.send_frame is abstract and may raise RSocketTransportError (wrapped transport failure); '
                      'the connection-closed clean-up belongs to the receiver (c11.receiver_exit): the sender must not run it a second time'])
def sender_exit(E):
    sock, table, ctable = mk_endpoint(E, symbolic_queue=False)
    E.import_module('asyncio')
    q = E.call(E.lookup('rsocket/queue_peekable.py::QueuePeekable'), [])
    sock.attrs['_send_queue'] = q
    E.call(E.getattr(q, 'put_nowait'), [SOpaque('frame', 'f1', attrs={'sent_future': None}, props={'isinstance:FrameFragmentMixin': False})])
    transport = SOpaque('transport', 'transport')
    # the transport may still be being established when the sender task starts (client: the future of connect())
    late = E.path.choice(2, 'transport-available-only-later') == 1
    tf = aio.new_future(E) if late else aio.new_future(E, 'result', transport)
    at_wait = []

    def on_suspend(E_, what):
        if what[0] == 'future' and what[1] is tf:
            at_wait.append(list(order))
            tf.attrs['state'], tf.attrs['value'] = 'result', transport
        return None
    E.suspend_hook = on_suspend
    E.stubs[SERVER + '._current_transport'] = lambda E_, f, a, k: tf
    how = E.path.choice(3, 'write-outcome')
    terr = E.make_exc(E.lookup('rsocket/exceptions.py::RSocketTransportError'))
    order = []

    def send(E_, o, m, a, k):
        if how == 1:
            raise PyExc(terr)
        if how == 2:
            E_.throw('CancelledError')
        return aio.Awaitable('ready')
    log = OpaqueLog(E, returns={'send_frame': send, 'on_send_queue_empty': lambda *a: aio.Awaitable('ready'),
                                'on_close': lambda *a: (order.append('on_close'), aio.Awaitable('ready'))[1]})
    alive = [True, False]
    E.stubs[SERVER + '.is_server_alive'] = lambda E_, f, a, k: alive.pop(0) if alive else False
    E.stubs[BASE + '.stop_all_streams'] = lambda E_, f, a, k: order.append('stop_all_streams')
    E.stubs[BASE + '._stop_tasks'] = lambda E_, f, a, k: (order.append('stop_tasks'), aio.Awaitable('ready'))[1]
    E.stubs[SERVER + '._finally_sender'] = lambda E_, f, a, k: (order.append('finally_sender'), aio.Awaitable('ready'))[1]
    E.stubs[BASE + '._finally_sender'] = E.stubs[SERVER + '._finally_sender']
    E.stubs[BASE + '._before_sender'] = lambda E_, f, a, k: order.append('before_sender[%d frames written]' % len(log.of(transport, 'send_frame')))
    E.stubs[SERVER + '._before_sender'] = E.stubs[BASE + '._before_sender']
    try:
        E.await_value(E.call(E.getattr(sock, '_sender'), []))
    except PyExc as e:
        E.prove('sender:transport_errors_and_cancellation_are_absorbed', False)
        return
    E.cover('sender-ended')
    E.prove('@C15,C11,C17:sender:nothing_is_started_while_the_transport_is_still_being_established[keepalives start with the connection, not before]',
            at_wait == ([[]] if late else []))
    E.prove('sender:only_its_own_hooks_run[start hook once before the first write - it starts the keepalives -, finaliser once at the end; '
            'close notification and stream clean-up are the receiver\'s job]', order == ['before_sender[0 frames written]', 'finally_sender'])


# --------------------------------------------------------------------------- client receiver: life cycle of the keepalive watchdog

@harness('c15.client.receiver_listen', ['C15', 'C11', 'C17'], functions=[CLIENT + '._receiver_listen', 'rsocket/helpers.py::cancel_if_task_exists',
                                                                      BASE + '._start_task_if_not_closing'],
         assumptions=['asyncio: awaiting a task that was cancelled raises CancelledError in the awaiter once the task has ended',
                      'RSocketBase._receiver_listen is used through its exit behaviours (returns / raises / is cancelled): c11.receiver_exit'])
def client_receiver_listen(E):
    """Every connection gets exactly one keepalive-timeout watchdog, started before frames are processed and cancelled on
    every way the listener can end - so no watchdog of an old connection survives a reconnect and fires on the new one."""
    sock, table, ctable = mk_client(E, _is_closing=False)
    how = E.path.choice(4, 'listen-ends-by')
    tasks = []
    E.create_task_hook = lambda E_, t, coro: tasks.append((t, coro))
    terr = E.make_exc(E.lookup('rsocket/exceptions.py::RSocketTransportError'))
    started_before = []

    def base_listen(E_, f, a, k):
        started_before.append(len(tasks))
        if how == 1:
            raise PyExc(terr)
        if how == 2:
            E_.throw('CancelledError')
        if how == 3:
            E_.throw('ValueError', 'bug')
        return aio.Awaitable('ready')
    E.stubs[BASE + '._receiver_listen'] = base_listen

    def on_suspend(E_, what):
        kind, obj = what
        if kind == 'future' and obj.attrs.get('cancel_requested'):
            obj.attrs['state'] = 'cancelled'          # the cancelled watchdog ends; awaiting it raises CancelledError
        return None
    E.suspend_hook = on_suspend
    escaped = None
    try:
        E.await_value(E.call(E.getattr(sock, '_receiver_listen'), []))
    except PyExc as e:
        escaped = e.value
    E.cover('listener-ended')
    P = E.prove
    P('watchdog:exactly_one_started_per_connection_before_frames_are_processed',
      len(tasks) == 1 and tasks[0][1].func.name == '_keepalive_timeout_task' and started_before == [1])
    P('watchdog:cancelled_however_the_listener_ends', len(tasks) == 1 and tasks[0][0].attrs['cancel_requested'] is True)
    P('watchdog:outcome_of_the_listener_is_passed_on_unchanged',
      (how == 0 and escaped is None) or (how == 1 and escaped is terr) or (how == 2 and escaped is not None and escaped.cls.name == 'CancelledError')
      or (how == 3 and escaped is not None and escaped.cls.name == 'ValueError'))



@harness('c15.client.sender_hooks', ['C15', 'C11', 'C17'], functions=[CLIENT + '._before_sender', CLIENT + '._finally_sender', CLIENT + '._stop_tasks',
                                                                   'rsocket/helpers.py::cancel_if_task_exists'],
         assumptions=['asyncio task model: cancel() on a pending task requests cancellation; awaiting it then raises CancelledError'])
def client_sender_hooks(E):
    """The client's sender starts exactly one keepalive-send task per connection and its finaliser (and _stop_tasks) cancel
    exactly that task: keepalives start with the connection and stop with it."""
    sock, table, ctable = mk_client(E, _is_closing=False, _keepalive_task=None, _sender_task=None, _receiver_task=None)
    tasks = []
    E.create_task_hook = lambda E_, t, coro: tasks.append((t, coro))

    def on_suspend(E_, what):
        kind, obj = what
        if kind == 'future' and obj.attrs.get('cancel_requested'):
            obj.attrs['state'] = 'cancelled'
        return None
    E.suspend_hook = on_suspend
    E.call(E.getattr(sock, '_before_sender'), [])
    E.cover('started')
    E.prove('sender_hooks:exactly_one_keepalive_send_task_started_and_remembered',
            len(tasks) == 1 and tasks[0][1].func.name == '_keepalive_send_task' and sock.attrs['_keepalive_task'] is tasks[0][0])
    which = E.path.choice(2, 'stopped-by')
    if which == 0:
        E.await_value(E.call(E.getattr(sock, '_finally_sender'), []))
    else:
        E.await_value(E.call(E.getattr(sock, '_stop_tasks'), []))
    E.prove('sender_hooks:that_task_is_cancelled_when_the_sender_ends_or_the_tasks_are_stopped', tasks[0][0].attrs['cancel_requested'] is True)
    closing = mk_client(E, _is_closing=True, _keepalive_task=None)[0]
    E.call(E.getattr(closing, '_before_sender'), [])
    E.prove('sender_hooks:no_keepalives_for_an_endpoint_that_is_closing', len(tasks) == 1 and closing.attrs['_keepalive_task'] is None)



@harness('c11.cancel_if_task_exists', ['C11', 'C17', 'C15'], functions=['rsocket/helpers.py::cancel_if_task_exists'],
         assumptions=['asyncio task model: cancel() on a pending task requests cancellation; the task then ends by CancelledError, by an '
                      'exception of its own clean-up, or normally (it may swallow the cancellation)'])
def cancel_if_task_exists_contract(E):
    """What _stop_tasks / close / reconnect rely on: when it returns, the task is no longer running (so nothing of the old
    connection runs concurrently with what is set up next), whatever way the task ended, and nothing escapes."""
    E.import_module('asyncio')
    kind = E.path.choice(3, 'task')              # none / already finished / still running
    task = None if kind == 0 else aio.new_task(E, None)
    if kind == 1:
        task.attrs['state'] = ['result', 'cancelled', 'exception'][E.path.choice(3, 'finished-how')]
        if task.attrs['state'] == 'exception':
            task.attrs['value'] = E.make_exc('ValueError', 'old failure')
    ends = E.path.choice(3, 'ends-by') if kind == 2 else None
    waited = []

    def on_suspend(E_, what):
        k, obj = what
        if k == 'future' and obj is task:
            waited.append(obj.attrs['cancel_requested'])
            if ends == 0:
                obj.attrs['state'] = 'cancelled'
            elif ends == 1:
                obj.attrs['state'], obj.attrs['value'] = 'exception', E_.make_exc('RuntimeError', 'clean-up failed')
            else:
                obj.attrs['state'], obj.attrs['value'] = 'result', None
        return None
    E.suspend_hook = on_suspend
    try:
        E.await_value(E.call(E.lookup('rsocket/helpers.py::cancel_if_task_exists'), [task]))
    except PyExc as e:
        E.prove('cancel_if_task_exists:nothing_escapes[%s]' % e.value.cls.name, False)
        return
    E.cover('returned')
    if kind == 2:
        E.prove('cancel_if_task_exists:a_running_task_is_asked_to_cancel_and_then_waited_for', waited == [True])
        E.prove('cancel_if_task_exists:returns_only_after_the_task_has_ended', task.attrs['state'] != 'pending')
    else:
        E.prove('cancel_if_task_exists:no_task_or_a_finished_one_is_left_alone', not waited and (task is None or task.attrs['cancel_requested'] is False))


@harness('c14.connect_subscribes_lease_publisher', ['C14', 'C16'], functions=[BASE + '.connect', BASE + '._subscribe_to_lease_publisher',
                                                                         BASE + '.LeaseSubscriber.__init__'])
def connect_lease_subscription(E):
    """A client that honours leases subscribes to its lease publisher when it connects - exactly once, with a subscriber that
    announces on this socket (c14.send_lease) - and an endpoint without lease support never does."""
    sock, table, ctable = mk_client(E, _setup_payload=None, _keep_alive_period=aio.mk_timedelta(E, 500000),
                                    _max_lifetime_period=aio.mk_timedelta(E, 600000000), _data_encoding=b'a/b', _metadata_encoding=b'c/d')
    honor = E.path.choice(2, 'honor_lease') == 1
    has_pub = E.path.choice(2, 'lease-publisher') == 1
    pub = SOpaque('publisher', 'lease-publisher') if has_pub else None
    sock.attrs['_honor_lease'] = honor
    sock.attrs['_lease_publisher'] = pub
    sock.attrs['_send_queue'] = E.call(E.lookup('rsocket/queue_peekable.py::QueuePeekable'), [])
    log = OpaqueLog(E)
    E.await_value(E.call(E.getattr(E.lookup(BASE), 'connect'), [sock]))
    E.cover('connected')
    subs = log.of(pub, 'subscribe') if pub is not None else []
    if honor and has_pub:
        E.prove('connect:lease_publisher_subscribed_exactly_once_with_a_subscriber_bound_to_this_socket',
                len(subs) == 1 and isinstance(subs[0][2][0], SObj) and subs[0][2][0].cls.name == 'LeaseSubscriber'
                and subs[0][2][0].attrs.get('_socket') is sock)
    else:
        E.prove('connect:no_subscription_without_lease_support', not subs)
