"""Contract harness registry and helpers shared by the sidecar contract modules."""
import z3

from .values import *   # noqa
from . import engine as ENG
from . import models as M

REGISTRY = []


def thorough():
    """True in the thorough tier: contract modules then also register their bounded stand-ins with larger bounds."""
    import os
    return os.environ.get('PYVC_TIER') == 'thorough'


class Harness:
    def __init__(self, name, fn, props, backend='native', desc='', functions=(), replay=None, assumptions=(),
                 kind='proof', max_paths=20000, timeout_s=None, fallback=None):
        self.name = name
        self.fn = fn
        self.props = list(props)
        self.backend = backend
        self.desc = desc
        self.functions = list(functions)      # qualnames of the functions under contract this harness verifies
        self.replay = replay                  # name of native replay function (contracts/replay_*.py) or None
        self.assumptions = list(assumptions)
        self.kind = kind                      # 'proof' | 'bounded'
        self.max_paths = max_paths
        self.timeout_s = timeout_s
        # regex of bounded stand-in harnesses that decide the same clauses without this harness's loop contract: when ONLY
        # loop-contract obligations (invariant entry/preservation, variant) are refuted here and the stand-ins pass, the verdict
        # is 'undecided - loop contract out of date', not a violation (DESIGN 8.9)
        self.fallback = fallback
        self.module = fn.__module__


def harness(name, props, **kw):
    def deco(fn):
        REGISTRY.append(Harness(name, fn, props, **kw))
        return fn
    return deco


def both_backends(name, props, **kw):
    """Register the same contract once per codec back end (native struct / cbitstruct)."""
    def deco(fn):
        REGISTRY.append(Harness(name + '@native', fn, props, backend='native', **kw))
        REGISTRY.append(Harness(name + '@cbitstruct', fn, props, backend='cbitstruct', **kw))
        return fn
    return deco


# --------------------------------------------------------------------------- common stubs (dropped text, DESIGN §3)

def install_common_stubs(E):
    E.stubs['rsocket/logger.py::logger'] = lambda E_, f, a, k: M.BlackHole()
    E.stubs['rsocket/frame_logger.py::log_frame'] = lambda E_, f, a, k: None
    E.dropped.update(['logger().* calls (no-ops)', 'log_frame (no-op)', 'type annotations', 'docstrings',
                      '__slots__ restrictions'])


# --------------------------------------------------------------------------- helpers for contracts

def expect_raises(E, thunk, cls_ref=None):
    """Run thunk; returns ('ok', value) or ('raise', exc SObj)."""
    try:
        return 'ok', thunk()
    except PyExc as e:
        return 'raise', e.value


def exc_is(E, exc, ref):
    cls = E.lookup(ref) if isinstance(ref, str) and '::' in ref else (ENG.EXC[ref] if isinstance(ref, str) else ref)
    return exc.cls.issubclass(cls)


def new_obj(E, ref, **attrs):
    """Pre-state shape of an instance: exactly the given attributes are set (no __init__ is run)."""
    cls = E.lookup(ref) if isinstance(ref, str) else ref
    o = SObj(cls, dict(attrs))
    o.is_shape = True       # see Engine.getattr: reading an attribute every __init__ sets but the shape lacks is a
    return o                # stale contract (undecided), not an AttributeError of the code


def instantiate_forall(q, *witness):
    """Logical consequence of a ForAll formula at the given witness terms."""
    assert z3.is_quantifier(q) and q.is_forall()
    ws = list(witness)
    n = q.num_vars()
    assert len(ws) == n
    # de Bruijn: var 0 is the *last* bound variable
    return z3.substitute_vars(q.body(), *reversed(ws))


class OpaqueLog:
    """Ghost log of calls into opaque (application / abstract) objects."""

    def __init__(self, E, returns=None, may_raise=None):
        self.E = E
        self.calls = []
        self.returns = returns or {}
        self.may_raise = may_raise      # None | fn(obj, method) -> bool
        E.opaque_call = self
        E.path.ghost['olog'] = self

    def __call__(self, E, obj, method, args, kwargs):
        self.calls.append((obj, method, tuple(args), dict(kwargs)))
        key = (obj.kind, method)
        if self.may_raise is not None and self.may_raise(obj, method):
            if E.path.choice(2, 'opaque-raise:%s.%s' % (obj.kind, method)) == 1:
                raise PyExc(SObj(ENG.EXC['Exception'], {'args': (), 'from_opaque': (obj.ident, method)}))
        r = self.returns.get(key)
        if r is None:
            r = self.returns.get(method)
        if callable(r):
            return r(E, obj, method, args, kwargs)
        if r is None and key not in self.returns and method not in self.returns:
            # no contract says what this operation returns: the result may be ignored or passed on, but nothing may be
            # decided from it (its truth value, its identity with None, awaiting it -> undecided, never a guess)
            return SOpaque('unspecified-result', '%s.%s()' % (obj.ident, method))
        return r

    def of(self, obj=None, method=None):
        return [c for c in self.calls if (obj is None or c[0] is obj) and (method is None or c[1] == method)]


def state_attr(obj, name, init=0):
    """Name of the private attribute of `obj` that plays the role the contract knows as `name`: the name itself if the
    object still has it, else the single private attribute whose value after construction is `init` (an int counter that
    was renamed).  Undecided if that does not identify one."""
    if name in obj.attrs:
        return name
    cands = [k for k, v in obj.attrs.items() if k.startswith('_') and type(v) is type(init) and v == init]
    if len(cands) == 1:
        return cands[0]
    raise Unsupported('contract out of date: no attribute of %s plays the role of %r' % (obj.cls.name, name))
