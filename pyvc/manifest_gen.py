"""Regenerates /verif/MANIFEST.json from the table below (python3 -m pyvc.manifest_gen)."""
import json
import os

ROOT = os.path.dirname(os.path.dirname(os.path.abspath(__file__)))

TRUST = ('Trusted: the pyvc engine (symbolic interpreter + models of struct/cbitstruct/io/asyncio/datetime, '
         'conformance-checked, bounded), z3/cvc5, CPython semantics as modelled (mathematical ints, floats as exact reals). ')

CLAIMS = {
    'C13': dict(
        level='proof',
        text='Every obligation generated from the real ASTs of StreamControl (allocate loop with inductive invariant and variant, '
             'register/finish/availability/dispatch, first ids) is discharged by z3 for all table contents, all current ids and all '
             'iteration counts; the history statement follows by induction over operations from the per-operation contracts '
             '(Inv13 established by __init__, preserved by every operation).',
        note=TRUST + 'Id spaces proved: 2^31-1 (shipped) and the reduced spaces 3, 7, 15, 0x7F as separate obligation families; '
             'the float in `attempt_counter > M/2` is treated as an exact real.',
        technique='contract-based deductive verification: VCs from the real AST (loop invariant + variant, quantified table invariant), z3',
        design='5/C13'),
    'C02': dict(
        level='proof',
        text='For each of the 14 frame types, every metadata/data shape and both codec back ends, obligations generated from the real '
             'ASTs are discharged for all field values in the wire-format ranges: serialize() equals the wire-format spec function '
             '(written from the RSocket layouts, not from frame.py), parse_or_ignore(spec bytes) returns the same fields, re-encoding '
             'the parsed frame gives the same bytes, and length-prefix + prefix + data/metadata writes equal the one-shot encoding; '
             'helper pairs, both header parsers, the builders and TransportTCP.serialize_partial have their own contracts.',
        note=TRUST + 'Back-end independence is shown by verifying the same contract under both import outcomes of cbitstruct; the C '
             'code of struct/cbitstruct is an assumed model (conformance-checked, bounded).',
        technique='contract-based deductive verification: VCs from the real AST against a wire-format spec function, bit-slice normal form + z3',
        design='5/C02'),
    'C04': dict(
        level='proof',
        text='The real FrameParser.receive_data loop is verified against the recursive length-prefix splitter: per iteration exactly one '
             'complete record X[3:3+L] is handed to the decoder, its result (frame / nothing / invalid marker) is yielded once, the buffer '
             'advances by exactly that record, the loop exits exactly when no complete record is left and leaves the rest unchanged '
             '(inductive invariant + variant, all buffers and chunks); the step lemma of chunk independence (a complete first record is '
             'stable under appending bytes) is mechanised; message mode decodes exactly the message once and terminates; parse_or_ignore '
             'is total on arbitrary bytes and returns a frame only if its parse completed; the TCP / messaging frame sources feed exactly the bytes read.',
        note=TRUST + 'The induction over the number of records that turns the loop contract + step lemma into the statement about every '
             'partition of the stream is a two-line meta-level argument (DESIGN 5/C04), not mechanised.',
        technique='contract-based deductive verification: loop invariant/variant VCs from the real AST against a splitter spec, z3',
        design='5/C04'),
    'C03': dict(
        level='other',
        text='Deductive verification with one open known finding. All obligations generated from the real fragmenter generator (two '
             'loops with inductive invariants and variants over a ghost summary of the yielded fragments), new_frame_fragment, '
             'get_next_fragment, the un-fragmented path and every append step of FrameFragmentCache (fold step of the reassembly '
             'lemma, frame clause for other streams) are discharged for all data/metadata lengths, all fragment sizes >= 64, both '
             'framings and all five frame types - except the wire-size clause for fragments that carry metadata, which the tree '
             'genuinely violates by up to 3 bytes (listed in known_findings.json; the bound size+3 is proved instead). Level is '
             '"other" rather than "proof" because discharged < obligations on the unchanged tree.',
        note=TRUST + 'Generator protocol (successive __next__ = successive yields) and io.BytesIO.read are assumed models. The fold '
             'over the fragment sequence (induction on the number of fragments) is meta-level on top of the mechanised step.',
        technique='contract-based deductive verification: generator/loop-invariant VCs from the real AST with ghost yield summary, z3',
        design='5/C03'),
    'C14': dict(
        level='proof',
        text='Decision logic of the lease mechanism, from the real ASTs, for all grants, time-to-live values, counters, clock values and '
             'ARBITRARY queue contents (symbolic FIFO model): a DefinedLease answers True iff not expired and within the grant (ghost '
             'used <= granted invariant); send_request puts a request frame of each of the four types on the wire iff the lease allows, '
             'otherwise at the tail of the retention queue or raises QueueFull (never both, never lost silently); the initial lease grants '
             'nothing; handle_lease installs exactly the announced lease and its drain loop (inductive invariant + variant) moves a prefix '
             'of the retained frames, in order, one unit each, stopping exactly when empty or refused; send_lease announces exactly the '
             'published grant and ttl in ms; to_milliseconds is exact (after the fix recorded in known_findings.json).',
        note=TRUST + 'Wall clock replaced by a ghost clock that does not advance within one atomic segment; asyncio.Queue is an assumed '
             'FIFO model. Floats in to_milliseconds treated as exact reals.',
        technique='contract-based deductive verification: VCs from the real AST with ghost clock/credit and a symbolic FIFO queue, z3',
        design='5/C14'),
    'C05': dict(
        level='proof',
        text='The send queue is modelled as an ARBITRARY FIFO of sources with ghost stream / enqueue-sequence / started attributes. The '
             'queue invariant Inv_Q (per stream: FIFO by enqueue order, and only the oldest source of a stream may have started) is proved '
             'to be preserved by send_frame and by each of the three emission cases of the real _get_next_frame_to_send (quantified, '
             'unbounded), and every emitted frame is proved to belong to the head source, hence to the oldest source of its stream with '
             'no other source of that stream started. One sender iteration writes exactly that frame and resolves exactly its sent_future.',
        note=TRUST + 'L-QUEUE (legality at every emission => per-stream order and fragment contiguity of the wire log) is a meta-level '
             'induction over emissions. asyncio.Queue/QueuePeekable.peek and get_next_fragment are used through contracts (peek verified; '
             'get_next_fragment under C03). Bounded stand-ins, not counted as proved: send_priority_frame (queue length <= 5), '
             'contains_after_head (<= 4), and the bounded instances of the emission step that supply concrete counter-models.',
        technique='contract-based deductive verification: quantified queue invariant + ghost sequence numbers over a symbolic FIFO, z3',
        design='5/C05'),
}

NOT_YET = 'contracts for this property are not built yet'


def main():
    props = [json.loads(l)['id'] for l in open(os.path.join(ROOT, 'properties.jsonl'))]
    checks = []
    na = []
    for p in props:
        c = CLAIMS.get(p)
        if c is None or c.get('na'):
            na.append(dict(property_id=p, reason=(c or {}).get('na', NOT_YET)))
            continue
        checks.append(dict(
            property_id=p,
            quick_cmd='python3-vt -m pyvc.check %s --tier quick' % p,
            thorough_cmd='python3-vt -m pyvc.check %s --tier thorough' % p,
            evidence_file='evidence/%s.json' % p,
            replay_cmd_template='cd /repo && PYTHONPATH=/verif:/repo /venv/bin/python /verif/pyvc/replay_runner.py {path}',
            engine='pyvc',
            level_claimed=dict(category=c['level'], text=c['text'], design_ref='DESIGN.md ' + c['design']),
            level_note=c['note'],
            technique=c['technique']))
    m = dict(
        version=1,
        setup_cmd='python3-vt -m pyvc.selfcheck',
        hooks=dict(guard='RSOCKET_PY_VERIF',
                   enable='none needed: contracts are sidecar files under /verif/contracts; the engine reads /repo sources with ast.parse on every run; no instrumentation in /repo',
                   baseline_off_cmd='cd /repo && /venv/bin/python -m pytest -ra -q -p no:cacheprovider --timeout=900 --continue-on-collection-errors',
                   source_commits=[], add_only=True),
        engines=[dict(name='pyvc', path='pyvc/', serves_properties=[c['property_id'] for c in checks],
                      kind_free_text='verification-condition generator: path-wise symbolic execution of the real function ASTs of /repo '
                                     '(re-read on every run) against sidecar contracts (pre/post, loop invariants + variants, ghost state); '
                                     'obligations discharged by z3, cvc5 fallback; counter-models replayed on the real code under /venv/bin/python')],
        checks=checks,
        not_applicable=na,
        notes='See DESIGN.md. Exit codes of every check: 0 held, 1 violation (VIOLATION line), 2 undecided, 3 checker error.')
    json.dump(m, open(os.path.join(ROOT, 'MANIFEST.json'), 'w'), indent=1)
    print('checks:', [c['property_id'] for c in checks])


if __name__ == '__main__':
    main()
