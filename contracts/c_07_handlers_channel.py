"""K-HANDLER contracts (DESIGN Appendix A.5): request-channel, both roles, and its StreamSubscriber wrapper.

Abstract state: SC = _sent_complete, RC = _received_complete, T = stream registered (ghost: no finish_stream yet).
Invariant:  T <=> not (SC and RC)   once the request was sent / received."""
import z3

from pyvc.values import *   # noqa
from pyvc.engine import EXC
from pyvc.harness import harness, new_obj
from pyvc import models as M
from pyvc import aio
from contracts.khandler import *   # noqa
from contracts import khandler as K
from contracts.c_07_handlers_rr_stream import mk_payload, reenter_choices

CC = H + 'request_cahnnel_common.py::RequestChannelCommon'
CRQ = H + 'request_channel_requester.py::RequestChannelRequester'
CRS = H + 'request_cahnnel_responder.py::RequestChannelResponder'
CSUB = H + 'request_cahnnel_common.py::StreamSubscriber'
SH = 'rsocket/streams/stream_handler.py::StreamHandler'
FUNCS = [CC + '.' + n for n in ('__init__', 'setup', 'frame_received', 'dispose', '_complete_remote_subscriber',
                                'mark_completed_and_finish', '_finish_if_both_closed', 'subscribe', 'cancel', 'request',
                                '_set_sending_done')]


def mk_channel(E, role, has_publisher, sync_subscription=True, reenter=False):
    c = K.Ctx(E, fragment_size=E.fresh_int('fs', 64) if E.path.choice(2, 'fs') else None,
              reenter=reenter_choices if reenter else None)
    pub = SOpaque('publisher', 'local-publisher') if has_publisher else None
    ev = E.call(E.import_module('asyncio').getattr(E, 'Event'), []) if E.path.choice(2, 'sending_done-event') else None
    c.payload = None
    if role == 'requester':
        p, data, md = mk_payload(E)
        c.payload = (p, data, md)
        h = E.call(E.lookup(CRQ), [c.sock, p, pub, ev])
    else:
        h = E.call(E.lookup(CRS), [c.sock, pub, ev])
    c.subscription = h
    sid = E.fresh_int('sid', 1, 0x7FFFFFFF)
    h.attrs['stream_id'] = sid
    c.local_subscription = SOpaque('subscription', 'local-subscription')

    def subscribe(E_, obj, method, args, kwargs):
        if sync_subscription:
            E_.call(E_.getattr(args[0], 'on_subscribe'), [c.local_subscription])
        return None
    c.log.returns[('publisher', 'subscribe')] = subscribe
    c.event = ev
    return c, h, sid, pub


def T(c):
    return len(c.finishes()) == 0


def flags(h):
    return h.attrs['_sent_complete'], h.attrs['_received_complete']


# --------------------------------------------------------------------------- requester.subscribe

def _crq_subscribe(has_pub):
    def run(E):
        c, h, sid, pub = mk_channel(E, 'requester', has_pub, reenter=True)
        E.prove('init:a_new_channel_has_both_directions_open_and_no_subscribers_yet',
                h.attrs['_sent_complete'] is False and h.attrs['_received_complete'] is False and h.attrs['remote_subscriber'] is None
                and h.attrs['subscriber'] is None and h.attrs['_stream_finished'] is False)
        sub = SOpaque('subscriber', 'remote-subscriber')
        n = None
        if E.path.choice(2, 'initial_request_n'):
            # any value the application may pass: a non-positive one is refused (nothing with such a value ever goes out)
            n = E.fresh_int('n', -0x80000000, 0x7FFFFFFF)
            try:
                E.call(E.getattr(h, 'initial_request_n'), [n])
            except PyExc as e:
                E.cover('refused')
                E.prove('initial_request_n:rejects_only_non_positive', I(n) <= 0)
                E.prove('initial_request_n:raises_RSocketValueError', e.value.cls.issubclass(E.lookup('rsocket/exceptions.py::RSocketValueError')))
                E.prove('initial_request_n:a_refused_channel_sends_nothing', not c.emissions())
                return
            E.prove('@C08,C06,C01:initial_request_n:a_channel_request_never_carries_a_non_positive_initial_request_n', I(n) >= 1)
            if not E.decide(mk_bool(I(n) >= 1), 'n-positive'):
                return
        E.call(E.getattr(h, 'subscribe'), [sub])
        E.cover('subscribed')
        p, data, md = c.payload
        sig = c.signals(sub)
        E.prove('subscribe:on_subscribe_first_and_once', len(sig) >= 1 and sig[0][1] == 'on_subscribe' and sig[0][2][0] is h
                and [s[1] for s in sig].count('on_subscribe') == 1)
        if has_pub:
            subs = c.signals(pub)
            E.prove('subscribe:local_publisher_subscribed_once_with_wrapper',
                    len(subs) == 1 and subs[0][1] == 'subscribe' and subs[0][2][0] is h.attrs['subscriber'])
            w = h.attrs['subscriber']
            E.prove('subscribe:wrapper_bound_to_own_stream', w.attrs['_stream_id'] is sid and w.attrs['_socket'] is c.sock and w.attrs['_requester'] is h)
        reqs = [x for x in c.emissions() if x[1] == 'send_request']
        E.prove('subscribe:exactly_one_request_frame', len(reqs) == 1)
        f = reqs[0][2][0]
        E.prove('subscribe:REQUEST_CHANNEL_with_payload_on_own_stream',
                is_frame(f, 'RequestChannelFrame') and E.getattr(f, 'stream_id') is sid and E.getattr(f, 'data') is data
                and E.getattr(f, 'metadata') is md and E.getattr(f, 'fragment_size_bytes') is c.fs)
        want = 0x7FFFFFFF if n is None else n
        E.prove('subscribe:initial_request_n_transmitted_exactly', I(E.getattr(f, 'initial_request_n')) == I(want))
        E.prove('subscribe:complete_flag_iff_no_local_publisher', E.getattr(f, 'flags_complete') is (not has_pub))
        E.prove('subscribe:request_frame_is_the_first_frame_on_the_stream[re-entrant request/cancel in on_subscribe]',
                c.emissions()[0] is reqs[0])
        if not has_pub:
            E.prove('subscribe:sending_direction_closed_without_publisher', h.attrs['_sent_complete'] is True)
    return run


for _hp in (True, False):
    harness('k.channel_requester.subscribe[%s]' % ('publisher' if _hp else 'no-publisher'), ['C01', 'C07', 'C08', 'C06', 'C10'],
            functions=FUNCS + [CRQ + '.__init__', CRQ + '.subscribe', CRQ + '._send_channel_request', CRQ + '.setup'],
            replay='k_channel_subscribe')(_crq_subscribe(_hp))


# --------------------------------------------------------------------------- frames received by a subscribed channel (both roles)

def mk_subscribed(E, role, has_pub, sync=True, reenter=True):
    """Channel handler in an arbitrary state after the request was sent/received: SC, RC arbitrary but not both (T holds)."""
    c, h, sid, pub = mk_channel(E, role, has_pub, sync, reenter)
    E.call(E.getattr(h, 'setup'), [])
    remote = SOpaque('subscriber', 'remote-subscriber')
    h.attrs['remote_subscriber'] = remote
    state = E.path.choice(3, 'direction-state')     # 0: both open, 1: sent complete, 2: received complete
    h.attrs['_sent_complete'] = state == 1
    h.attrs['_received_complete'] = state == 2
    if not has_pub:
        h.attrs['_sent_complete'] = True
        if state == 2:
            raise PathEnd('both closed: stream not registered')
    c.log.calls.clear()
    return c, h, sid, pub, remote, state


def _channel_frame(role, kind, has_pub):
    def run(E):
        c, h, sid, pub, remote, state = mk_subscribed(E, role, has_pub)
        sc0, rc0 = flags(h)
        if kind == 'payload':
            f, data, md = sym_payload_frame(E, sid)
        elif kind == 'error':
            f = error_frame(E, sid)
        elif kind == 'cancel':
            f = frame(E, 'CancelFrame', sid)
        else:
            n = E.fresh_int('n', 1, 0x7FFFFFFF)
            f = frame(E, 'RequestNFrame', sid, request_n=n)
        tag = '%s,%s' % (kind, 'publisher' if has_pub else 'no publisher')
        try:
            E.call(E.getattr(h, 'frame_received'), [f])
        except PyExc as e:
            E.cover('raised')
            E.prove('frame_received:never_raises[%s]' % tag, False)
            return
        E.cover('handled')
        sig = [s[1] for s in c.signals(remote)]
        sc1, rc1 = flags(h)
        fin = c.finishes()
        own = [x for x in c.emissions() if x[1] != 'send_frame']
        E.prove('frame_received:no_payload_or_error_emitted_by_receiving_a_frame', own == [])
        if kind == 'payload':
            nxt, comp = B(E.getattr(f, 'flags_next')), B(E.getattr(f, 'flags_complete'))
            if rc0 is True:
                E.prove('PAYLOAD:nothing_signalled_after_receive_direction_closed', sig == [])
            elif sig == ['on_next']:
                s0 = c.signals(remote)[0]
                E.prove('PAYLOAD:on_next_only_for_next_flag', nxt)
                E.prove('PAYLOAD:element_is_the_frame_payload', payload_is(E, s0[2][0], data, md))
                E.prove('PAYLOAD:complete_flag_passed_exactly', B(E.truth(s0[3].get('is_complete'))) == comp)
            elif sig == ['on_complete']:
                E.prove('PAYLOAD:on_complete_only_for_complete_without_next', z3.And(z3.Not(nxt), comp))
            else:
                E.prove('PAYLOAD:at_most_one_signal', sig == [])
                E.prove('PAYLOAD:nothing_signalled_only_without_flags', z3.And(z3.Not(nxt), z3.Not(comp)))
            reent_cancel = any(is_frame(x[2][0], 'CancelFrame') for x in c.emissions() if x[1] == 'send_frame')
            if rc0 is not True and not reent_cancel:
                E.prove('PAYLOAD:receive_direction_closed_iff_complete', B(E.truth(rc1)) == comp)
            if not reent_cancel:
                E.prove('PAYLOAD:released_iff_both_directions_closed',
                        (len(fin) >= 1) == (E.truth(sc1) is True and E.truth(rc1) is True))
        elif kind == 'error':
            if rc0 is True:
                E.prove('ERROR:nothing_signalled_after_receive_direction_closed', sig == [])
            else:
                E.prove('ERROR:on_error_exactly_once', sig == ['on_error'])
            E.prove('@C08,C10:ERROR:ends_the_interaction_stream_released', len(fin) >= 1 and all(x[2][0] is sid for x in fin))
            if has_pub and sc0 is not True:
                ls = [x[1] for x in c.signals(c.local_subscription)]
                E.prove('@C08,C10:ERROR:local_publisher_cancelled', len(ls) >= 1 and all(m == 'cancel' for m in ls))
        elif kind == 'cancel':
            if has_pub:
                E.prove('CANCEL:local_subscription_cancelled_once', [x[1] for x in c.signals(c.local_subscription)] == ['cancel'])
            E.prove('CANCEL:sending_direction_closed', E.truth(sc1) is True)
            E.prove('CANCEL:nothing_signalled_to_remote_subscriber', sig == [])
            E.prove('CANCEL:released_iff_both_directions_closed', (len(fin) >= 1) == (E.truth(rc1) is True))
        else:
            if has_pub:
                E.prove('REQUEST_N:credit_forwarded_exactly_once', [(x[1], x[2]) for x in c.signals(c.local_subscription)] == [('request', (n,))])
            E.prove('REQUEST_N:changes_nothing_else', sig == [] and not fin and flags(h) == (sc0, rc0))
    return run


for _role in ('requester', 'responder'):
    for _kind in ('payload', 'error', 'cancel', 'request_n'):
        for _hp in (True, False):
            if _role == 'responder' and not _hp and _kind in ('payload',):
                pass
            harness('k.channel_%s.frame_received[%s,%s]' % (_role, _kind, 'publisher' if _hp else 'no-publisher'),
                    ['C01', 'C06', 'C07', 'C08', 'C09', 'C10', 'C11', 'C12'],
                    functions=FUNCS + ([CRS + '.frame_received'] if _role == 'responder' else []), replay='k_channel_frame',
                    assumptions=['peer legality: frames reach a channel handler only while its stream is registered (handle_stream contract); '
                                 'the library\'s own synthetic ERROR of stop_all_streams is included (state: receive direction already closed)'])(
                _channel_frame(_role, _kind, _hp))


# --------------------------------------------------------------------------- responder: the REQUEST_CHANNEL frame

def _crs_request(has_pub, sync):
    def run(E):
        c, h, sid, pub = mk_channel(E, 'responder', has_pub, sync)
        remote = SOpaque('subscriber', 'remote-subscriber') if E.path.choice(2, 'handler-gave-subscriber') else None
        E.call(E.getattr(h, 'subscribe'), [remote])
        if remote is not None:
            E.prove('responder.subscribe:on_subscribe_first', [s[1] for s in c.signals(remote)] == ['on_subscribe'])
        else:
            E.prove('responder.subscribe:no_subscriber_closes_receive_direction', h.attrs['_received_complete'] is True)
        n = E.fresh_int('n', 1, 0x7FFFFFFF)
        comp = E.path.choice(2, 'request-complete') == 1
        f = frame(E, 'RequestChannelFrame', sid, initial_request_n=n, flags_complete=comp)
        c.log.calls[:] = [x for x in c.log.calls]
        n0 = len(c.log.calls)
        tag = '%s,%s' % ('publisher' if has_pub else 'no publisher', 'sync' if sync else 'no on_subscribe yet')
        try:
            E.call(E.getattr(h, 'frame_received'), [f])
        except PyExc as e:
            E.cover('raised')
            E.prove('REQUEST_CHANNEL:never_raises[%s]' % tag, False)
            return
        E.cover('handled')
        new = c.log.calls[n0:]
        if has_pub:
            E.prove('REQUEST_CHANNEL:publisher_subscribed_once', [x[1] for x in new if x[0] is pub] == ['subscribe'])
        if has_pub and sync:
            E.prove('REQUEST_CHANNEL:initial_credit_forwarded_exactly_once',
                    [(x[1], x[2]) for x in new if x[0] is c.local_subscription] == [('request', (n,))])
            E.prove('REQUEST_CHANNEL:nothing_emitted_with_publisher', not [x for x in new if x[0] is c.sock and x[1] in K.EMIT])
        if not has_pub:
            em = [x for x in new if x[0] is c.sock and x[1] in K.EMIT]
            E.prove('REQUEST_CHANNEL:without_publisher_sending_direction_completed_once',
                    len(em) == 1 and em[0][1] == 'send_complete' and em[0][2][0] is sid and h.attrs['_sent_complete'] is True)
        if comp and remote is not None:
            E.prove('REQUEST_CHANNEL:complete_flag_completes_remote_subscriber_once', [x[1] for x in new if x[0] is remote] == ['on_complete'])
        if comp:
            E.prove('REQUEST_CHANNEL:complete_flag_closes_receive_direction', h.attrs['_received_complete'] is True)
        sc, rc = flags(h)
        E.prove('REQUEST_CHANNEL:released_iff_both_directions_closed',
                (len([x for x in new if x[0] is c.sock and x[1] == 'finish_stream']) >= 1) == (sc is True and rc is True)
                or (rc is True and sc is True and len(c.finishes()) >= 1))
    return run


for _hp in (True, False):
    for _sync in ((True, False) if _hp else (True,)):
        harness('k.channel_responder.request[%s,%s]' % ('publisher' if _hp else 'no-publisher', 'sync' if _sync else 'late-subscription'),
                ['C06', 'C07', 'C08', 'C10', 'C12'], functions=FUNCS + [CRS + '.frame_received', CRS + '.setup'])(_crs_request(_hp, _sync))


# --------------------------------------------------------------------------- wrapper (local publisher -> wire)

@harness('k.channel.stream_subscriber', ['C01', 'C06', 'C08', 'C10', 'C12'],
         functions=[CSUB + '.on_next', CSUB + '.on_complete', CSUB + '.on_error', CSUB + '.__init__', CC + '.mark_completed_and_finish'])
def channel_wrapper(E):
    role = ['requester', 'responder'][E.path.choice(2, 'role')]
    c, h, sid, pub, remote, state = mk_subscribed(E, role, True)
    if state == 1:
        raise PathEnd('reactive-streams legality: the local publisher signals nothing after its terminal signal')
    sc0, rc0 = flags(h)
    w = h.attrs['subscriber']
    what = E.path.choice(3, 'signal')
    if what == 0:
        v = SOpaque('payload', 'element')
        comp = E.path.choice(2, 'is_complete') == 1
        E.call(E.getattr(w, 'on_next'), [v], dict(is_complete=comp))
        E.cover('on_next')
        em = c.emissions()
        E.prove('wrapper.on_next:exactly_one_PAYLOAD_with_the_element_on_own_stream',
                len(em) == 1 and em[0][1] == 'send_payload' and em[0][2][0] is sid and em[0][2][1] is v
                and em[0][3].get('complete', False) is comp and em[0][3].get('is_next', True) is True)
        E.prove('wrapper.on_next:sending_closed_iff_complete', h.attrs['_sent_complete'] is comp)
    elif what == 1:
        E.call(E.getattr(w, 'on_complete'), [])
        E.cover('on_complete')
        em = c.emissions()
        E.prove('wrapper.on_complete:one_empty_PAYLOAD_complete_without_next',
                len(em) == 1 and em[0][1] == 'send_payload' and em[0][2][0] is sid and em[0][3].get('complete') is True
                and em[0][3].get('is_next') is False)
        E.prove('wrapper.on_complete:sending_closed', h.attrs['_sent_complete'] is True)
    else:
        ex = E.make_exc('RuntimeError', 'boom')
        E.call(E.getattr(w, 'on_error'), [ex])
        E.cover('on_error')
        em = c.emissions()
        E.prove('wrapper.on_error:one_ERROR_on_own_stream', len(em) == 1 and em[0][1] == 'send_error' and em[0][2][0] is sid and em[0][2][1] is ex)
        E.prove('@C08,C10:wrapper.on_error:ERROR_ends_the_interaction_stream_released', len(c.finishes()) >= 1)
    sc, rc = flags(h)
    if what == 2:
        # weaker than the open finding above and PROVED, so that the current half-close behaviour cannot degrade further
        E.prove('wrapper.on_error:at_least_the_sending_direction_is_closed', sc is True)
    E.prove('wrapper:released_iff_both_directions_closed', (len(c.finishes()) >= 1) == (sc is True and rc is True))
    if c.event is not None and sc is True:
        E.prove('wrapper:sending_done_event_set_when_sending_closed', c.event.attrs['flag'] is True)
    if c.finishes():
        E.prove('wrapper:emission_precedes_release', [m for (k, m) in c.order() if k == 'socket'][0] != 'finish_stream')


# --------------------------------------------------------------------------- local actions: cancel / request / dispose

def _channel_action(role, action):
    def run(E):
        c, h, sid, pub, remote, state = mk_subscribed(E, role, True, reenter=False)
        sc0, rc0 = flags(h)
        if action == 'cancel':
            E.call(E.getattr(h, 'cancel'), [])
            E.cover('cancelled')
            em = c.emissions()
            E.prove('cancel:exactly_one_CANCEL_on_own_stream',
                    len(em) == 1 and em[0][1] == 'send_frame' and is_frame(em[0][2][0], 'CancelFrame') and E.getattr(em[0][2][0], 'stream_id') is sid)
            E.prove('cancel:receive_direction_closed', h.attrs['_received_complete'] is True)
            E.prove('cancel:nothing_signalled_to_the_canceller', not c.signals(remote))
            if role == 'requester':
                E.prove('@C08,C09,C10:cancel:a_requesters_CANCEL_ends_the_channel[own publisher cancelled, stream released]',
                        (sc0 is True or [x[1] for x in c.signals(c.local_subscription)] == ['cancel']) and len(c.finishes()) >= 1)
            else:
                sc, rc = flags(h)
                E.prove('cancel:released_iff_both_directions_closed', (len(c.finishes()) >= 1) == (sc is True and rc is True))
        elif action == 'request':
            n = E.fresh_int('n', 1, 0x7FFFFFFF)
            E.call(E.getattr(h, 'request'), [n])
            E.cover('requested')
            em = c.emissions()
            E.prove('request:exactly_one_REQUEST_N_with_exactly_n',
                    len(em) == 1 and is_frame(em[0][2][0], 'RequestNFrame') and E.getattr(em[0][2][0], 'stream_id') is sid
                    and E.getattr(em[0][2][0], 'request_n') is n)
            # frames handed to the socket wait in the send queue: a later request must not change an earlier one
            n2 = E.fresh_int('n2', 1, 0x7FFFFFFF)
            E.call(E.getattr(h, 'request'), [n2])
            em = c.emissions()
            E.prove('request:a_later_request_leaves_the_queued_REQUEST_N_untouched[each credit transmitted with exactly its value]',
                    len(em) == 2 and em[1][2][0] is not em[0][2][0] and E.getattr(em[0][2][0], 'request_n') is n
                    and is_frame(em[1][2][0], 'RequestNFrame') and E.getattr(em[1][2][0], 'request_n') is n2
                    and E.getattr(em[1][2][0], 'stream_id') is sid)
        else:
            E.call(E.getattr(h, 'dispose'), [])
            E.cover('disposed')
            E.prove('dispose:cancels_local_subscription_once', [x[1] for x in c.signals(c.local_subscription)] == ['cancel'])
            E.prove('dispose:emits_nothing', not c.emissions())
    return run


for _role in ('requester', 'responder'):
    for _a in ('cancel', 'request', 'dispose'):
        harness('k.channel_%s.%s' % (_role, _a), ['C06', 'C08', 'C09', 'C10', 'C11'], functions=FUNCS + [SH + '.send_cancel', SH + '.send_request_n'],
                replay='k_channel_action')(_channel_action(_role, _a))
