"""C12 - hostile input and failing application code are contained.  (DESIGN 5/C12)
Part 1: totality of the decoder on ARBITRARY bytes (also serves C04: an undecodable record produces no frame)."""
import z3

from pyvc.values import *   # noqa
from pyvc.engine import EXC, PyFunc
from pyvc.harness import harness, both_backends, new_obj, OpaqueLog
from pyvc import models as M
from contracts import spec_wire as W
from contracts.c_02_codec import CLASSES, FR

PARSERS = [FR + c + '.parse' for c in CLASSES.values()]


def _poi(E):
    """parse_or_ignore on an arbitrary byte string: total, and a frame comes out only if its parse() completed."""
    buf = E.input('buffer', E.fresh_bytes('buf'))
    status = {}

    def wrap(qual):
        def stub(E_, f, args, kwargs):
            obj = args[0]
            try:
                r = E_.call_pyfunc(f, args, kwargs, nostub=True)
            except PyExc as e:
                status[id(obj)] = ('raised', e.value)
                raise
            status[id(obj)] = ('ok', None)
            return r
        return stub
    for c in CLASSES.values():
        cls = E.lookup(FR + c)
        f, owner = cls.lookup('parse')
        if owner is cls:
            E.stubs[f.qualname] = wrap(f.qualname)
    n = buf.len_term()
    b4 = buf.at(z3.IntVal(4))
    tid = b4 / 4
    ignore = (b4 / 2) % 2 == 1
    try:
        r = E.call(E.lookup(FR + 'parse_or_ignore'), [buf])
    except PyExc as e:
        E.cover('raised')
        E.prove('poi:raises_only_Exception_never_BaseException', e.value.cls.issubclass(EXC['Exception']))
        if e.value.cls.issubclass(E.lookup('rsocket/exceptions.py::RSocketProtocolError')):
            E.prove('poi:protocol_error_is_CONNECTION_ERROR',
                    e.value.attrs.get('error_code') == E.lookup('rsocket/error_codes.py::ErrorCode').members['CONNECTION_ERROR'])
            E.prove('poi:protocol_error_only_when_body_undecodable_and_not_ignorable',
                    z3.And(n >= 6, z3.Not(ignore)) if any(v[0] == 'raised' for v in status.values()) else False)
        elif e.value.cls.issubclass(E.lookup('rsocket/exceptions.py::ParseError')):
            E.prove('poi:ParseError_only_for_runt', n < 6)
        else:
            E.prove('poi:other_exception_only_for_unknown_type',
                    e.value.cls.issubclass(E.lookup('rsocket/exceptions.py::RSocketUnknownFrameType'))
                    and z3.And(n >= 6, z3.Or(tid == 0, tid > 14)))
        return
    if r is None:
        E.cover('ignored')
        parsed = [v for v in status.values()]
        E.prove('poi:none_only_for_ignorable_undecodable_or_misplaced_metadata_push',
                (len(parsed) == 1 and parsed[0][0] == 'raised' and ignore) if (parsed and parsed[0][0] == 'raised')
                else (len(parsed) == 1 and tid == 12))
        return
    E.cover('frame')
    E.prove('poi:frame_only_if_its_parse_completed', isinstance(r, SObj) and status.get(id(r), ('', 0))[0] == 'ok')
    E.prove('poi:frame_type_matches_header', z3.IntVal(E.getattr(r, 'frame_type').value) == tid)
    E.prove('poi:has_full_header', n >= 6)
    # whatever the decoder accepts from a (possibly hostile) peer can be written again: the KEEPALIVE echo re-serialises the
    # very frame that was received, and a frame that cannot be serialised kills the sender
    if r.cls.name == 'KeepAliveFrame':
        try:
            E.call(E.getattr(r, 'serialize'), [])
            E.prove('poi:an_accepted_KEEPALIVE_can_be_serialised_again[echo]', True)
        except PyExc as e:
            E.prove('poi:an_accepted_KEEPALIVE_can_be_serialised_again[echo]', False)


both_backends('c12.parse_or_ignore.total', ['C12', 'C04'], functions=[FR + 'parse_or_ignore', FR + 'is_frame_to_ignore'] + PARSERS,
              replay='c12_parse_total',
              assumptions=['reserved stream-id bit may be anything here (hostile input); struct/cbitstruct models as in C02'])(_poi)


# --------------------------------------------------------------------------- the frame logger runs on EVERY frame, in both directions

@harness('c12.log_frame.total', ['C12', 'C04', 'C11'], functions=['rsocket/frame_logger.py::log_frame'],
         assumptions=['logging calls are no-ops whose arguments are evaluated; the logging configuration (levels) is arbitrary'])
def log_frame_total(E):
    """log_frame is called by the receiver on whatever the parser yields - including the InvalidFrame marker of an
    undecodable frame - before anything else happens, and by the sender on every frame written.  Whatever the logging
    configuration: it never raises (an exception here would be charged to the frame and, for the marker, kill the receiver)."""
    E.stubs.pop('rsocket/frame_logger.py::log_frame', None)
    FRq = 'rsocket/frame.py::'
    kinds = ['InvalidFrame', 'SetupFrame', 'LeaseFrame', 'KeepAliveFrame', 'RequestResponseFrame', 'RequestFireAndForgetFrame',
             'RequestStreamFrame', 'RequestChannelFrame', 'RequestNFrame', 'CancelFrame', 'PayloadFrame', 'ErrorFrame',
             'MetadataPushFrame', 'ResumeFrame', 'ResumeOKFrame', 'ExtendedFrame']
    avail = [k for k in kinds if k in E.module('rsocket.frame').globals]
    k = avail[E.path.choice(len(avail), 'frame')]
    f = E.call(E.lookup(FRq + k), [])
    if k != 'InvalidFrame':
        E.setattr(f, 'stream_id', E.fresh_int('sid', 0, 0x7FFFFFFF))
        for a, v in (('data', [None, E.fresh_bytes('d')][E.path.choice(2, 'data')]), ('metadata', [None, E.fresh_bytes('m')][E.path.choice(2, 'md')])):
            E.setattr(f, a, v)
        extra = {'SetupFrame': dict(data_encoding=b'a/b', metadata_encoding=b'c/d', keep_alive_milliseconds=1, max_lifetime_milliseconds=2),
                 'LeaseFrame': dict(number_of_requests=3, time_to_live=9), 'KeepAliveFrame': dict(last_received_position=0),
                 'RequestStreamFrame': dict(initial_request_n=5), 'RequestChannelFrame': dict(initial_request_n=5),
                 'RequestNFrame': dict(request_n=7),
                 'ErrorFrame': dict(error_code=E.lookup('rsocket/error_codes.py::ErrorCode').members['REJECTED']),
                 'ResumeFrame': dict(last_server_position=0, first_client_position=0, resume_identification_token=b't', token_length=1),
                 'ResumeOKFrame': dict(last_received_client_position=0)}.get(k, {})
        for a, v in extra.items():
            E.setattr(f, a, v)
    direction = ['Received', 'Sent'][E.path.choice(2, 'direction')]
    try:
        E.call(E.lookup('rsocket/frame_logger.py::log_frame'), [f, 'server', direction])
    except PyExc as e:
        E.prove('log_frame:never_raises[%s, %s: %s]' % (k, direction, e.value.cls.name), False)
        return
    E.cover('logged')
    E.prove('log_frame:never_raises', True)
