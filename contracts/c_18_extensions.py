"""C18 - extension metadata codecs round-trip within the format limits.  (DESIGN 5/C18)
Tables are finite data: checked exhaustively on the module objects.  Entry codecs: symbolic proofs.
List codecs: step contracts of the loops (+ the meta-level list induction) and bounded end-to-end instances."""
import z3

from pyvc.values import *   # noqa
from pyvc.engine import LoopSpec, EXC
from pyvc.harness import harness, both_backends, new_obj, OpaqueLog
from pyvc import models as M
from contracts import spec_wire as W

X = 'rsocket/extensions/'
# the parse loops' cursor, by role (robust against renaming): the left operand of the while test
OFFSET = (('while_lhs',),)
HP = 'rsocket/helpers.py::'
FH = 'rsocket/frame_helpers.py::'
MT = X + 'mimetypes.py::WellKnownMimeTypes'
AT = X + 'authentication_types.py::WellKnownAuthenticationTypes'


def custom_name(E, name='custom'):
    """symbolic custom MIME name of 1..128 bytes that differs from every well-known MIME / authentication name"""
    n = E.input(name, E.fresh_bytes(name, 1, 128))
    for ref in (MT, AT):
        for m in E.lookup(ref).members.values():
            kc = lift_bytes(m.value.attrs['name']).conc
            E.path.add(z3.Or([n.len_term() != len(kc)] + [n.at(z3.IntVal(i)) != kc[i] for i in range(len(kc))]))
    return n


def reset_list(obj, attr):
    """havoc helper: the list the parse loop appends to is emptied IN PLACE, so that a local alias of it in the code under
    contract (`tags = self.tags = []`) keeps referring to the same object"""
    cur = obj.attrs.get(attr)
    if isinstance(cur, list):
        del cur[:]
    else:
        obj.attrs[attr] = []


def beq(E, a, b, tag='b'):
    return M.b_eq_goal(E, a, b, tag)


# --------------------------------------------------------------------------- tables (exhaustive)

@harness('c18.tables', ['C18'], functions=[MT + '.require_by_id', MT + '.get_by_name', AT + '.require_by_id', AT + '.get_by_name',
                                          HP + 'map_type_names_by_id', HP + 'map_type_ids_by_name'],
         desc='finite tables enumerated completely')
def tables(E):
    for ref, unknown in ((MT, 'RSocketUnknownMimetype'), (AT, 'RSocketUnknownAuthType')):
        enum = E.lookup(ref)
        members = list(enum.members.values())
        ids = [m.value.attrs['id'] for m in members]
        names = [lift_bytes(m.value.attrs['name']).conc for m in members]
        tag = enum.name
        E.prove('%s:ids_distinct' % tag, len(set(ids)) == len(ids))
        E.prove('%s:names_distinct' % tag, len(set(names)) == len(names))
        ok_inv1 = ok_inv2 = ok_rng = True
        for m in members:
            i, nm = m.value.attrs['id'], lift_bytes(m.value.attrs['name']).conc
            back = E.call(E.getattr(enum, 'get_by_name'), [nm])
            ok_inv1 = ok_inv1 and back == i
            fwd = E.call(E.getattr(enum, 'require_by_id'), [i])
            ok_inv2 = ok_inv2 and lift_bytes(fwd).conc == nm
            if i >= 0:
                ok_rng = ok_rng and 0 <= i <= 127 and 1 <= len(nm) <= 128
        E.prove('%s:get_by_name(name(i))=i_for_every_entry' % tag, ok_inv1)
        E.prove('%s:require_by_id(id(n))=n_for_every_entry' % tag, ok_inv2)
        E.prove('%s:encodable_ids_fit_7_bits_and_names_fit_128_bytes' % tag, ok_rng)
        try:
            E.call(E.getattr(enum, 'require_by_id'), [0x70 if ref == MT else 0x55])
            E.prove('%s:unknown_id_rejected' % tag, False)
        except PyExc as e:
            E.prove('%s:unknown_id_rejected' % tag, e.value.cls.name == unknown)
        E.prove('%s:unknown_name_gives_None' % tag, E.call(E.getattr(enum, 'get_by_name'), [b'no/such-type']) is None)
    E.cover('tables')
    E.prove('tables:sizes', len(E.lookup(MT).members) >= 49 and len(E.lookup(AT).members) == 2)


# --------------------------------------------------------------------------- entry codecs

@both_backends('c18.mime_header', ['C18'], functions=[FH + 'serialize_128max_value', HP + 'serialize_well_known_encoding',
                                                     HP + 'parse_well_known_encoding', FH + 'parse_type'], replay='c18_mime_header')
def mime_header(E):
    enum = E.lookup(MT)
    get_by_name = E.getattr(enum, 'get_by_name')
    require_by_id = E.getattr(enum, 'require_by_id')
    ser = E.lookup(HP + 'serialize_well_known_encoding')
    par = E.lookup(HP + 'parse_well_known_encoding')
    rest = E.fresh_bytes('rest')
    kind = E.path.choice(4, 'encoding-kind')
    if kind == 3:
        # the encoder serves two name spaces (MIME types, authentication types) selected by its second argument: its result is
        # a function of (name, table) alone - whatever was encoded before, in whichever order.  Every name of one table that
        # is not a name of the other is a CUSTOM name there.
        auth = E.lookup(AT)
        a_by_name = E.getattr(auth, 'get_by_name')
        ok = True
        mime_names = {lift_bytes(m.value.attrs['name']).conc for m in enum.members.values()}
        order = E.path.choice(2, 'first-encoded-under')
        for m in auth.members.values():
            nm = lift_bytes(m.value.attrs['name']).conc
            if nm in mime_names:
                continue
            want_auth = bytes([0x80 | m.value.attrs['id']])
            want_mime = bytes([len(nm) - 1]) + nm
            for table, want in ([(a_by_name, want_auth), (get_by_name, want_mime)] if order == 0 else [(get_by_name, want_mime), (a_by_name, want_auth)]) * 2:
                ok = ok and lift_bytes(E.call(ser, [nm, table])).conc == want
        E.cover('namespaces')
        E.prove('namespaces:result_depends_only_on_name_and_table[an authentication type name is a custom MIME name, in any order of use]', ok)
        return
    if kind == 0:
        name = custom_name(E)
        out = E.call(ser, [name, get_by_name])
        E.cover('custom')
        exp = W.cat(W.be(mk_int(name.len_term() - 1), 1), name)
        E.prove('custom:header_is_len-1_then_name', beq(E, out, exp, 'h'))
        got, off = E.call(par, [W.cat(out, rest), require_by_id])
        E.prove('custom:decodes_to_the_same_name', beq(E, got, name, 'g'))
        E.prove('custom:consumed_offset_is_encoded_length', I(off) == 1 + name.len_term())
    elif kind == 1:
        # every well-known type, given as enum member, as WellKnownMimeType object or by name: one byte 0x80|id, decodes to the name
        ok_bytes = ok_back = True
        for m in enum.members.values():
            i, nm = m.value.attrs['id'], m.value.attrs['name']
            if i < 0:
                continue
            for given in (m.value, nm):
                out = E.call(ser, [given, get_by_name])
                ok_bytes = ok_bytes and lift_bytes(out).conc == bytes([0x80 | i])
                got, off = E.call(par, [M.b_concat(out, b'tail'), require_by_id])
                ok_back = ok_back and lift_bytes(got).conc == lift_bytes(nm).conc and off == 1
        E.cover('well-known')
        E.prove('well_known:one_byte_0x80|id_for_every_entry_in_every_spelling', ok_bytes)
        E.prove('well_known:decodes_to_the_name_offset_1', ok_back)
    else:
        long_name = E.fresh_bytes('long', 129)
        try:
            E.call(ser, [long_name, get_by_name])
            E.prove('too_long:rejected_at_encode_time', False)
        except PyExc as e:
            E.cover('too-long')
            E.prove('too_long:raises_RSocketMimetypeTooLong', e.value.cls.name == 'RSocketMimetypeTooLong')


AU = X + 'authentication.py::'


@harness('c18.authentication', ['C18', 'C19'], functions=[AU + 'AuthenticationSimple.serialize', AU + 'AuthenticationSimple.parse',
                                                        AU + 'AuthenticationSimple.__init__', AU + 'AuthenticationBearer.serialize',
                                                        AU + 'AuthenticationBearer.parse', X + 'authentication_content.py::AuthenticationContent.serialize',
                                                        X + 'authentication_content.py::AuthenticationContent.parse',
                                                        X + 'authentication_content.py::authentication_item_factory'], replay='c18_auth')
def authentication(E):
    kind = E.path.choice(2, 'kind')
    AC = E.lookup(X + 'authentication_content.py::AuthenticationContent')
    if kind == 0:
        user = E.input('username', E.fresh_bytes('user', 0, 65535))
        pw = E.input('password', E.fresh_bytes('pw'))
        a = E.call(E.lookup(AU + 'AuthenticationSimple'), [user, pw])
        out = E.call(E.getattr(a, 'serialize'), [])
        E.cover('simple')
        exp = W.cat(W.be(mk_int(user.len_term()), 2), user, pw)
        E.prove('simple:16bit_username_length_then_username_then_password', beq(E, out, exp, 's'))
        b = E.call(E.lookup(AU + 'AuthenticationSimple'), [])
        E.call(E.getattr(b, 'parse'), [exp])
        E.prove('simple:round_trip', z3.And(beq(E, b.attrs['username'], user, 'u'), beq(E, b.attrs['password'], pw, 'p')))
        item = E.call(AC, [a])
        full = E.call(E.getattr(item, 'serialize'), [])
        E.prove('content:simple_type_header_0x80_then_credentials', beq(E, full, W.cat(b'\x80', exp), 'c'))
        E.prove('content:encoding_the_same_item_again_gives_the_same_bytes[simple]',
                beq(E, E.call(E.getattr(item, 'serialize'), []), W.cat(b'\x80', exp), 'c1b'))
        item2 = E.call(AC, [])
        E.call(E.getattr(item2, 'parse'), [W.cat(b'\x80', exp)])
        E.prove('content:decodes_to_simple_with_same_credentials',
                item2.attrs['authentication'].cls.name == 'AuthenticationSimple'
                and z3.And(beq(E, item2.attrs['authentication'].attrs['username'], user, 'u2'),
                           beq(E, item2.attrs['authentication'].attrs['password'], pw, 'p2')))
        # frame condition of parse: decoding ANOTHER entry of the same kind touches nothing but that entry
        user3 = E.fresh_bytes('user3', 0, 65535)
        pw3 = E.fresh_bytes('pw3')
        item3 = E.call(AC, [])
        E.call(E.getattr(item3, 'parse'), [W.cat(b'\x80', W.be(mk_int(user3.len_term()), 2), user3, pw3)])
        E.prove('content:a_decoded_value_is_unchanged_by_decoding_another_one[simple]',
                item3.attrs['authentication'] is not item2.attrs['authentication']
                and z3.And(beq(E, item2.attrs['authentication'].attrs['username'], user, 'u4'),
                           beq(E, item2.attrs['authentication'].attrs['password'], pw, 'p4')))
        E.prove('content:decode_then_encode_reproduces_the_bytes_after_other_decodes[simple]',
                beq(E, E.call(E.getattr(item2, 'serialize'), []), W.cat(b'\x80', exp), 'c4'))
    else:
        tok = E.input('token', E.fresh_bytes('token'))
        a = E.call(E.lookup(AU + 'AuthenticationBearer'), [tok])
        out = E.call(E.getattr(a, 'serialize'), [])
        E.cover('bearer')
        E.prove('bearer:token_bytes', beq(E, out, tok, 't'))
        item = E.call(AC, [a])
        full = E.call(E.getattr(item, 'serialize'), [])
        E.prove('content:bearer_type_header_0x81_then_token', beq(E, full, W.cat(b'\x81', tok), 'c'))
        E.prove('content:encoding_the_same_item_again_gives_the_same_bytes[bearer]',
                beq(E, E.call(E.getattr(item, 'serialize'), []), W.cat(b'\x81', tok), 'c1b'))
        item2 = E.call(AC, [])
        E.call(E.getattr(item2, 'parse'), [W.cat(b'\x81', tok)])
        E.prove('content:decodes_to_bearer_with_same_token', item2.attrs['authentication'].cls.name == 'AuthenticationBearer'
                and beq(E, item2.attrs['authentication'].attrs['token'], tok, 't2'))
        tok3 = E.fresh_bytes('token3')
        item3 = E.call(AC, [])
        E.call(E.getattr(item3, 'parse'), [W.cat(b'\x81', tok3)])
        E.prove('content:a_decoded_value_is_unchanged_by_decoding_another_one[bearer]',
                item3.attrs['authentication'] is not item2.attrs['authentication']
                and beq(E, item2.attrs['authentication'].attrs['token'], tok, 't4'))
        E.prove('content:decode_then_encode_reproduces_the_bytes_after_other_decodes[bearer]',
                beq(E, E.call(E.getattr(item2, 'serialize'), []), W.cat(b'\x81', tok), 'c4'))


TG = X + 'tagging.py::TaggingMetadata'


def enc_tag(t):
    return W.cat(W.be(mk_int(lift_bytes(t).len_term()), 1), t)


@harness('c18.tagging.serialize', ['C18', 'C19'], functions=[TG + '.serialize', TG + '._serialize_tags', TG + '.__init__',
                                                            X + 'routing.py::RoutingMetadata.__init__'],
         assumptions=['serialize loop over a Python list: checked for lists of 0..3 tags with symbolic contents (element-wise step + '
                      'concatenation); the list induction is meta-level'], replay='c18_tags')
def tagging_serialize(E):
    n = E.path.choice(4, 'number-of-tags')
    tags = [E.input('tag%d' % i, E.fresh_bytes('tag%d' % i)) for i in range(n)]
    r = E.call(E.lookup(X + 'routing.py::RoutingMetadata'), [list(tags)])
    try:
        out = E.call(E.getattr(r, 'serialize'), [])
    except PyExc as e:
        E.cover('rejected')
        E.prove('tags:rejects_only_tags_longer_than_255', z3.Or([t.len_term() > 255 for t in tags]) if tags else False)
        E.prove('tags:raises_RSocketError', e.value.cls.issubclass(E.lookup('rsocket/exceptions.py::RSocketError')))
        return
    E.cover('serialized')
    E.prove('tags:accepts_only_tags_up_to_255', z3.And([t.len_term() <= 255 for t in tags]) if tags else True)
    E.prove('tags:each_tag_is_length_byte_then_tag_in_order', beq(E, out, W.cat(*[enc_tag(t) for t in tags]) if tags else b'', 'tg'))
    E.prove('tags:routing_mime_type', lift_bytes(r.attrs['encoding']).conc == b'message/x.rsocket.routing.v0')
    # the encoding is a function of the item's CURRENT tags - not of what the same object encoded or decoded before
    t2 = E.fresh_bytes('other-tag', 0, 255)
    E.setattr(r, 'tags', [t2] + list(tags[:1]))
    out2 = E.call(E.getattr(r, 'serialize'), [])
    E.prove('tags:re-encoding_after_the_tags_changed_encodes_the_new_tags[no stale result]',
            beq(E, out2, W.cat(*[enc_tag(t) for t in ([t2] + list(tags[:1]))]), 'tg2'))
    wire = W.cat(enc_tag(E.fresh_bytes('decoded-tag', 0, 255)), enc_tag(t2))
    saved = E.loop_specs.pop((TG + '.parse', 0), None)
    E.unroll_limit = 4
    E.call(E.getattr(r, 'parse'), [wire])
    out3 = E.call(E.getattr(r, 'serialize'), [])
    E.prove('tags:decode_then_encode_on_an_item_that_was_encoded_before_reproduces_the_decoded_bytes', beq(E, out3, wire, 'tg3'))


TP = TG + '.parse'


@harness('c18.tagging.parse.step', ['C18', 'C19'], functions=[TP], replay='c18_tags',
         assumptions=['list induction (decode(enc(x) ++ S) = x :: decode(S)) is meta-level on top of this step contract'])
def tagging_parse_step(E):
    pre = E.fresh_bytes('P')
    x = E.input('tag', E.fresh_bytes('x', 0, 255))
    suf = E.fresh_bytes('S')
    at_end = E.path.choice(2, 'cursor-at') == 1       # 0: an encoded tag at the cursor; 1: the cursor is at the end of the buffer
    buf = pre if at_end else W.cat(pre, enc_tag(x), suf)
    r = E.call(E.lookup(X + 'routing.py::RoutingMetadata'), [])
    st = {}

    def havoc(ctx):
        ctx.set_local('offset', mk_int(pre.len_term()), *OFFSET)
        reset_list(ctx.self, 'tags')

    def inv(ctx):
        if ctx.phase == 'entry':
            return [('starts at 0 with no tags', ctx.local('offset', *OFFSET) == 0 and ctx.self.attrs['tags'] == [])]
        if ctx.phase == 'head':
            return []
        if at_end:
            return [('nothing is decoded at the end of the buffer', False)]
        E.cover('step')
        tg = ctx.self.attrs['tags']
        return [('exactly one tag decoded: the encoded one', len(tg) == 1 and beq(E, tg[0], x, 'x')),
                ('offset advanced by exactly the encoded length', I(ctx.local('offset', *OFFSET)) == pre.len_term() + 1 + x.len_term())]
    E.loop_specs[(TP, 0)] = LoopSpec(inv, lambda ctx: lift_bytes(buf).len_term() - I(ctx.local('offset', *OFFSET)), havoc=havoc,
                                     modifies=['offset'])
    E.call(E.getattr(r, 'parse'), [buf])
    E.cover('exit')
    ctx = E.path.ghost['loops'][(TP, 0)]
    E.prove('parse:exits_only_at_end_of_buffer', I(ctx.local('offset', *OFFSET)) >= lift_bytes(buf).len_term())
    E.prove('parse:at_the_end_of_the_buffer_it_stops_without_decoding_anything', at_end and r.attrs['tags'] == [])


@harness('c18.tagging.roundtrip.bounded', ['C18'], kind='bounded', functions=[TP, TG + '._serialize_tags'], replay='c18_tags',
         assumptions=['BOUNDED: tag lists of length 0..2, symbolic tag contents up to 255 bytes'])
def tagging_roundtrip(E):
    n = E.path.choice(3, 'number-of-tags')
    tags = [E.fresh_bytes('tag%d' % i, 0, 255) for i in range(n)]
    r = E.call(E.lookup(X + 'routing.py::RoutingMetadata'), [list(tags)])
    out = E.call(E.getattr(r, 'serialize'), [])
    r2 = E.call(E.lookup(X + 'routing.py::RoutingMetadata'), [])
    E.unroll_limit = 6
    E.call(E.getattr(r2, 'parse'), [out])
    E.cover('roundtrip')
    got = r2.attrs['tags']
    E.prove('roundtrip:same_number_of_tags', len(got) == n)
    for i in range(min(n, len(got))):
        E.prove('roundtrip:tag_%d' % i, beq(E, got[i], tags[i], 't%d' % i))
    out2 = E.call(E.getattr(r2, 'serialize'), [])
    E.prove('roundtrip:re-encoding_reproduces_the_bytes', beq(E, out2, out, 're'))


SD = X + 'stream_data_mimetype.py::'


@harness('c18.stream_data_mimetype', ['C18'], functions=[SD + 'StreamDataMimetype.serialize', SD + 'StreamDataMimetype.parse',
                                                        SD + 'StreamDataMimetype.__init__', SD + 'StreamDataMimetypes.serialize',
                                                        SD + 'StreamDataMimetypes.__init__'])
def stream_data_mimetype(E):
    enum = E.lookup(MT)
    name = custom_name(E)
    it = E.call(E.lookup(SD + 'StreamDataMimetype'), [name])
    out = E.call(E.getattr(it, 'serialize'), [])
    E.cover('mimetype')
    exp = W.cat(W.be(mk_int(name.len_term() - 1), 1), name)
    E.prove('data_mimetype:custom_header', beq(E, out, exp, 'h'))
    it2 = E.call(E.lookup(SD + 'StreamDataMimetype'), [])
    E.call(E.getattr(it2, 'parse'), [exp])
    E.prove('data_mimetype:round_trip', beq(E, it2.attrs['data_encoding'], name, 'n'))
    wk = enum.members['APPLICATION_JSON']
    it3 = E.call(E.lookup(SD + 'StreamDataMimetype'), [wk])
    E.prove('data_mimetype:well_known_enum_member_encoded_as_id', lift_bytes(E.call(E.getattr(it3, 'serialize'), [])).conc == b'\x85')
    lst = E.call(E.lookup(SD + 'StreamDataMimetypes'), [[wk, name, enum.members['TEXT_PLAIN'].value]])
    outl = E.call(E.getattr(lst, 'serialize'), [])
    E.prove('accept_mimetypes:entries_concatenated_in_order', beq(E, outl, W.cat(b'\x85', exp, b'\xa1'), 'l'))
    # encodings are functions of the items' current content: again, and after the content changed
    E.prove('data_mimetype:encoding_the_same_item_again_gives_the_same_bytes', beq(E, E.call(E.getattr(it, 'serialize'), []), exp, 'h2'))
    E.prove('accept_mimetypes:encoding_the_same_item_again_gives_the_same_bytes',
            beq(E, E.call(E.getattr(lst, 'serialize'), []), W.cat(b'\x85', exp, b'\xa1'), 'l2'))
    E.setattr(it, 'data_encoding', wk.value)
    E.prove('data_mimetype:re-encoding_after_the_type_changed_encodes_the_new_type[no stale result]',
            lift_bytes(E.call(E.getattr(it, 'serialize'), [])).conc == b'\x85')


SDP = SD + 'StreamDataMimetypes.parse'


@harness('c18.stream_data_mimetypes.parse.step', ['C18'], functions=[SDP])
def stream_data_mimetypes_step(E):
    pre, suf = E.fresh_bytes('P'), E.fresh_bytes('S')
    name = custom_name(E)
    hdr = W.cat(W.be(mk_int(name.len_term() - 1), 1), name)
    at_end = E.path.choice(2, 'cursor-at') == 1
    buf = pre if at_end else W.cat(pre, hdr, suf)
    it = E.call(E.lookup(SD + 'StreamDataMimetypes'), [])

    def havoc(ctx):
        ctx.set_local('offset', mk_int(pre.len_term()), *OFFSET)
        reset_list(ctx.self, 'data_encodings')

    def inv(ctx):
        if ctx.phase == 'entry':
            return [('starts at 0', ctx.local('offset', *OFFSET) == 0 and ctx.self.attrs['data_encodings'] == [])]
        if ctx.phase == 'head':
            return []
        if at_end:
            return [('nothing is decoded at the end of the buffer', False)]
        E.cover('step')
        de = ctx.self.attrs['data_encodings']
        return [('exactly one entry decoded: the encoded one', len(de) == 1 and beq(E, de[0], name, 'x')),
                ('offset advanced by exactly the encoded length', I(ctx.local('offset', *OFFSET)) == pre.len_term() + 1 + name.len_term())]
    E.loop_specs[(SDP, 0)] = LoopSpec(inv, lambda ctx: lift_bytes(buf).len_term() - I(ctx.local('offset', *OFFSET)), havoc=havoc, modifies=['offset'])
    E.call(E.getattr(it, 'parse'), [buf])
    E.cover('exit')
    ctx = E.path.ghost['loops'][(SDP, 0)]
    E.prove('parse:exits_only_at_end_of_buffer', I(ctx.local('offset', *OFFSET)) >= lift_bytes(buf).len_term())
    E.prove('parse:at_the_end_of_the_buffer_it_stops_without_decoding_anything', at_end and it.attrs['data_encodings'] == [])


CM = X + 'composite_metadata.py::CompositeMetadata'
CMP = CM + '.parse'


@harness('c18.composite.serialize', ['C18', 'C19'], functions=[CM + '.serialize', CM + '.__init__', CM + '.append', CM + '.extend',
                                                              X + 'composite_metadata_item.py::CompositeMetadataItem.serialize',
                                                              X + 'composite_metadata_item.py::CompositeMetadataItem.__init__',
                                                              FH + 'pack_24bit_length', X + 'helpers.py::composite', X + 'helpers.py::metadata_item'],
         assumptions=['serialize loop over a Python list: checked for lists of 0..3 generic entries (custom, well-known, routing)'], replay='c18_composite')
def composite_serialize(E):
    enum = E.lookup(MT)
    H = X + 'helpers.py::'
    name = custom_name(E)
    body1 = E.input('body1', E.fresh_bytes('body1', 0, (1 << 24) - 1))
    body2 = E.input('body2', E.fresh_bytes('body2', 0, (1 << 24) - 1))
    tag = E.fresh_bytes('route', 0, 255)
    items = [E.call(E.lookup(H + 'metadata_item'), [body1, name]),
             E.call(E.lookup(H + 'metadata_item'), [body2, enum.members['APPLICATION_JSON']]),
             E.call(E.lookup(H + 'route'), [tag])]
    encs = [W.cat(W.be(mk_int(name.len_term() - 1), 1), name, W.be(mk_int(body1.len_term()), 3), body1),
            W.cat(b'\x85', W.be(mk_int(body2.len_term()), 3), body2),
            W.cat(b'\xfe', W.be(mk_int(1 + tag.len_term()), 3), enc_tag(tag))]
    if E.path.choice(2, 'entry-family') == 1:
        # the other well-known entries, built by the public helpers: each goes out under its own well-known id with exactly
        # the bytes of its own codec (c18.authentication, c18.stream_data_mimetype)
        user, pw = E.fresh_bytes('user', 0, 65535), E.fresh_bytes('pw', 0, 1 << 16)
        tok = E.fresh_bytes('token', 0, 1 << 16)
        name2 = custom_name(E, 'custom2')
        hdr2 = W.cat(W.be(mk_int(name2.len_term() - 1), 1), name2)
        simple = W.cat(b'\x80', W.be(mk_int(user.len_term()), 2), user, pw)
        bearer = W.cat(b'\x81', tok)
        items = [E.call(E.lookup(H + 'authenticate_simple'), [user, pw]),
                 E.call(E.lookup(H + 'data_mime_type'), [name2]),
                 E.call(E.lookup(H + 'data_mime_types'), [enum.members['APPLICATION_JSON'], name2]),
                 E.call(E.lookup(H + 'authenticate_bearer'), [tok])]
        encs = [W.cat(b'\xfc', W.be(mk_int(lift_bytes(simple).len_term()), 3), simple),
                W.cat(b'\xfa', W.be(mk_int(lift_bytes(hdr2).len_term()), 3), hdr2),
                W.cat(b'\xfb', W.be(mk_int(1 + lift_bytes(hdr2).len_term()), 3), b'\x85', hdr2),
                W.cat(b'\xfc', W.be(mk_int(lift_bytes(bearer).len_term()), 3), bearer)]
    k = E.path.choice(len(items) + 1, 'number-of-entries')
    out = E.call(E.lookup(H + 'composite'), items[:k])
    E.cover('serialized')
    E.prove('composite:entries_are_header_24bit_length_body_in_order', beq(E, out, W.cat(*encs[:k]) if k else b'', 'c'))
    out_again = E.call(E.lookup(H + 'composite'), items[:k])
    E.prove('composite:encoding_the_same_entries_again_gives_the_same_bytes[items keep no encoded state]',
            beq(E, out_again, W.cat(*encs[:k]) if k else b'', 'c2'))


@harness('c18.composite.parse.step', ['C18', 'C19'], functions=[CMP, X + 'composite_metadata.py::metadata_item_factory',
                                                               X + 'composite_metadata_item.py::CompositeMetadataItem.parse'],
         assumptions=['list induction is meta-level on top of this step contract'], replay='c18_composite')
def composite_parse_step(E):
    enum = E.lookup(MT)
    pre, suf = E.fresh_bytes('P'), E.fresh_bytes('S')
    kind = E.path.choice(7, 'entry-kind')
    at_end = kind == 6
    body = E.input('body', E.fresh_bytes('body', 0, (1 << 24) - 1))
    sub_parsed = []
    if kind in (3, 4, 5):
        # the other well-known entries: class chosen by the table, the item parses exactly its own body (their own codecs
        # are under contract in c18.authentication / c18.stream_data_mimetype*)
        hdr, want_cls, want_enc, pq = [(b'\xfc', 'AuthenticationContent', b'message/x.rsocket.authentication.v0', X + 'authentication_content.py::AuthenticationContent.parse'),
                                       (b'\xfa', 'StreamDataMimetype', b'message/x.rsocket.mime-type.v0', SD + 'StreamDataMimetype.parse'),
                                       (b'\xfb', 'StreamDataMimetypes', b'message/x.rsocket.accept-mime-types.v0', SDP)][kind - 3]
        E.stubs[pq] = lambda E_, f, a, k: sub_parsed.append(a[1])
    elif kind == 6:
        hdr, want_cls, want_enc = b'', None, None
    elif kind == 0:
        name = custom_name(E)
        hdr = W.cat(W.be(mk_int(name.len_term() - 1), 1), name)
        want_cls, want_enc = 'CompositeMetadataItem', name
    elif kind == 1:
        hdr = b'\x85'
        want_cls, want_enc = 'CompositeMetadataItem', b'application/json'
    else:
        hdr = b'\xfe'
        want_cls, want_enc = 'RoutingMetadata', b'message/x.rsocket.routing.v0'
    entry = W.cat(hdr, W.be(mk_int(body.len_term()), 3), body)
    buf = pre if at_end else W.cat(pre, entry, suf)
    cm = E.call(E.lookup(CM), [])
    parsed = []
    E.stubs[X + 'tagging.py::TaggingMetadata.parse'] = lambda E_, f, a, k: parsed.append(a[1])

    def havoc(ctx):
        ctx.set_local('offset', mk_int(pre.len_term()), *OFFSET)
        reset_list(ctx.self, 'items')

    def inv(ctx):
        if ctx.phase == 'entry':
            return [('starts at 0 with no items', ctx.local('offset', *OFFSET) == 0 and ctx.self.attrs['items'] == [])]
        if ctx.phase == 'head':
            return []
        if at_end:
            return [('nothing is decoded at the end of the buffer', False)]
        E.cover('step')
        its = ctx.self.attrs['items']
        out = [('exactly one item appended', len(its) == 1),
               ('offset advanced by exactly the entry length', I(ctx.local('offset', *OFFSET)) == pre.len_term() + lift_bytes(entry).len_term())]
        if len(its) == 1:
            it = its[0]
            out.append(('item class chosen by the MIME type', it.cls.name == want_cls))
            out.append(('item encoding is the (normalised) MIME name', beq(E, it.attrs['encoding'], want_enc, 'enc')))
            if kind == 2:
                out.append(('routing entry parses exactly its body', len(parsed) == 1 and beq(E, parsed[0], body, 'rb')))
            elif kind in (3, 4, 5):
                out.append(('well-known entry parses exactly its body', len(sub_parsed) == 1 and beq(E, sub_parsed[0], body, 'wb')))
            else:
                out.append(('item content is exactly the body', beq(E, it.attrs['content'], body, 'cb')))
        return out
    E.loop_specs[(CMP, 0)] = LoopSpec(inv, lambda ctx: lift_bytes(buf).len_term() - I(ctx.local('offset', *OFFSET)), havoc=havoc, modifies=['offset'])
    r = E.call(E.getattr(cm, 'parse'), [buf])
    E.cover('exit')
    E.prove('parse:returns_self', r is cm)
    ctx = E.path.ghost['loops'][(CMP, 0)]
    E.prove('parse:exits_only_at_end_of_buffer', I(ctx.local('offset', *OFFSET)) >= lift_bytes(buf).len_term())
    E.prove('parse:at_the_end_of_the_buffer_it_stops_without_decoding_anything', at_end and cm.attrs['items'] == [])


@harness('c18.helpers', ['C18', 'C19', 'C16'], functions=[X + 'helpers.py::' + n for n in ('route', 'authenticate_simple', 'authenticate_bearer',
                                                                                       'data_mime_type', 'data_mime_types', 'require_route')]
         + [X + 'mimetypes.py::ensure_encoding_name', X + 'mimetypes.py::ensure_well_known_encoding_enum_value', FH + 'ensure_bytes'])
def ext_helpers(E):
    H = X + 'helpers.py::'
    enum = E.lookup(MT)
    r = E.call(E.lookup(H + 'route'), ['a.b', 'c'])
    E.cover('helpers')
    E.prove('route:routing_item_with_the_tags_in_order', r.cls.name == 'RoutingMetadata' and r.attrs['tags'] == ['a.b', 'c'])
    a = E.call(E.lookup(H + 'authenticate_simple'), ['user', 'pw'])
    E.prove('authenticate_simple:content_with_simple_credentials', a.cls.name == 'AuthenticationContent'
            and a.attrs['authentication'].cls.name == 'AuthenticationSimple'
            and lift_bytes(a.attrs['authentication'].attrs['username']).conc == b'user'
            and lift_bytes(a.attrs['authentication'].attrs['password']).conc == b'pw')
    b = E.call(E.lookup(H + 'authenticate_bearer'), ['tok'])
    E.prove('authenticate_bearer:content_with_token', b.attrs['authentication'].cls.name == 'AuthenticationBearer'
            and lift_bytes(b.attrs['authentication'].attrs['token']).conc == b'tok')
    ens = E.lookup(X + 'mimetypes.py::ensure_encoding_name')
    E.prove('ensure_encoding_name:enum->name,str->utf8,bytes->bytes',
            lift_bytes(E.call(ens, [enum.members['TEXT_PLAIN']])).conc == b'text/plain'
            and lift_bytes(E.call(ens, ['x/y'])).conc == b'x/y' and lift_bytes(E.call(ens, [b'z/w'])).conc == b'z/w')
    cmeta = E.call(E.lookup(CM), [])
    other = E.call(E.lookup(H + 'metadata_item'), [b'x', b'a/b'])
    tagb = E.fresh_bytes('tag', 1, 255)
    rt = E.call(E.lookup(X + 'routing.py::RoutingMetadata'), [[tagb, b'second']])
    E.call(E.getattr(cmeta, 'extend'), [other, rt])
    try:
        got = E.call(E.lookup(H + 'require_route'), [cmeta])
        E.prove('require_route:first_tag_of_the_first_routing_entry_wherever_it_sits', isinstance(got, (SStr, str)))
        E.prove('require_route:decoded_from_exactly_that_tag', E.path.ghost.get('str_bytes', {}).get(got.h.get_id()) is tagb
                if isinstance(got, SStr) else False)
    except PyExc as e:
        E.prove('require_route:fails_only_for_undecodable_tag', e.value.cls.name == 'UnicodeDecodeError')
    try:
        E.call(E.lookup(H + 'require_route'), [E.call(E.lookup(CM), [])])
        E.prove('require_route:no_route_raises', False)
    except PyExc:
        E.prove('require_route:no_route_raises', True)
