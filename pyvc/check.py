"""Check driver:  python3-vt -m pyvc.check <property-id> [--tier quick|thorough]

exit 0  every obligation of the property discharged (known findings printed as KNOWN-FINDING lines)
exit 1  an obligation was refuted and is not a listed known finding  (VIOLATION line printed)
exit 2  undecided (solver unknown on both back ends, construct outside the engine's subset, contract mismatch)
exit 3  the checker itself failed
"""
import argparse
import glob
import hashlib
import importlib
import json
import multiprocessing as mp
import os
import re
import subprocess
import sys
import tempfile
import time
import traceback

ROOT = os.path.dirname(os.path.dirname(os.path.abspath(__file__)))
REPO = os.environ.get('PYVC_REPO', '/repo')
NATIVE_PY = os.environ.get('PYVC_NATIVE_PY', '/venv/bin/python')


def load_contracts():
    sys.path.insert(0, ROOT)
    from pyvc import harness as H
    if H.REGISTRY:
        return H.REGISTRY
    for p in sorted(glob.glob(os.path.join(ROOT, 'contracts', 'c_*.py'))):
        importlib.import_module('contracts.' + os.path.basename(p)[:-3])
    return H.REGISTRY


def _cvc5_retry(smt2, timeout_s):
    with tempfile.NamedTemporaryFile('w', suffix='.smt2', delete=False) as f:
        f.write('(set-logic ALL)\n' + smt2 + '\n')
        path = f.name
    try:
        t0 = time.time()
        p = subprocess.run(['/usr/bin/cvc5', '--lang', 'smt2', '--tlimit=%d' % int(timeout_s * 1000), path],
                           capture_output=True, text=True, timeout=timeout_s + 10)
        out = p.stdout.strip().splitlines()
        res = out[0].strip() if out else 'unknown'
        return res, time.time() - t0
    except Exception as ex:     # pragma: no cover
        return 'unknown', 0.0
    finally:
        os.unlink(path)


def run_harness(args):
    name, tier = args[0], args[1]
    repo_root = args[2] if len(args) > 2 and args[2] else REPO
    t0 = time.time()
    out = dict(name=name, results=[], errors=[], stats={}, functions={}, files={}, wall_s=0.0, dropped=[])
    try:
        from pyvc import engine as ENG, harness as H
        reg = {h.name: h for h in load_contracts()}
        h = reg[name]
        E = ENG.Engine(backend=h.backend, repo_root=repo_root)
        if tier == 'thorough':
            E.prove_timeout_ms = 120000
            E.branch_timeout_ms = 20000
        if h.timeout_s:
            E.harness_budget_s = h.timeout_s
        if tier == 'thorough':
            E.harness_budget_s *= 6
        if tier == 'mutation':
            E.harness_budget_s = 40          # pyvc.mutants: short budgets, no second back end (unknown = "noticed", not killed)
            E.prove_timeout_ms = int(os.environ.get('PYVC_MUT_PROVE_MS', '4000'))
            E.branch_timeout_ms = 2000
        H.install_common_stubs(E)
        results, errors = E.explore(h.fn, max_paths=h.max_paths)
        if E.lazy_attrs and any(r.status != 'proved' and not r.name.startswith('cover:') for r in results):
            # attributes unknown to the contract were given arbitrary values and something did not prove: fall back to their
            # initial values (a violation from there is reported; otherwise the harness is marked out of date = undecided)
            lazy = sorted(E.lazy_attrs)
            E2 = ENG.Engine(backend=h.backend, repo_root=repo_root)
            E2.prove_timeout_ms, E2.branch_timeout_ms, E2.harness_budget_s = E.prove_timeout_ms, E.branch_timeout_ms, E.harness_budget_s
            E2.lazy_mode = 'initial'
            H.install_common_stubs(E2)
            results, errors = E2.explore(h.fn, max_paths=h.max_paths)
            E2.stats['solver_time'] += E.stats.get('solver_time', 0.0)
            E = E2
        elif E.lazy_attrs:
            out['lazy_attributes'] = sorted(E.lazy_attrs)
        for r in results:
            d = r.to_json()
            if r.status == 'unknown' and r.smt2 and tier != 'mutation':
                res, dt = _cvc5_retry(r.smt2, 60 if tier == 'quick' else 300)
                if res == 'unsat':
                    d['status'] = 'proved'
                    d['backend'] = 'cvc5'
                    d['time_s'] = round(d['time_s'] + dt, 3)
                elif res == 'sat':
                    d['status'] = 'refuted'
                    d['backend'] = 'cvc5'
                    d['reason'] = 'cvc5 sat (no model extraction)'
            out['results'].append(d)
        out['errors'] = errors
        out['stats'] = E.stats
        out['functions'] = E.used_functions
        out['files'] = E.file_hashes
        out['dropped'] = sorted(E.dropped)
    except BaseException as ex:
        out['errors'].append('CRASH: ' + ''.join(traceback.format_exception(type(ex), ex, ex.__traceback__))[-3000:])
        out['crash'] = True
    out['wall_s'] = time.time() - t0
    return out


def load_findings():
    p = os.path.join(ROOT, 'known_findings.json')
    if not os.path.exists(p):
        return []
    return json.load(open(p))


def finding_for(findings, prop, harness_name, obligation):
    base = harness_name.split('@')[0]
    for f in findings:
        if f.get('property') != prop or not str(f.get('status', '')).startswith('open'):
            continue
        if 'harness_regex' in f:
            if not re.search(f['harness_regex'], harness_name):
                continue
        elif f.get('harness') not in (harness_name, base):
            continue
        if f.get('obligation') == obligation:
            return f
    return None


def replay_dir(prop):
    # runs against a scratch copy of the sources (self-tests of the machinery, possibly several at once) keep their replay
    # files apart from those of the registered checks
    if REPO != '/repo':
        return os.path.join(ROOT, 'replays', '_scratch_%d' % os.getpid(), prop)
    return os.path.join(ROOT, 'replays', prop)


def native_replay(prop, h, res, tier):
    """Replay a counter-model against the real code under the repository's interpreter."""
    d = replay_dir(prop)
    os.makedirs(d, exist_ok=True)
    safe = re.sub(r'[^A-Za-z0-9_.@-]+', '_', '%s__%s' % (h.name, res['name']))[:150]
    path = os.path.join(d, safe + '.json')
    tree = {}
    doc = dict(property=prop, harness=h.name, obligation=res['name'], path=res['path'], backend=res.get('backend'),
               solver=dict(result=res['status'], time_s=res['time_s'], reason=res.get('reason', '')),
               inputs=res.get('model'), replay_function=h.replay, verdict='no-failing-input-found', observed=None)
    json.dump(doc, open(path, 'w'), indent=1, default=str)
    if h.replay and res.get('model') is not None:
        try:
            p = subprocess.run([NATIVE_PY, os.path.join(ROOT, 'pyvc', 'replay_runner.py'), path],
                               capture_output=True, text=True, timeout=120, cwd=REPO,
                               env=dict(os.environ, PYTHONPATH=ROOT + ':' + REPO, PYTHONDONTWRITEBYTECODE='1'))
            doc = json.load(open(path))
            doc['replay_stdout'] = p.stdout[-2000:]
            doc['replay_stderr'] = p.stderr[-2000:]
            json.dump(doc, open(path, 'w'), indent=1, default=str)
        except Exception as ex:     # pragma: no cover
            doc['replay_error'] = str(ex)
            json.dump(doc, open(path, 'w'), indent=1, default=str)
    return path, doc.get('verdict')


def main(argv=None):
    ap = argparse.ArgumentParser()
    ap.add_argument('prop')
    ap.add_argument('--tier', default=os.environ.get('VERIF_TIER', 'quick'))
    ap.add_argument('--only', default=None, help='regex on harness names')
    ap.add_argument('--jobs', type=int, default=int(os.environ.get('PYVC_JOBS', '16')))
    ap.add_argument('-v', action='store_true')
    ap.add_argument('--no-evidence', action='store_true')
    a = ap.parse_args(argv)
    t0 = time.time()
    seed = int(os.environ.get('VERIF_SEED', '0') or 0)
    os.environ['PYVC_TIER'] = a.tier           # contract modules register larger bounded stand-ins in the thorough tier
    try:
        reg = load_contracts()
    except Exception:
        traceback.print_exc()
        return 3
    hs = [h for h in reg if a.prop in h.props]
    if a.only:
        hs = [h for h in hs if re.search(a.only, h.name)]
    if not hs:
        print('no harness serves property', a.prop)
        return 3
    import shutil
    if not a.only:
        shutil.rmtree(replay_dir(a.prop), ignore_errors=True)
    ctx = mp.get_context('fork')
    with ctx.Pool(min(a.jobs, len(hs))) as pool:
        outs = pool.map(run_harness, [(h.name, a.tier) for h in hs], chunksize=1)
    byname = {h.name: h for h in hs}
    findings = load_findings()
    n_obl = n_dis = n_known = 0
    n_bounded = n_bounded_ok = 0
    violations = []
    undecided = []
    crashes = []
    known_lines = []
    samples = []
    by_backend = {}
    solver_time = 0.0
    functions = {}
    files = {}
    dropped = set()
    covers = {}
    per_harness = []
    for o in outs:
        h = byname[o['name']]
        functions.update(o['functions'])
        files.update(o['files'])
        dropped.update(o.get('dropped', []))
        solver_time += o['stats'].get('solver_time', 0.0)
        ho = hd = 0
        hcov = 0
        seen_refuted = set()
        for r in o['results']:
            if r['name'].startswith('cover:'):
                if r['status'] == 'covered':
                    hcov += 1
                continue
            if r['name'].startswith('@'):
                # clause that belongs to specific properties only:  '@C08,C10:clause name'
                tags, _, rest = r['name'][1:].partition(':')
                if a.prop not in tags.split(','):
                    continue
                r = dict(r, name=rest)
            is_proof = (h.kind == 'proof')
            if is_proof:
                n_obl += 1
            else:
                n_bounded += 1
            ho += 1
            if is_proof:
                by_backend[r['backend']] = by_backend.get(r['backend'], 0) + (1 if r['status'] == 'proved' else 0)
            if r['status'] == 'proved':
                if is_proof:
                    n_dis += 1
                else:
                    n_bounded_ok += 1
                hd += 1
                if len(samples) < 6 and r['backend'] != 'trivial':
                    samples.append(dict(harness=h.name, obligation=r['name'], path=r['path'], status='proved',
                                        backend=r['backend'], time_s=r['time_s']))
            elif r['status'] == 'refuted':
                f = finding_for(findings, a.prop, h.name, r['name'])
                if f is not None:
                    n_known += 1
                    known_lines.append('KNOWN-FINDING: property=%s %s [obligation %s]' % (a.prop, f.get('what', ''), r['name']))
                else:
                    key = (h.name, r['name'])
                    if key not in seen_refuted:
                        seen_refuted.add(key)
                        violations.append((h, r))
            else:
                undecided.append('%s#%s [%s] %s' % (h.name, r['name'], r['path'], r.get('reason', '')))
        for e in o['errors']:
            if e.startswith('CRASH'):
                crashes.append('%s: %s' % (h.name, e))
            else:
                undecided.append('%s: %s' % (h.name, e))
        if ho == 0 and not o['errors']:
            crashes.append('%s: harness generated zero obligations (vacuity guard)' % h.name)
        # a program point of the harness that execution reaches only under an unsatisfiable path condition: the assumptions made
        # before it contradict each other there, and every clause after it passes vacuously - never "held"
        cov = {}
        for r in o['results']:
            if r['name'].startswith('cover:'):
                cov.setdefault(r['name'], set()).add(r['status'])
        for cname, sts in sorted(cov.items()):
            if 'covered' not in sts:
                undecided.append('%s: %s is reached only under contradictory assumptions (%s): what follows it would hold vacuously'
                                 % (h.name, cname, '/'.join(sorted(sts))))
        if hcov == 0 and not o['errors'] and not o.get('crash'):
            crashes.append('%s: no reachable cover point (vacuity guard)' % h.name)
        per_harness.append(dict(harness=h.name, backend=h.backend, kind=h.kind, obligations=ho, discharged=hd,
                                covers=hcov, paths=o['stats'].get('paths'), wall_s=round(o['wall_s'], 2),
                                functions=h.functions, executed=sorted(o['functions'])))
    # loop-contract obligations refuted alone, with a passing bounded stand-in that does not use the loop contract:
    # the proof is out of date, but nothing indicates that the property is violated -> undecided (DESIGN 8.9)
    aux = re.compile(r'#loop\d+\.(inv_entry|inv_preserved|variant_decreases)')
    by_h = {}
    for h, r in violations:
        by_h.setdefault(h.name, []).append(r)
    def _strip(n):
        return n[1:].partition(':')[2] if n.startswith('@') else n
    def _counts(n):       # does this clause belong to the property being checked?
        return not n.startswith('@') or a.prop in n[1:].partition(':')[0].split(',')
    clean = {o['name'] for o in outs if not o['errors'] and not any(
        r['status'] == 'refuted' and _counts(r['name']) and finding_for(findings, a.prop, o['name'], _strip(r['name'])) is None
        for r in o['results'])}
    demoted = set()
    for hn, rs in by_h.items():
        h = byname[hn]
        # once a loop-contract obligation is refuted, what the harness derives after the loop rests on a contract that no
        # longer describes the code: all of its refutations are then referred to the stand-in
        if h.fallback and any(aux.search(r['name']) for r in rs):
            fb = [n for n in byname if re.search(h.fallback, n)]
            if fb and all(n in clean for n in fb):
                demoted.add(hn)
                for r in rs:
                    undecided.append('%s#%s: loop contract no longer matches the code (obligation refuted), but the bounded stand-in %s '
                                     'decides the clauses without it and passes' % (hn, r['name'], ', '.join(fb)))
    violations = [(h, r) for h, r in violations if h.name not in demoted]
    # A proof harness that cannot INTERPRET the current shape of the code (engine: unsupported construct) while nothing it could
    # check is refuted, and whose bounded stand-ins decide the same clauses and pass: the function is out of the verifier's reach
    # in this shape, the bounded check stands in (labelled, never counted as proved) - reported as DEGRADED, not as undecided.
    degraded = []
    for o in outs:
        h = byname[o['name']]
        if not h.fallback or h.kind != 'proof' or not o['errors'] or o.get('crash'):
            continue
        if not all(e.startswith('unsupported:') for e in o['errors']) or h.name in by_h:
            continue
        fb = [n for n in byname if re.search(h.fallback, n)]
        if fb and all(n in clean for n in fb):
            pref = '%s: unsupported:' % h.name
            mine = [u for u in undecided if u.startswith(pref)]
            undecided[:] = [u for u in undecided if not u.startswith(pref)]
            degraded.append('%s: out of reach in this shape of the code (%s); decided instead by the bounded stand-in %s, which passes (not counted as proved)'
                            % (h.name, (mine[0][len(pref):].strip() if mine else '')[:160], ', '.join(sorted(fb))[:200]))
    extras = {}
    if a.tier == 'thorough' and not a.only:
        extras = thorough_extras(a.prop, seed, crashes)
    status = 0
    lines = []
    for kl in sorted(set(known_lines)):
        lines.append(kl)
    vio_docs = []
    for h, r in violations:
        path, verdict = native_replay(a.prop, h, r, a.tier)
        tail = '' if verdict == 'fails-on-real-code' else ' no-failing-input-found'
        lines.append('VIOLATION property=%s replay=%s obligation=%s#%s%s' % (a.prop, path, h.name, r['name'], tail))
        vio_docs.append(dict(harness=h.name, obligation=r['name'], replay=path, verdict=verdict))
        status = 1
    if status == 0 and crashes:
        status = 3
    if status == 0 and undecided:
        status = 2
    for l in lines:
        print(l)
    for dg in degraded:
        print('DEGRADED:', dg[:700])
    if degraded:
        extras = dict(extras, degraded_to_bounded=degraded)
    for c in crashes:
        print('CHECKER-ERROR:', c[:1500])
    for u in undecided[:40]:
        print('UNDECIDED:', u[:600])
    wall = time.time() - t0
    print('property %s tier %s: %d obligations, %d discharged, %d known-finding, %d violations, %d undecided, %d harnesses, %.1fs (solver %.1fs); bounded stand-ins (not counted): %d/%d'
          % (a.prop, a.tier, n_obl, n_dis, n_known, len(violations), len(undecided), len(hs), wall, solver_time, n_bounded_ok, n_bounded))
    if a.v:
        for ph in per_harness:
            print('  ', ph)
    if not a.no_evidence and not a.only:
        write_evidence(a, hs, n_obl, n_dis, n_known, violations, undecided, crashes, samples, by_backend, solver_time,
                       functions, files, dropped, per_harness, wall, seed, known_lines, vio_docs, n_bounded, n_bounded_ok, extras)
    return status


def thorough_extras(prop, seed, crashes):
    """Thorough tier only: guards of the trusted base and of the contracts' sensitivity (never deciding a property).
    (a) CPython differential: real functions on concrete inputs, engine vs /venv/bin/python, both codec back ends;
    (b) mutation canaries: a seeded sample of source mutants recorded as killed must still be killed by this property's
        harnesses.  A disagreement / surviving canary is a checker error (exit 3), not a violation."""
    out = {}
    env = dict(os.environ, VERIF_SEED=str(seed))
    tmp = tempfile.mkdtemp(prefix='pyvc_thorough_')
    try:
        j = os.path.join(tmp, 'diff.json')
        p = subprocess.run([sys.executable, '-m', 'pyvc.differential', '--n', '12', '--json', j], cwd=ROOT, env=env,
                           capture_output=True, text=True, timeout=1800)
        d = json.load(open(j)) if os.path.exists(j) else {}
        out['cpython_differential'] = dict(exit=p.returncode, scenario_runs=d.get('runs'), kinds=d.get('kinds'),
                                           disagreements=len(d.get('disagreements', [])) if d else None,
                                           summary=(p.stdout.strip().splitlines() or [''])[0][:200])
        if p.returncode != 0:
            crashes.append('CPython differential: ' + (p.stdout + p.stderr)[-800:])
        p = subprocess.run([sys.executable, '-m', 'pyvc.mutants', 'canaries', '--props', prop, '--n', '16'], cwd=ROOT, env=env,
                           capture_output=True, text=True, timeout=3600)
        out['mutation_canaries'] = dict(exit=p.returncode, summary=[l for l in p.stdout.splitlines() if l.startswith(('canaries', 'SURVIVING', 'no mutation'))][:10])
        if p.returncode != 0:
            crashes.append('mutation canaries: ' + (p.stdout + p.stderr)[-800:])
    except Exception as ex:     # pragma: no cover
        crashes.append('thorough extras failed: %r' % ex)
    finally:
        import shutil
        shutil.rmtree(tmp, ignore_errors=True)
    return out


def write_evidence(a, hs, n_obl, n_dis, n_known, violations, undecided, crashes, samples, by_backend, solver_time,
                   functions, files, dropped, per_harness, wall, seed, known_lines, vio_docs, n_bounded=0, n_bounded_ok=0, extras=None):
    man = json.load(open(os.path.join(ROOT, 'MANIFEST.json')))
    level = 'proof'
    note = ''
    for c in man.get('checks', []):
        if c['property_id'] == a.prop:
            level = c['level_claimed']['category']
            note = c.get('level_note', '')
    assumptions = []
    for h in hs:
        for s in h.assumptions:
            if s not in assumptions:
                assumptions.append(s)
    trusted = [
        'pyvc engine (this repository: symbolic interpreter of the Python subset, models of struct/cbitstruct/io/asyncio/datetime)',
        'z3 5.1 (python3-vt), cvc5 1.0.3 as fallback for unknowns',
        'CPython semantics as modelled: mathematical ints, floats treated as exact reals, C3 MRO, exceptions',
        'dropped by extraction: ' + '; '.join(sorted(dropped)),
    ]
    bounded = [ph for ph in per_harness if ph['kind'] == 'bounded']
    ev = dict(
        property_id=a.prop, tier=a.tier if a.tier in ('quick', 'thorough') else 'quick', seed=seed, level=level,
        coverage=dict(
            obligations=n_obl, discharged=n_dis, known_finding_obligations=n_known,
            checker_cmd='python3-vt -m pyvc.check %s --tier %s' % (a.prop, a.tier),
            trusted_base=trusted,
            samples=samples or [dict(note='no non-trivial obligation sampled')],
            explanation='Obligations are SMT queries generated by symbolic execution of the real ASTs of the functions '
                        'listed under functions_under_contract against the sidecar contracts in /verif/contracts; '
                        'every (clause, path) pair is one query. %s' % note,
            by_backend=by_backend, solver_time_s=round(solver_time, 2),
            functions_under_contract=sorted(functions), function_ast_hashes=functions, source_sha256=files,
            harnesses=per_harness, bounded_standins=bounded, bounded_obligations=n_bounded, bounded_passed=n_bounded_ok, undecided=undecided[:50], checker_errors=crashes[:10],
            known_findings_reported=sorted(set(known_lines)), violations=vio_docs, thorough_extras=extras or {},
        ),
        assumptions=assumptions, wall_s=round(wall, 2), violations=len(violations))
    os.makedirs(os.path.join(ROOT, 'evidence'), exist_ok=True)
    path = os.path.join(ROOT, 'evidence', a.prop + '.json')
    json.dump(ev, open(path, 'w'), indent=1, default=str)
    try:
        import jsonschema
        jsonschema.validate(ev, json.load(open('/root/.vp/EVIDENCE.schema.json')))
    except FileNotFoundError:
        pass
    except Exception as ex:
        print('CHECKER-ERROR: evidence does not validate:', str(ex)[:500])


def safe_main(argv=None):
    """A failure of the checker itself is exit 3 - never a violation."""
    try:
        return main(argv)
    except SystemExit:
        raise
    except BaseException:
        traceback.print_exc()
        print('CHECKER-ERROR: the check driver crashed (see traceback above)')
        return 3


if __name__ == '__main__':
    sys.exit(safe_main())
