"""Regenerates /verif/MANIFEST.json from the table below (python3 -m pyvc.manifest_gen)."""
import json
import os

ROOT = os.path.dirname(os.path.dirname(os.path.abspath(__file__)))

TRUST = ('Trusted: the pyvc engine (symbolic interpreter + models of struct/cbitstruct/io/asyncio/datetime, '
         'conformance-checked, bounded), z3/cvc5, CPython semantics as modelled (mathematical ints, floats as exact reals). ')

CLAIMS = {
    'C13': dict(
        level='proof',
        text='Every obligation generated from the real ASTs of StreamControl (allocate loop with inductive invariant and variant, '
             'register/finish/availability/dispatch, first ids) is discharged by z3 for all table contents, all current ids and all '
             'iteration counts; the history statement follows by induction over operations from the per-operation contracts '
             '(Inv13 established by __init__, preserved by every operation).',
        note=TRUST + 'Id spaces proved: 2^31-1 (shipped) and the reduced spaces 3, 7, 15, 0x7F as separate obligation families; '
             'the float in `attempt_counter > M/2` is treated as an exact real.',
        technique='contract-based deductive verification: VCs from the real AST (loop invariant + variant, quantified table invariant), z3',
        design='5/C13'),
    'C02': dict(
        level='proof',
        text='For each of the 14 frame types, every metadata/data shape and both codec back ends, obligations generated from the real '
             'ASTs are discharged for all field values in the wire-format ranges: serialize() equals the wire-format spec function '
             '(written from the RSocket layouts, not from frame.py), parse_or_ignore(spec bytes) returns the same fields, re-encoding '
             'the parsed frame gives the same bytes, and length-prefix + prefix + data/metadata writes equal the one-shot encoding; '
             'helper pairs, both header parsers, the builders and TransportTCP.serialize_partial have their own contracts.',
        note=TRUST + 'Back-end independence is shown by verifying the same contract under both import outcomes of cbitstruct; the C '
             'code of struct/cbitstruct is an assumed model (conformance-checked, bounded).',
        technique='contract-based deductive verification: VCs from the real AST against a wire-format spec function, bit-slice normal form + z3',
        design='5/C02'),
    'C04': dict(
        level='proof',
        text='The real FrameParser.receive_data loop is verified against the recursive length-prefix splitter: per iteration exactly one '
             'complete record X[3:3+L] is handed to the decoder, its result (frame / nothing / invalid marker) is yielded once, the buffer '
             'advances by exactly that record, the loop exits exactly when no complete record is left and leaves the rest unchanged '
             '(inductive invariant + variant, all buffers and chunks); the step lemma of chunk independence (a complete first record is '
             'stable under appending bytes) is mechanised; message mode decodes exactly the message once and terminates; parse_or_ignore '
             'is total on arbitrary bytes and returns a frame only if its parse completed; the TCP / messaging frame sources feed exactly the bytes read.',
        note=TRUST + 'The induction over the number of records that turns the loop contract + step lemma into the statement about every '
             'partition of the stream is a two-line meta-level argument (DESIGN 5/C04), not mechanised.',
        technique='contract-based deductive verification: loop invariant/variant VCs from the real AST against a splitter spec, z3',
        design='5/C04'),
    'C03': dict(
        level='other',
        text='Deductive verification with one open known finding. All obligations generated from the real fragmenter generator (two '
             'loops with inductive invariants and variants over a ghost summary of the yielded fragments), new_frame_fragment, '
             'get_next_fragment, the un-fragmented path and every append step of FrameFragmentCache (fold step of the reassembly '
             'lemma, frame clause for other streams) are discharged for all data/metadata lengths, all fragment sizes >= 64, both '
             'framings and all five frame types - except the wire-size clause for fragments that carry metadata, which the tree '
             'genuinely violates by up to 3 bytes (listed in known_findings.json; the bound size+3 is proved instead). Level is '
             '"other" rather than "proof" because discharged < obligations on the unchanged tree.',
        note=TRUST + 'Generator protocol (successive __next__ = successive yields) and io.BytesIO.read are assumed models. The fold '
             'over the fragment sequence (induction on the number of fragments) is meta-level on top of the mechanised step.',
        technique='contract-based deductive verification: generator/loop-invariant VCs from the real AST with ghost yield summary, z3',
        design='5/C03'),
    'C14': dict(
        level='proof',
        text='Decision logic of the lease mechanism, from the real ASTs, for all grants, time-to-live values, counters, clock values and '
             'ARBITRARY queue contents (symbolic FIFO model): a DefinedLease answers True iff not expired and within the grant (ghost '
             'used <= granted invariant); send_request puts a request frame of each of the four types on the wire iff the lease allows, '
             'otherwise at the tail of the retention queue or raises QueueFull (never both, never lost silently); the initial lease grants '
             'nothing; handle_lease installs exactly the announced lease and its drain loop (inductive invariant + variant) moves a prefix '
             'of the retained frames, in order, one unit each, stopping exactly when empty or refused; send_lease announces exactly the '
             'published grant and ttl in ms; to_milliseconds is exact (after the fix recorded in known_findings.json).',
        note=TRUST + 'Wall clock replaced by a ghost clock that does not advance within one atomic segment; asyncio.Queue is an assumed '
             'FIFO model. Floats in to_milliseconds treated as exact reals.',
        technique='contract-based deductive verification: VCs from the real AST with ghost clock/credit and a symbolic FIFO queue, z3',
        design='5/C14'),
    'C05': dict(
        level='proof',
        text='The send queue is modelled as an ARBITRARY FIFO of sources with ghost stream / enqueue-sequence / started attributes. The '
             'queue invariant Inv_Q (per stream: FIFO by enqueue order, and only the oldest source of a stream may have started) is proved '
             'to be preserved by send_frame and by each of the three emission cases of the real _get_next_frame_to_send (quantified, '
             'unbounded), and every emitted frame is proved to belong to the head source, hence to the oldest source of its stream with '
             'no other source of that stream started. One sender iteration writes exactly that frame and resolves exactly its sent_future.',
        note=TRUST + 'L-QUEUE (legality at every emission => per-stream order and fragment contiguity of the wire log) is a meta-level '
             'induction over emissions. asyncio.Queue/QueuePeekable.peek and get_next_fragment are used through contracts (peek verified; '
             'get_next_fragment under C03; contains_after_head proved for every queue content, with any()/list slicing modelled as a '
             'quantifier over a symbolic sequence). Bounded stand-ins, not counted as proved: send_priority_frame (queue length <= 5), '
             'instances of contains_after_head (<= 4, cross-check of that model) and of the emission step (concrete counter-models).',
        technique='contract-based deductive verification: quantified queue invariant + ghost sequence numbers over a symbolic FIFO, z3',
        design='5/C05'),
    'C07': dict(
        level='proof',
        text='Per-handler transition contracts (K-HANDLER, DESIGN Appendix A) proved on the real ASTs of all six stream handlers, both roles, for every '
             'abstract state (future pending / cancelled-with-callback-queued; subscribed / never subscribed; each direction open or closed), '
             'every frame kind incl. the synthetic ERROR of stop_all_streams, local cancel/request, and application callbacks that re-enter '
             'request()/cancel(): on_subscribe first and once, at most one terminal signal, nothing delivered after the receiving direction '
             'closed, a request-response future resolved at most once and never touched once done; dispatch reaches a handler only while its '
             'id is registered (handle_stream / _handle_next_frame contracts), stop_all_streams visits every stream once (loop rule over the key set).',
        note=TRUST + 'Peer legality (frames a role automaton allows) and reactive-streams legality of application publishers are assumed; '
             'asyncio.Future semantics as modelled (Appendix B). L-TERMINAL (invariants => at most one terminal over every history) is the meta-level induction over entry points.',
        technique='contract-based deductive verification: per-entry-point pre/post over ghost signal and wire logs, z3',
        design='5/C07, App. A'),
    'C08': dict(
        level='other',
        text='Deductive verification with open known findings. Emission clauses of every handler entry point (exact frame kind, own stream id, request frame first '
             'even with re-entrant request/cancel in on_subscribe, positive initial request-n, nothing after CANCEL / completion, nothing after finish), request '
             'methods, SETUP content and SETUP-first (at-await invariant of connect), lease gating, keepalive and lease frames on stream 0 are discharged. '
             'Open: after ERROR on a channel (received or emitted) the library keeps the other direction open - the clause "nothing follows ERROR" fails and is '
             'listed in known_findings.json with the tests that pin the behaviour. Level "other" because discharged < obligations.',
        note=TRUST + 'Peer legality and reactive-streams legality assumed.',
        technique='contract-based deductive verification: emission automaton clauses over a ghost wire log, z3',
        design='5/C08, App. A'),
    'C09': dict(
        level='other',
        text='Deductive verification with one open known finding (a requester\'s cancel() of a CHANNEL only closes its receiving direction - its own publisher keeps '
             'sending after CANCEL; pinned by a stable test, see known_findings.json; hence "other"). Cancellation contracts proved for every handler (exactly one CANCEL on the own stream then release; responder cancels the producing future / '
             'subscription exactly once; a requester channel CANCEL ends the channel; nothing delivered to the canceller afterwards; no second CANCEL after '
             'termination) with the frame clause that other streams are untouched, and for the library sources: cancel() / dispose() of StreamFromGenerator / '
             'StreamFromAsyncGenerator are total in every state reachable from __init__ (before subscribe, before the first request, requested but feeder '
             'not yet run, running, finished), cancel both feeder tasks, close a started generator once and call on_cancel once.',
        note=TRUST + 'That a cancelled asyncio task really stops is an asyncio assumption; Rx dispose path is covered under C20.',
        technique='contract-based deductive verification: per-entry-point contracts over ghost logs; state enumeration of the source object shapes, z3',
        design='5/C09'),
    'C10': dict(
        level='other',
        text='Deductive verification with open known findings. finish_stream removes exactly the id from stream table and reassembly cache (quantified frame '
             'clause); every terminal transition of every handler ends with the id released (complete, complete-flagged element, empty completion, application '
             'error, peer ERROR, cancel by either side, cancelled future, close); channel: released exactly when both directions are closed, both closing orders; '
             'fire-and-forget id released when the frame was written; reassembly entry removed with the last fragment (C03). Open: ERROR on a channel closes only '
             'one direction (known_findings.json). Level "other" because discharged < obligations.',
        note=TRUST,
        technique='contract-based deductive verification: release clauses over symbolic stream table / cache maps, z3',
        design='5/C10'),
    'C11': dict(
        level='other',
        text='Contracts proved: stop_all_streams fails every registered Requester with exactly one ERROR(code, data), disposes every Disposable once, releases every id, '
             'and is exception-safe (loop rule over the finite key set, arbitrary table, raising handlers); every exit path of _receiver (EOF, transport error, cancellation) '
             'runs the clean-up once in the order fail-pending / on_close / stop-tasks; the sender absorbs transport errors and runs only its own finaliser; close() stops tasks '
             'before closing the transport once; keepalive task cancelled by both stop paths. The cut point is the universally quantified pre-state. The composition over '
             'concurrently running tasks (on_close at most once over receiver + close()) is a meta-level argument on the asyncio model, hence "other".',
        note=TRUST + 'asyncio task/future semantics assumed (Appendix B); OS/transport behaviour outside.',
        technique='contract-based deductive verification: loop rule over a symbolic map, exit-path contracts of coroutines with suspension hooks, z3',
        design='5/C11'),
    'C12': dict(
        level='proof',
        text='parse_or_ignore is total on ARBITRARY bytes under both back ends (returns a frame only if its parse completed, None only for ignorable/misplaced frames, '
             'raises only Exceptions with the documented classes); the frame generator never lets an exception escape and terminates (C04 variants); the receiver loop body '
             'answers a protocol error / any application exception with exactly one ERROR on the offending stream and goes on with the next frame, only transport errors and '
             'cancellation leave it; every handler entry point is proved not to raise for any frame (incl. invalid UTF-8 error data, missing subscriber/publisher) and to touch '
             'only its own stream; exception_to_error_frame always yields serialisable bytes.',
        note=TRUST + 'Residual not decided: "requests on other streams are served correctly afterwards" end to end (needs a peer); resource exhaustion.',
        technique='contract-based deductive verification: totality/containment contracts from the real AST on arbitrary byte strings, z3',
        design='5/C12'),
    'C15': dict(
        level='proof',
        text='Echo contract of handle_keep_alive (exactly one KEEPALIVE without the flag, same data and position, iff the flag was set; arrival time recorded), per-iteration '
             'contracts of the keepalive sender (sleeps exactly the keep-alive period, then queues exactly one respond-flagged KEEPALIVE on stream 0; ends only by cancellation) '
             'and of the timeout task (checks once per max-lifetime; callback iff silence > lifetime, alive flag cleared first), start/stop of the task, and the arithmetic lemma '
             'L-KEEPALIVE (no timeout while gaps <= lifetime; some check within two lifetimes of the last keepalive sees the timeout) are all discharged.',
        note=TRUST + 'Virtual clock: asyncio.sleep(d) resumes exactly d later and datetime.now() reads the same clock; handler run time is zero.',
        technique='contract-based deductive verification: loop-iteration contracts over a ghost clock + mechanised arithmetic lemma, z3',
        design='5/C15'),
    'C16': dict(
        level='proof',
        text='SETUP content = configuration for all periods (exact ms), encodings (enum/str/bytes normalised), lease flag and payload; queued through the priority path; '
             'ordering as an at-await invariant of the real connect(): at every suspension point "transport future resolved => SETUP queued at the head" for transports '
             'whose connect() does or does not suspend and with requests issued meanwhile (kept behind SETUP in order); server: resume / lease-without-publisher => '
             'UNSUPPORTED_SETUP without calling on_setup, on_setup awaited exactly once with encodings and payload, raising => REJECTED_SETUP, RESUME => REJECTED_RESUME; '
             'the receiver turns each into one ERROR on stream 0 (C12 contracts).',
        note=TRUST + 'The sender dequeues only after awaiting the transport future (proved in c05.sender.iteration); head insert itself is a bounded stand-in (queue length <= 5).',
        technique='contract-based deductive verification: content post-conditions + at-await invariant via suspension hooks, z3',
        design='5/C16'),
    'C17': dict(
        level='other',
        text='Proved: the post-state of connect() is fresh for EVERY pre-state (any old table/queues/lease, alive flag either value): new stream control whose first id is 1, '
             'empty queues and reassembly cache, initial lease, receiver and sender restarted, alive flag true and keepalive clock restarted, next transport taken from the '
             'provider and connected, SETUP queued; one listener step closes the old connection in reconnect mode before installing a fresh transport future and connecting; '
             'close() semantics. Not decided by contracts: "requests issued afterwards are served" (needs a peer) - hence "other".',
        note=TRUST + 'Provider and transport abstract; failing of the old requests is the C11 contract of the receiver exit.',
        technique='contract-based deductive verification: post-state contract quantified over all pre-states, z3',
        design='5/C17'),
    'C06': dict(
        level='other',
        text='Safety half proved as step contracts on the real code: async_range(n) yields exactly n; _generate_next_n(n) (both sources) yields at most one element per unit '
             'of credit, at most n, exactly the elements taken from the generator; one queue_next_n iteration asks for exactly the dequeued credit and enqueues exactly the generated '
             'elements in order up to the first complete; one feed_subscriber iteration delivers exactly the dequeued element once; responder wrappers emit one PAYLOAD per on_next '
             'on their own stream; REQUEST_STREAM/CHANNEL initial request-n and REQUEST_N are forwarded to Subscription.request with exactly that value, once; initial_request_n / '
             'request(n) of requesters are transmitted exactly; the collector tops up exactly limit_rate when its window is full. Liveness ("delivers every element once credit '
             'exists") is not decidable by contracts - hence "other".',
        note=TRUST + 'Composition gen <= deq <= credit over the two feeder tasks is the meta-level induction over iterations (rely: request queue only grows by request, payload queue only consumed by the feeder).',
        technique='contract-based deductive verification: loop-iteration step contracts with ghost counters, z3',
        design='5/C06'),
    'C18': dict(
        level='proof',
        text='Well-known MIME / authentication tables enumerated completely on the module objects (ids distinct, names distinct, both inverse laws, ranges); entry codecs proved '
             'for all values in range under both back ends: custom MIME header = len-1 then name for every 1..128-byte name, decodes back with the right offset, 129+ bytes '
             'rejected at encode time; every well-known type in every spelling = one byte 0x80|id and back; simple/bearer authentication and the authentication entry; routing '
             'tags (<= 255 bytes, longer rejected before anything is returned); stream data MIME type(s); composite entries = header, 24-bit length, body. Lists: step contracts '
             'of each parse loop at an arbitrary offset of an arbitrary buffer P ++ enc(x) ++ S (one element, exact advance) with variants, serialisers on generic lists.',
        note=TRUST + 'The list induction (step contract => decode(encode(list)) = list for every list) is meta-level; end-to-end instances for short lists are bounded stand-ins.',
        technique='contract-based deductive verification: entry codec VCs + parse-loop step contracts; finite tables by exhaustive enumeration',
        design='5/C18'),
    'C19': dict(
        level='proof',
        text='Registration writes to exactly the table of its decorator and rejects empty and duplicate routes; route() invokes exactly one handler - the one registered for '
             'exactly this interaction type and route, else that type\'s unknown-route handler, else raises RSocketUnknownRoute and invokes nothing - for every table shape; '
             'per-parameter argument binding (payload / parsed composite metadata / deserialised by annotation); _parse_and_route takes the first tag of the first routing '
             'entry wherever it sits, awaits the verifier with (route, first authentication entry) BEFORE routing, routes nothing when the entry is missing or the verifier '
             'raises, and leaves no state on the handler object (so no earlier request can open the gate); each of the five entry points passes its own type and confines failure '
             'to its own request.',
        note=TRUST + 'Routes are compared only for equality, so generic distinct route strings stand for all routes (parametricity); composite decoding is C18; handlers and verifier abstract.',
        technique='contract-based deductive verification: exact-invocation contracts over a ghost call log, enumeration of table shapes',
        design='5/C19'),
    'C20': dict(
        level='other',
        text='For both the Rx and the ReactiveX package, proved on the real code: every RequestHandler method of the adapter awaits the delegate method of the same name exactly '
             'once with the same arguments (and terminates); request_stream/channel wrap plain observables in the buffering publisher and back-pressure-aware factories in the '
             'feedback publisher, observer wrapped with its limit; the client passes request_limit both as initial_request_n and as batch size; RxSubscriber / '
             'RxSubscriberFromObserver forward every element once, in order, preserve completion and errors, and request exactly limit_rate when a window is full; disposing '
             'the result observable cancels both tasks and the core subscription exactly once; the feedback subject receives exactly the credited amounts; one event per unit '
             'of credit in the event forwarder. "other" because the equivalence "through Rx operators" rests on an ASSUMED model of the rx / reactivex libraries.',
        note=TRUST + 'rx / reactivex library behaviour (Subject, create, pipe/operators, from_future) is an assumed contract (pyvc.rxmodel), not verified.',
        technique='contract-based deductive verification of the adapter code against assumed library contracts',
        design='5/C20'),
    'C01': dict(
        level='other',
        text='Per-hop contracts, each proved on one endpoint: (1) request side - fresh id, handler registered under exactly that id, request frame carries exactly the payload '
             'bytes, that id and the configured request-n; (2) emission - send_payload/send_error/send_complete queue exactly one frame with those bytes on that stream; wrappers '
             'use their own id; (3) wire - C02 codec, C03 fragmentation/reassembly, C04 chunking, C05 per-stream order; (4) dispatch - a completed frame with id s reaches the '
             'handler registered under s and no other, request frames reach the handler method of their type with Payload(frame bytes); (5) delivery - each handler delivers '
             'exactly the frame bytes once to its own subscriber / future. The composition of the hops over two endpoints and a reliable FIFO pipe (L-E2E) is a hand argument, '
             'not machine-checked - hence "other".',
        note=TRUST + 'Not decided by this technique: composition across two endpoints and the network, scheduler fairness, late futures.',
        technique='contract-based deductive verification of every hop; end-to-end composition by hand lemma',
        design='5/C01'),
}

NOT_YET = 'contracts for this property are not built yet'

# bounded stand-ins (labelled `bounded` in the evidence, never added to `discharged`) and other additions per property
EXTRA_NOTES = {
    'C03': 'Bounded stand-in next to the loop contracts: the fragmenter completely unrolled at fragment size 64 for payloads up to three fragments '
           '(decides the same clauses when the loops are rewritten).',
    'C04': 'Bounded stand-ins: chunk-independence checked directly on a parser made by its real __init__ for 2-3 symbolic reads of up to 8 bytes '
           '(loops unrolled, compared with the splitter); message transports (quart / aiohttp / websockets) for three messages with abstract sockets.',
    'C05': 'Bounded stand-in for queue operations without a contract of their own (frame condition): none exists on the unchanged tree. '
           'The waiting branch of QueuePeekable.peek is verified against the assumed asyncio.Queue internals. send_priority_frame (head insertion '
           'preserving the order of everything else) is proved for every queue content with two loop contracts over a list of symbolic length; '
           'its bounded instances (queue length <= 5) remain as a cross-check.',
    'C06': 'Bounded stand-in: "never parked waiting for credit while granted credit is unused" (safety form of the liveness half) for the '
           'observable-backed publishers, driven through their public operations with loops unrolled.',
    'C13': 'The allocator is additionally proved by complete unrolling on the reduced id spaces 3, 7, 15 (no loop contract needed).',
    'C14': 'Bounded stand-in: lease histories through send_request / handle_lease only (up to 4 requests, queue sizes 0/1/3, symbolic grant and clock), '
           'independent of the container that retains requests.',
    'C20': 'Bounded stand-in for the lost-wake-up clause as under C06.',
}
GENERAL = (' The pre-states the endpoint contracts start from are established by the real constructors (contracts/c_21_construction.py: '
           'RSocketServer/RSocketClient/RSocketBase.__init__, _reset_internals, the stream sources, the Rx subscribers). Thorough tier additionally runs a CPython differential of the engine (real functions on concrete inputs, both codec back ends) and '
           'mutation canaries (source mutants that must turn this check red); both guard the trusted base and the contracts\' sensitivity and never decide the property.')


def main():
    props = [json.loads(l)['id'] for l in open(os.path.join(ROOT, 'properties.jsonl'))]
    checks = []
    na = []
    for p in props:
        c = CLAIMS.get(p)
        if c is None or c.get('na'):
            na.append(dict(property_id=p, reason=(c or {}).get('na', NOT_YET)))
            continue
        checks.append(dict(
            property_id=p,
            quick_cmd='python3-vt -m pyvc.check %s --tier quick' % p,
            thorough_cmd='python3-vt -m pyvc.check %s --tier thorough' % p,
            evidence_file='evidence/%s.json' % p,
            replay_cmd_template='cd /repo && PYTHONPATH=/verif:/repo /venv/bin/python /verif/pyvc/replay_runner.py {path}',
            engine='pyvc',
            level_claimed=dict(category=c['level'], text=c['text'], design_ref='DESIGN.md ' + c['design']),
            level_note=c['note'] + ((' ' + EXTRA_NOTES[p]) if p in EXTRA_NOTES else '') + GENERAL,
            technique=c['technique']))
    m = dict(
        version=1,
        setup_cmd='python3-vt -m pyvc.selfcheck',
        hooks=dict(guard='RSOCKET_PY_VERIF',
                   enable='none needed: contracts are sidecar files under /verif/contracts; the engine reads /repo sources with ast.parse on every run; no instrumentation in /repo',
                   baseline_off_cmd='cd /repo && /venv/bin/python -m pytest -ra -q -p no:cacheprovider --timeout=900 --continue-on-collection-errors',
                   source_commits=[], add_only=True),
        engines=[dict(name='pyvc', path='pyvc/', serves_properties=[c['property_id'] for c in checks],
                      kind_free_text='verification-condition generator: path-wise symbolic execution of the real function ASTs of /repo '
                                     '(re-read on every run) against sidecar contracts (pre/post, loop invariants + variants, ghost state); '
                                     'obligations discharged by z3, cvc5 fallback; counter-models replayed on the real code under /venv/bin/python')],
        checks=checks,
        not_applicable=na,
        notes='See DESIGN.md. Exit codes of every check: 0 held, 1 violation (VIOLATION line), 2 undecided, 3 checker error.')
    json.dump(m, open(os.path.join(ROOT, 'MANIFEST.json'), 'w'), indent=1)
    print('checks:', [c['property_id'] for c in checks])


if __name__ == '__main__':
    main()
