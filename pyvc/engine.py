"""pyvc engine: path-wise symbolic execution of the *real* function ASTs of /repo.

The engine re-reads the repository sources with ast.parse on every run, builds
classes/functions from the ASTs and interprets them over the symbolic value
domain of values.py.  Paths are enumerated by re-execution under a decision
script (no state copying); every branch is checked for feasibility with z3.
Loops are cut at their head with an invariant supplied by the contract; calls
are inlined unless a contract stub is registered for the callee.
"""
import ast
import hashlib
import os
import time
import threading

import z3

from .values import *   # noqa
from . import values as V
from . import qinst

REPO_ROOT = os.environ.get('PYVC_REPO', '/repo')


# =========================================================================== program objects

class Module:
    def __init__(self, name, path, node, src):
        self.name = name
        self.path = path
        self.node = node
        self.src = src
        self.globals = {}
        self.loaded = False

    def __repr__(self):
        return '<module %s>' % self.name


class PyClass:
    def __init__(self, name, bases, module=None, builtin=False):
        self.name = name
        self.bases = bases
        self.module = module
        self.dict = {}
        self.builtin = builtin
        self.is_enum = any(getattr(b, 'is_enum', False) for b in bases)
        self.is_int_enum = any(getattr(b, 'is_int_enum', False) for b in bases)
        self.members = {}       # enum members by name
        self.mro = self._c3()
        self.qualname = name
        self.node = None

    def _c3(self):
        seqs = [list(b.mro) for b in self.bases] + [list(self.bases)]
        res = [self]
        seqs = [s for s in seqs if s]
        while seqs:
            for s in seqs:
                cand = s[0]
                if not any(cand in t[1:] for t in seqs):
                    break
            else:
                raise Unsupported('inconsistent MRO for %s' % self.name)
            res.append(cand)
            seqs = [[x for x in s if x is not cand] for s in seqs]
            seqs = [s for s in seqs if s]
        return res

    def lookup(self, name, after=None):
        mro = self.mro
        if after is not None:
            mro = mro[mro.index(after) + 1:]
        for c in mro:
            if name in c.dict:
                return c.dict[name], c
        return None, None

    def issubclass(self, other):
        return other in self.mro

    def __repr__(self):
        return '<class %s>' % self.name


class PyFunc:
    def __init__(self, node, module, env, qualname, cls=None):
        self.node = node
        self.module = module
        self.env = env
        self.qualname = qualname
        self.cls = cls
        self.defaults = []
        self.kw_defaults = {}
        self.is_async = isinstance(node, ast.AsyncFunctionDef)
        self.is_gen = False
        if not isinstance(node, ast.Lambda):
            self.is_gen = _has_yield(node)
        self.is_contextmanager = False
        self.is_static = False
        self.is_classmethod = False
        self.unknown_decorator = None
        self.name = getattr(node, 'name', '<lambda>')

    def __repr__(self):
        return '<func %s>' % self.qualname


def _has_yield(fn):
    for n in _walk_same_scope(fn):
        if isinstance(n, (ast.Yield, ast.YieldFrom)):
            return True
    return False


def _walk_same_scope(fn):
    todo = list(fn.body) if isinstance(fn.body, list) else [fn.body]
    while todo:
        n = todo.pop()
        if isinstance(n, (ast.FunctionDef, ast.AsyncFunctionDef, ast.Lambda, ast.ClassDef)):
            continue
        yield n
        for c in ast.iter_child_nodes(n):
            if isinstance(c, (ast.FunctionDef, ast.AsyncFunctionDef, ast.Lambda, ast.ClassDef)):
                continue
            todo.append(c)


class Property:
    def __init__(self, fget, fset=None):
        self.fget = fget
        self.fset = fset


class BoundMethod:
    def __init__(self, func, self_obj):
        self.func = func
        self.self_obj = self_obj

    def __repr__(self):
        return '<bound %s of %r>' % (self.func, self.self_obj)


class Builtin:
    def __init__(self, name, impl):
        self.name = name
        self.impl = impl

    def __repr__(self):
        return '<builtin %s>' % self.name


class SuperProxy:
    def __init__(self, cls, obj):
        self.cls = cls
        self.obj = obj


class GenObj:
    """A generator object created by calling an interpreted generator function (not started)."""

    def __init__(self, func, env):
        self.func = func
        self.env = env
        self.started = False
        self.thread = None


class Env:
    def __init__(self, module, func=None, parent=None):
        self.module = module
        self.func = func
        self.parent = parent
        self.vars = {}
        self.loop_ordinal = {}

    def lookup(self, name):
        e = self
        while e is not None:
            if name in e.vars:
                return e.vars[name]
            e = e.parent
        g = self.module.globals
        if name in g:
            return g[name]
        raise KeyError(name)


# =========================================================================== builtin exception hierarchy

def _mk_exc_classes():
    d = {}

    def mk(name, *bases):
        c = PyClass(name, [d[b] for b in bases], builtin=True)
        d[name] = c
        return c
    obj = PyClass('object', [], builtin=True)
    d['object'] = obj
    mk('BaseException', 'object')
    mk('Exception', 'BaseException')
    mk('GeneratorExit', 'BaseException')
    mk('KeyboardInterrupt', 'BaseException')
    mk('SystemExit', 'BaseException')
    mk('CancelledError', 'BaseException')
    for n in ('ArithmeticError', 'LookupError', 'ValueError', 'TypeError', 'AttributeError', 'RuntimeError',
              'StopIteration', 'StopAsyncIteration', 'ImportError', 'OSError', 'AssertionError', 'NameError',
              'struct.error', 'QueueEmpty', 'QueueFull', 'InvalidStateError', 'TimeoutError'):
        mk(n, 'Exception')
    mk('IndexError', 'LookupError')
    mk('KeyError', 'LookupError')
    mk('ZeroDivisionError', 'ArithmeticError')
    mk('OverflowError', 'ArithmeticError')
    mk('RecursionError', 'RuntimeError')
    mk('NotImplementedError', 'RuntimeError')
    mk('UnicodeDecodeError', 'ValueError')
    mk('UnicodeEncodeError', 'ValueError')
    mk('ModuleNotFoundError', 'ImportError')
    mk('ConnectionError', 'OSError')
    return d


EXC = _mk_exc_classes()
OBJECT = EXC['object']


class GenList(list):
    """Eagerly evaluated generator expression: a list that is consumed like an iterator by next()."""
    _pos = 0


class SealedAttrs(dict):
    """Attribute dictionary of an object built by its real constructor.  Contract code (running outside any interpreted
    function) may override attributes, or set ones that some method of the class assigns - but not invent one the class does
    not know: that is a contract written for an attribute that has since been renamed or removed (undecided, not a verdict)."""

    def __init__(self, d, engine, cls):
        super().__init__(d)
        self._engine = engine
        self._cls = cls

    def __setitem__(self, k, v):
        e = self._engine
        if e.call_depth == 0 and k not in self and not k.startswith('__') and k not in e.all_assigned(self._cls):
            raise Unsupported("contract out of date: it sets attribute %r of a %s, which no method of the class assigns any more"
                              % (k, self._cls.name))
        dict.__setitem__(self, k, v)


class LoopSpec:
    """Contract of one loop: invariant (list of (name, z3 bool)), variant (z3 int), extra havoc."""

    def __init__(self, invariant, variant=None, havoc=None, modifies=None, note=''):
        self.invariant = invariant      # fn(ctx) -> list[(name, expr)]
        self.variant = variant          # fn(ctx) -> z3 Int term   (None: termination not claimed -> obligation fails as 'undecided')
        self.havoc = havoc              # fn(ctx) -> None : custom havoc (after the default one)
        self.modifies = modifies        # optional explicit list of names / 'self.attr'
        self.note = note
        self.nonterminating = False     # service loops (sender/receiver): termination is not an obligation



def _names_in(node):
    return {n.id for n in ast.walk(node) if isinstance(n, ast.Name)}


def _role_candidates(role, fn, loop):
    """Role patterns over the AST (all return a set of local names):
    ('aug', k)            x += k / x = x + k in the loop body, k an int constant
    ('while_names',)      names in the while test
    ('while_lhs',)        left operand of the comparison that is the while test
    ('assigned', 'src')   x = <expr> anywhere in the function with ast.unparse(expr) == src (whitespace-insensitive)
    ('assigned_call', 'f', 'arg')   x = ...f(arg, ...) : callee name ends with f, first argument unparses to arg
    """
    out = set()
    kind = role[0]
    norm = lambda t: ''.join(t.split())
    if kind == 'aug' and loop is not None:
        for st in loop.body:
            for n in ast.walk(st):
                if isinstance(n, ast.AugAssign) and isinstance(n.target, ast.Name) and isinstance(n.op, ast.Add) \
                        and isinstance(n.value, ast.Constant) and n.value.value == role[1]:
                    out.add(n.target.id)
                if isinstance(n, ast.Assign) and len(n.targets) == 1 and isinstance(n.targets[0], ast.Name) \
                        and isinstance(n.value, ast.BinOp) and isinstance(n.value.op, ast.Add):
                    t = n.targets[0].id
                    l, r = n.value.left, n.value.right
                    for a, b in ((l, r), (r, l)):
                        if isinstance(a, ast.Name) and a.id == t and isinstance(b, ast.Constant) and b.value == role[1]:
                            out.add(t)
    elif kind == 'appended' and loop is not None:
        # ('appended',)  the local list the loop body appends to:  x.append(...)
        for st in loop.body:
            for n in ast.walk(st):
                if isinstance(n, ast.Call) and isinstance(n.func, ast.Attribute) and n.func.attr == 'append' \
                        and isinstance(n.func.value, ast.Name):
                    out.add(n.func.value.id)
    elif kind == 'while_names' and isinstance(loop, ast.While):
        out = _names_in(loop.test)
    elif kind == 'while_lhs' and isinstance(loop, ast.While):
        t = loop.test
        if isinstance(t, ast.Compare) and isinstance(t.left, ast.Name):
            out.add(t.left.id)
    elif kind == 'assigned' and fn is not None:
        for n in _walk_same_scope(fn):
            if isinstance(n, ast.Assign) and len(n.targets) == 1 and isinstance(n.targets[0], ast.Name) \
                    and norm(ast.unparse(n.value)) == norm(role[1]):
                out.add(n.targets[0].id)
    elif kind == 'assigned_call' and fn is not None:
        for n in _walk_same_scope(fn):
            if isinstance(n, ast.Assign) and len(n.targets) == 1 and isinstance(n.targets[0], ast.Name) \
                    and isinstance(n.value, ast.Call) and n.value.args:
                if ast.unparse(n.value.func).split('.')[-1] == role[1] and norm(ast.unparse(n.value.args[0])) == norm(role[2]):
                    out.add(n.targets[0].id)
    return out


class ConsumerSignal(Exception):
    """an exception / return / break of the body of a for-loop over a generator, on its way out through the generator's frames"""

    def __init__(self, inner):
        Exception.__init__(self, repr(inner))
        self.inner = inner


class LoopCtx:
    def __init__(self, engine, env, k, entry, phase='head', node=None):
        self.E = engine
        self.env = env
        self.k = k
        self.entry = entry
        self.phase = phase          # 'entry' | 'head' | 'step'
        self.ghost = None           # shared dict between the three evaluations of one loop cut
        self.node = node            # AST node of the loop (None for the symbolic-iterator rules)

    def __getitem__(self, name):
        if name not in self.env.vars:
            raise Unsupported('loop contract names local %r which the function no longer has' % name)
        return self.env.vars[name]

    # ---- locals by *role* (robust against renaming): DESIGN 8.2 / 8.6
    def _resolve(self, name, roles):
        """Name of the local playing one of the given roles in the function's AST; falls back to `name`."""
        fn = self.env.func.node if self.env.func is not None else None
        for role in roles:
            cands = _role_candidates(role, fn, self.node)
            if len(cands) == 1:
                c = next(iter(cands))
                if c in self.env.vars or self.phase == 'entry':
                    return c
        if name in self.env.vars:
            return name
        raise Unsupported('loop contract: no local plays role %r (and no local is named %r)' % (roles, name))

    def local(self, name, *roles):
        n = self._resolve(name, roles)
        if n not in self.env.vars:
            raise Unsupported('loop contract: local %r (role %r) is not bound at the loop head' % (n, roles))
        return self.env.vars[n]

    def set_local(self, name, value, *roles):
        self.env.vars[self._resolve(name, roles)] = value

    def local_name(self, name, *roles):
        return self._resolve(name, roles)

    @property
    def self(self):
        return self.env.vars['self']


# =========================================================================== path

class ObligationResult:
    def __init__(self, name, status, path_sig, time_s, model=None, reason='', smt2=None, backend='z3'):
        self.name = name
        self.status = status        # 'proved' | 'refuted' | 'unknown'
        self.path_sig = path_sig
        self.time_s = time_s
        self.model = model          # dict of concretised inputs when refuted
        self.reason = reason
        self.smt2 = smt2
        self.backend = backend

    def to_json(self):
        return dict(name=self.name, status=self.status, path=self.path_sig, time_s=round(self.time_s, 4),
                    model=self.model, reason=self.reason, backend=self.backend)


class Path:
    def __init__(self, engine, script):
        self.engine = engine
        self.script = list(script)
        self.taken = []
        self.solver = z3.Solver()
        self.solver.set('timeout', engine.branch_timeout_ms)
        self.pc = []
        self.sig = []
        self.counters = {}
        self.inputs = {}            # name -> value (for model extraction)
        self.ghost = {}
        self.axiom_ids = set()
        self.covers = []
        self._quant = False
        self._quant_seen = 0

    def fresh_name(self, prefix):
        n = self.counters.get(prefix, 0)
        self.counters[prefix] = n + 1
        return '%s!%d' % (prefix, n) if n else prefix

    def add(self, e):
        if isinstance(e, bool):
            if not e:
                raise PathEnd('assume False')
            return
        self.pc.append(e)
        self.solver.add(e)

    def axiom(self, e):
        i = e.get_id()
        if i in self.axiom_ids:
            return
        self.axiom_ids.add(i)
        self.pc.append(e)
        self.solver.add(e)

    def check(self, e=None):
        eng = self.engine
        t0 = time.time()
        if eng.deadline is not None and t0 > eng.deadline + 5:
            raise Unsupported('time budget of %ds for this harness exceeded inside a path (undecided)' % eng.harness_budget_s)
        quant = self.has_quant()
        if quant:
            self.solver.set('timeout', min(eng.branch_timeout_ms, eng.quant_first_try_ms))
        if e is None:
            r = self.solver.check()
        else:
            r = self.solver.check(e)
        if quant:
            self.solver.set('timeout', eng.branch_timeout_ms)
            if r == z3.unknown:
                # satisfiability of quantified invariants: decide by instantiation + model validation (qinst.py)
                from . import qinst
                st, m, info = qinst.decide(list(self.pc) + ([e] if e is not None else []))
                eng.stats['qinst_calls'] = eng.stats.get('qinst_calls', 0) + 1
                if st == 'sat':
                    r = z3.sat
                elif st == 'unsat':
                    r = z3.unsat
                else:
                    r = self.solver.check() if e is None else self.solver.check(e)
        eng.stats['solver_calls'] += 1
        eng.stats['solver_time'] += time.time() - t0
        return r

    def has_quant(self):
        n = len(self.pc)
        if n != self._quant_seen:
            from . import qinst
            for a in self.pc[self._quant_seen:]:
                if not self._quant and qinst._contains_quant(a):
                    self._quant = True
            self._quant_seen = n
        return self._quant

    def feasible(self, e):
        r = self.check(e)
        return r != z3.unsat

    def branch(self, e, site=''):
        e = z3.simplify(e)
        if z3.is_true(e):
            return True
        if z3.is_false(e):
            return False
        ne = z3.Not(e)
        can_t = self.feasible(e)
        can_f = self.feasible(ne)
        if can_t and not can_f:
            return True
        if can_f and not can_t:
            return False
        if not can_t and not can_f:
            raise PathEnd('infeasible path')
        choice = self._choose(2)
        take = (choice == 0)
        self.sig.append('%s:%s' % (site, 'T' if take else 'F'))
        self.add(e if take else ne)
        return take

    def _choose(self, n):
        idx = len(self.taken)
        if idx < len(self.script):
            c = self.script[idx]
        else:
            c = 0
            self.script.append(0)
            for alt in range(n - 1, 0, -1):
                self.engine.worklist.append(self.script[:idx] + [alt])
        self.taken.append(c)
        return c

    def choice(self, n, site=''):
        c = self._choose(n)
        self.sig.append('%s:%d' % (site, c))
        return c


# =========================================================================== engine

class Engine:
    def __init__(self, backend='native', repo_root=None):
        self.repo_root = repo_root or REPO_ROOT
        self.backend = backend              # 'native' | 'cbitstruct'
        self.modules = {}
        self.stubs = {}                     # qualname -> fn(engine, func, args, kwargs) -> value
        self.loop_specs = {}                # (qualname, ordinal) -> LoopSpec
        self.path = None
        self.worklist = []
        self.stats = dict(solver_calls=0, solver_time=0.0, paths=0)
        self.branch_timeout_ms = 5000
        self.prove_timeout_ms = 20000
        self.stale_notes = set()
        self.lazy_mode = 'havoc'            # how a pre-state shape is completed with attributes added to the class later
        self.lazy_attrs = set()
        self.harness_budget_s = 90         # wall-clock budget per harness; exceeding it is "undecided", never a verdict
        self.deadline = None
        self.quant_first_try_ms = 800      # first attempt on queries with quantified assumptions before qinst takes over
        self.results = []
        self.yield_handlers = []
        self.call_depth = 0
        self.max_depth = 60
        self.unroll_limit = 40
        self.opaque_call = None             # hook(engine, opaque, method, args, kwargs)
        self.await_hook = None              # hook(engine, value) for awaiting non-coroutines
        self.used_functions = {}            # qualname -> ast hash
        self.file_hashes = {}
        self.dropped = set()
        self.current_func = []
        from . import models
        self.models = models
        self.builtins = models.make_builtins(self)
        models.CUR_ENGINE[0] = self

    # ------------------------------------------------------------------ repository loading
    def module(self, name):
        if name in self.modules:
            m = self.modules[name]
            if not m.loaded:
                pass
            return m
        rel = name.replace('.', '/')
        cand = [os.path.join(self.repo_root, rel + '.py'), os.path.join(self.repo_root, rel, '__init__.py')]
        for p in cand:
            if os.path.exists(p):
                src = open(p).read()
                node = ast.parse(src, p)
                m = Module(name, os.path.relpath(p, self.repo_root), node, src)
                self.modules[name] = m
                self.file_hashes[m.path] = hashlib.sha256(src.encode()).hexdigest()
                self._load_module(m)
                return m
        return None

    def _load_module(self, m):
        m.loaded = True
        m.globals['__name__'] = m.name
        env = Env(m)
        env.vars = m.globals
        saved = self.path
        if self.path is None:
            self.path = Path(self, [])
        self._loading = getattr(self, '_loading', 0) + 1
        try:
            self.exec_block(m.node.body, env)
        finally:
            self._loading -= 1
            self.path = saved
            reg = self.__dict__.setdefault('module_containers', {})
            for k, v in m.globals.items():
                if isinstance(v, (dict, list, set)):
                    reg[id(v)] = '%s.%s' % (m.name, k)

    def note_mutation(self, obj):
        """A module-level container (table, registry, cache) is being modified by code under contract, after import: what the
        functions compute then depends on earlier calls.  The contracts decide single calls and fixed short histories, and the
        engine shares module objects between the paths of a harness, so nothing can be concluded: undecided (never silently
        'held').  A violation found on the same run still stands."""
        if getattr(self, '_loading', 0) == 0:
            name = self.__dict__.get('module_containers', {}).get(id(obj))
            if name is not None:
                self.stale_notes.add('module-level state %s is modified at run time: results may depend on the history of earlier '
                                     'calls, which these contracts do not quantify over (undecided)' % name)

    def lookup(self, ref):
        """'rsocket/stream_control.py::StreamControl.allocate_stream' -> PyFunc / PyClass / value"""
        file, _, qual = ref.partition('::')
        modname = file[:-3].replace('/', '.') if file.endswith('.py') else file
        m = self.module(modname)
        if m is None:
            raise Unsupported('no such module: %s' % file)
        parts = qual.split('.')
        v = m.globals[parts[0]]
        for p in parts[1:]:
            if isinstance(v, PyClass):
                v, _ = v.lookup(p)
                if isinstance(v, Property):
                    pass
            else:
                v = self.getattr(v, p)
        return v

    def note_function(self, f):
        if f.qualname not in self.used_functions:
            self.used_functions[f.qualname] = hashlib.sha256(ast.dump(f.node).encode()).hexdigest()[:16]

    # ------------------------------------------------------------------ symbolic value constructors
    def fresh_int(self, name, lo=None, hi=None):
        v = z3.Int(self.path.fresh_name(name))
        if lo is not None:
            self.path.add(v >= lo)
        if hi is not None:
            self.path.add(v <= hi)
        if lo == 0 and isinstance(hi, int) and hi > 0 and (hi & (hi + 1)) == 0:
            from . import bitform as BF
            BF.declare_source(self.path, v, hi.bit_length())
        return SInt(v)

    def fresh_bool(self, name):
        return SBool(z3.Bool(self.path.fresh_name(name)))

    def fresh_real(self, name):
        return SReal(z3.Real(self.path.fresh_name(name)))

    def fresh_bytes(self, name, minlen=0, maxlen=None):
        nm = self.path.fresh_name(name)
        n = z3.Int(self.path.fresh_name(nm + '.len'))
        self.path.add(n >= minlen)
        if maxlen is not None:
            self.path.add(n <= maxlen)
            if minlen == 0 and maxlen > 0 and (maxlen & (maxlen + 1)) == 0:
                from . import bitform as BF
                BF.declare_source(self.path, n, maxlen.bit_length())
        f = z3.Function(nm + '.at', z3.IntSort(), z3.IntSort())
        path = self.path

        def at(i, f=f):
            if isinstance(i, int):
                i = z3.IntVal(i)
            t = f(i)
            self.path.axiom(z3.And(t >= 0, t <= 255))
            from . import bitform as BF
            BF.declare_source(self.path, t, 8)
            return t
        return SBytes(n, at)

    def fresh_str(self, name='str'):
        return SStr(z3.Int(self.path.fresh_name(name)), name)

    def input(self, name, value):
        self.path.inputs[name] = value
        return value

    def assume(self, cond):
        if isinstance(cond, SBool):
            cond = cond.e
        if isinstance(cond, bool):
            if not cond:
                raise PathEnd('assume False')
            return
        self.path.add(cond)
        if self.path.check() == z3.unsat:
            raise PathEnd('assumption infeasible')

    def truth(self, v):
        """Python truthiness of a value as bool/SBool."""
        if isinstance(v, bool):
            return v
        if isinstance(v, SBool):
            return v
        if v is None:
            return False
        if isinstance(v, int):
            return v != 0
        if isinstance(v, SInt):
            r = self.models.values_equal(self, v, 0)
            return (not r) if isinstance(r, bool) else mk_bool(z3.Not(r.e))
        if isinstance(v, SReal):
            return mk_bool(v.e != 0)
        if isinstance(v, float):
            return v != 0
        if isinstance(v, (bytes, bytearray, str, tuple, list, dict, set, frozenset)):
            return len(v) > 0
        if isinstance(v, SBytes):
            return mk_bool(v.len_term() > 0) if is_z3(v.n) else v.n > 0
        if isinstance(v, SByteArray):
            return self.truth(v.val)
        if isinstance(v, EnumMember):
            if v.cls.is_int_enum:
                return v.value != 0
            return True
        if isinstance(v, SObj):
            f, _ = v.cls.lookup('__bool__')
            if f is not None:
                return self.truth(self.call(BoundMethod(f, v), [], {}))
            f, _ = v.cls.lookup('__len__')
            if f is not None:
                return self.truth(self.call(BoundMethod(f, v), [], {}))
            if v.cls.name in self.models.TRUTH_MODELS:
                return self.models.TRUTH_MODELS[v.cls.name](self, v)
            if v.cls.builtin and v.cls.name not in self.models.ALWAYS_TRUTHY and not v.cls.issubclass(EXC['BaseException']):
                # a modelled external class whose truth value we have no model for: never guess
                raise Unsupported('truth value of a %s object is not modelled' % v.cls.name)
            return True
        if isinstance(v, SStr):
            raise Unsupported('truthiness of opaque str')
        if isinstance(v, SOpaque) and v.kind == 'unspecified-result':
            raise Unsupported('truth value of %s, whose result no contract specifies' % v.ident)
        from . import aio as _aio
        M = self.models
        if isinstance(v, _aio.QueueView):                 # `if self._queue:` on the deque of a queue
            ss = v.q.attrs['_sym']
            return mk_bool(ss['t'] > ss['h'])
        if isinstance(v, M.SymSeq):
            return mk_bool(v.hi > v.lo)
        if isinstance(v, M.SymList):
            return mk_bool(I(v.n) > 0)
        if isinstance(v, (PyFunc, BoundMethod, PyClass, Builtin, Module, SOpaque, GenObj, M.ExternModule, Extern, M.Partial,
                          M.OpaqueMethod, M.Coroutine)) or type(v).__name__ in ('Awaitable', 'Property', 'BlackHole', 'CtxManagerFromGen'):
            return True
        # anything else is a modelling object whose truth value was never thought about: never guess
        raise Unsupported('truth value of %r is not modelled' % (v,))

    def decide(self, v, site=''):
        t = self.truth(v)
        if isinstance(t, bool):
            return t
        return self.path.branch(t.e, site)

    # ------------------------------------------------------------------ obligations
    def prove(self, name, goal, inputs_note=None):
        """Emit and discharge one obligation on the current path; the goal is assumed afterwards."""
        if isinstance(goal, SBool):
            goal = goal.e
        p = self.path
        t0 = time.time()
        sig = ';'.join(p.sig)
        if isinstance(goal, bool):
            if goal:
                self.results.append(ObligationResult(name, 'proved', sig, 0.0, backend='trivial'))
                return True
            # literally false on a feasible path: need sat of pc
            goal = z3.BoolVal(False)
        s = p.solver
        s.push()
        quant = p.has_quant() or qinst._contains_quant(goal)
        s.set('timeout', min(self.prove_timeout_ms, self.quant_first_try_ms) if quant else self.prove_timeout_ms)
        s.add(z3.Not(goal))
        r = s.check()
        backend = 'z3'
        reason = ''
        zmodel = s.model() if r == z3.sat else None
        if r == z3.unknown and quant:
            st, m, info = qinst.decide(list(p.pc) + [z3.Not(goal)])
            self.stats['qinst_calls'] = self.stats.get('qinst_calls', 0) + 1
            if st == 'sat':
                r, zmodel, backend, reason = z3.sat, m, 'z3+inst', info
            elif st == 'unsat':
                r, backend, reason = z3.unsat, 'z3+inst', info
            else:
                s.set('timeout', self.prove_timeout_ms)
                r = s.check()
                zmodel = s.model() if r == z3.sat else None
                reason = 'qinst: ' + info
        dt = time.time() - t0
        self.stats['solver_calls'] += 1
        self.stats['solver_time'] += dt
        model = None
        smt2 = None
        if r == z3.sat:
            model = self.extract_model(zmodel)
            status = 'refuted'
        elif r == z3.unsat:
            status = 'proved'
        else:
            status = 'unknown'
            smt2 = s.to_smt2()
            reason = (s.reason_unknown() + ' ' + reason).strip()
        s.pop()
        s.set('timeout', self.branch_timeout_ms)
        self.results.append(ObligationResult(name, status, sig, dt, model=model, reason=reason, smt2=smt2, backend=backend))
        # Only a PROVED goal may be used afterwards.  Assuming a refuted goal would silently restrict - possibly empty - the
        # rest of the path, and every later obligation on it would be discharged vacuously (this is how an open known
        # finding once hid a surviving mutant: DESIGN 8.6).
        if status == 'proved' and not (qinst._contains_quant(goal) and not (z3.is_quantifier(goal) and goal.is_forall())):
            # (a proved goal with a nested quantifier is not added: assuming less is sound, and such a formula in the path
            # condition defeats the instantiation-based decision of later quantified obligations)
            p.add(goal)
        return status == 'proved'

    def cover(self, name):
        """Record that this program point is reachable (vacuity guard)."""
        r = self.path.check()
        self.path.covers.append((name, str(r)))
        self.results.append(ObligationResult('cover:' + name, 'covered' if r == z3.sat else ('unknown' if r != z3.unsat else 'unreachable'),
                                             ';'.join(self.path.sig), 0.0))

    def extract_model(self, m):
        out = {}
        for name, v in self.path.inputs.items():
            try:
                out[name] = self.concretize(v, m)
            except Exception as ex:      # pragma: no cover
                out[name] = '<unextractable: %s>' % ex
        return out

    def concretize(self, v, m, cap=2048):
        if v is None or isinstance(v, (bool, int, str, float)):
            return v
        if isinstance(v, bytes):
            return {'bytes': v.hex()}
        if isinstance(v, SInt):
            return m.eval(v.e, model_completion=True).as_long()
        if isinstance(v, SBool):
            return z3.is_true(m.eval(v.e, model_completion=True))
        if isinstance(v, SReal):
            r = m.eval(v.e, model_completion=True)
            return {'real': str(r)}
        if isinstance(v, SByteArray):
            return self.concretize(v.val, m, cap)
        if isinstance(v, SBytes):
            n = v.n if isinstance(v.n, int) else m.eval(v.n, model_completion=True).as_long()
            trunc = n > cap
            k = min(n, cap)
            bs = bytearray()
            for i in range(k):
                x = m.eval(v.at(z3.IntVal(i)), model_completion=True).as_long()
                bs.append(x & 0xff)
            d = {'bytes': bytes(bs).hex()}
            if trunc:
                d['true_len'] = n
            return d
        if isinstance(v, EnumMember):
            return {'enum': repr(v), 'value': v.value if isinstance(v.value, int) else None}
        if isinstance(v, (list, tuple)):
            return [self.concretize(x, m, cap) for x in v]
        if isinstance(v, dict):
            return {str(k): self.concretize(x, m, cap) for k, x in v.items()}
        if isinstance(v, SMap):
            ent = {}
            for k in list(range(0, 130)) + [0x7FFFFFFF - i for i in range(4)]:
                if z3.is_true(m.eval(z3.Select(v.has, z3.IntVal(k)), model_completion=True)):
                    ent[str(k)] = True
            return {'entries': ent, 'note': 'keys probed in 0..129 and the top of the 31-bit range'}
        if isinstance(v, SObj):
            return {'obj': v.cls.name, 'attrs': {k: self.concretize(x, m, cap) for k, x in v.attrs.items()
                                                   if not isinstance(x, (SObj, SOpaque, PyFunc, BoundMethod))}}
        if is_z3(v):
            r = m.eval(v, model_completion=True)
            if z3.is_int_value(r):
                return r.as_long()
            if z3.is_true(r) or z3.is_false(r):
                return z3.is_true(r)
            return str(r)
        return repr(v)

    def _concretize_array(self, a):
        entries = {}
        default = None
        cur = a
        for _ in range(10000):
            if z3.is_store(cur):
                k, val = cur.arg(1), cur.arg(2)
                if z3.is_int_value(k) and str(k.as_long()) not in entries:
                    entries[str(k.as_long())] = z3.is_true(val)
                cur = cur.arg(0)
            elif z3.is_const_array(cur):
                default = z3.is_true(cur.arg(0))
                break
            else:
                return {'array': str(a)[:400]}
        return {'entries': entries, 'default': default}

    # ------------------------------------------------------------------ exploration driver
    def explore(self, harness, max_paths=20000):
        """Run harness(engine) once per path.  Returns list of ObligationResult."""
        self.results = []
        self.worklist = [[]]
        npaths = 0
        errors = []
        self.deadline = time.time() + self.harness_budget_s
        while self.worklist:
            script = self.worklist.pop()
            npaths += 1
            if npaths > max_paths:
                errors.append('path limit %d exceeded' % max_paths)
                break
            if time.time() > self.deadline:
                errors.append('time budget of %ds for this harness exceeded after %d paths (undecided)' % (self.harness_budget_s, npaths - 1))
                break
            self.path = Path(self, script)
            self.yield_handlers = []
            self.call_depth = 0
            self.current_func = []
            n_before = len(self.results)
            try:
                try:
                    harness(self)
                except (IndexError, AttributeError, TypeError, KeyError, AssertionError, ValueError):
                    # contract code tripping over a post-state it has just reported as wrong (e.g. sent[0] after
                    # "exactly one frame sent" was refuted): the refuted obligation stands, the follow-up error is noise
                    if not any(r.status == 'refuted' for r in self.results[n_before:]):
                        raise
            except PathEnd:
                pass
            except Unsupported as u:
                errors.append('unsupported: %s [path %s]' % (u, ';'.join(self.path.sig)))
            except KeyError as ke:
                # a contract reading an attribute / local the code no longer has: stale contract, not a violation
                import traceback as _tb
                errors.append('contract out of date (KeyError %s): %s [path %s]'
                              % (ke, _tb.format_exc().strip().splitlines()[-3].strip()[:200], ';'.join(self.path.sig)))
            except (AttributeError, TypeError, IndexError, ValueError) as he:
                # a host error at most two calls away from contract code (e.g. E.run_generator(None), r.attrs on an int): the
                # contract cannot even read what the code returned - stale contract or wrong result type: undecided, not a
                # checker crash.  Deeper host errors are engine defects and stay crashes (exit 3).
                import traceback as _tb
                frames = _tb.extract_tb(he.__traceback__)
                idx = [i for i, fr in enumerate(frames) if os.sep + 'contracts' + os.sep in fr.filename]
                if not idx or len(frames) - 1 - idx[-1] > 2:
                    raise
                fr = frames[idx[-1]]
                errors.append('contract out of date (%s: %s): %s [path %s]' % (type(he).__name__, he, (fr.line or '').strip()[:200],
                                                                             ';'.join(self.path.sig)))
            except PyExc as e:
                # the code under contract raised where its contract expects a normal return: a failed obligation
                model = None
                try:
                    if self.path.solver.check() == z3.sat:
                        model = self.extract_model(self.path.solver.model())
                except Exception:
                    pass
                self.results.append(ObligationResult('returns_normally[unexpected %s]' % e.value.cls.name, 'refuted',
                                                     ';'.join(self.path.sig), 0.0, model=model,
                                                     reason='exception %r escaped the harness' % (e.value,)))
            except (ReturnSig, BreakSig, ContinueSig) as e:
                errors.append('control signal escaped: %r' % e)
            finally:
                self._kill_generators()
        self.stats['paths'] += npaths
        self.path = None
        errors.extend(sorted(self.stale_notes))
        return self.results, errors

    def _kill_generators(self):
        pass

    # ------------------------------------------------------------------ exceptions
    def make_exc(self, cls, *args):
        if isinstance(cls, str):
            cls = EXC[cls]
        o = SObj(cls, {'args': tuple(args)})
        return o

    def throw(self, cls, *args):
        raise PyExc(self.make_exc(cls, *args))

    def exc_matches(self, exc_value, handler_type):
        """isinstance(exc, handler_type) for interpreted exceptions."""
        if isinstance(handler_type, tuple):
            return any(self.exc_matches(exc_value, t) for t in handler_type)
        if isinstance(handler_type, PyClass):
            return self.instance_of_class(exc_value, handler_type)
        raise Unsupported('except clause with %r' % (handler_type,))

    def instance_of_class(self, obj, cls):
        """isinstance(obj, cls) for SObj.  An exception raised by *application code* (weakest contract: "may raise any
        Exception") has an unknown class: it may well be one of the library's own exception classes, which `except` clauses
        and isinstance tests of the library treat differently.  The class is therefore decided lazily, by branching, the
        first time the library asks - consistently with the class hierarchy."""
        if obj.cls.issubclass(cls):
            return True
        if 'from_opaque' in obj.attrs and cls.issubclass(obj.cls) and cls is not obj.cls:
            if any(cls.issubclass(n) for n in obj.attrs.get('not_instance_of', ())):
                return False
            if self.path.choice(2, 'application-exception-is-a-%s' % cls.name) == 1:
                self.models.narrow_opaque_exception(self, obj, cls)
                return True
            obj.attrs.setdefault('not_instance_of', []).append(cls)
        return False

    # ------------------------------------------------------------------ attribute access
    def getattr(self, obj, name):
        M = self.models
        if isinstance(obj, SObj):
            if name in obj.attrs:
                return obj.attrs[name]
            if name == '__class__':
                return obj.cls
            v, owner = obj.cls.lookup(name)
            if owner is None:
                h = M.OBJ_ATTR_MODELS.get(obj.cls.name)
                if h is not None:
                    r = h(self, obj, name)
                    if r is not M.NOATTR:
                        return r
                if obj.cls.issubclass(EXC['BaseException']) and name == '__cause__':
                    return None
                if getattr(obj, 'is_shape', False) and obj.cls.builtin:
                    raise Unsupported("contract out of date: the code uses .%s on an object the contract's pre-state models as %s "
                                      "(representation changed?)" % (name, obj.cls.name))
                if getattr(obj, 'is_shape', False) and name in self.init_assigned(obj.cls):
                    # The contract's pre-state shape does not know this attribute (added to the class after the contract was
                    # written).  Continue with the value the real initialiser gives it, so that a violation reachable from
                    # there is still found - but the harness can no longer count as proved: recorded as "out of date".
                    msg = ("contract out of date: the pre-state shape given for %s lacks attribute %r, which its initialiser "
                           "always sets" % (obj.cls.name, name))
                    ent = getattr(obj.cls, '_init_exprs', {}).get(name)
                    if ent is None:
                        raise Unsupported(msg)
                    f, node, me = ent
                    try:
                        env = Env(f.module, f, f.env)
                        env.vars = {me: obj}
                        val = self.eval(node, env)
                    except (PyExc, KeyError):
                        raise Unsupported(msg)
                    if self.lazy_mode == 'havoc' and isinstance(val, (bool, int)) and not isinstance(val, EnumMember):
                        # a new scalar attribute: verify for EVERY value it could hold (sound over-approximation); only if an
                        # obligation then fails is the harness re-run with the initial value (check.run_harness)
                        val = self.fresh_bool('new.' + name) if isinstance(val, bool) else self.fresh_int('new.' + name)
                        self.lazy_attrs.add('%s.%s' % (obj.cls.name, name))
                    else:
                        self.stale_notes.add(msg + ' (checked with its initial value only)')
                    obj.attrs[name] = val
                    return val
                self.throw('AttributeError', "'%s' object has no attribute '%s'" % (obj.cls.name, name))
            return self._bind(v, obj, owner)
        if isinstance(obj, SuperProxy):
            v, owner = obj.obj.cls.lookup(name, after=obj.cls)
            if v is None:
                if name == '__init__':
                    return Builtin('object.__init__', lambda *a, **k: None)
                self.throw('AttributeError', "super object has no attribute '%s'" % name)
            return self._bind(v, obj.obj, owner)
        if isinstance(obj, PyClass):
            if name == '__name__':
                return obj.name
            if name in obj.members:
                return obj.members[name]
            v, owner = obj.lookup(name)
            if owner is None:
                h = M.CLASS_ATTR_MODELS.get(obj.name)
                if h is not None:
                    r = h(self, obj, name)
                    if r is not M.NOATTR:
                        return r
                self.throw('AttributeError', "type object '%s' has no attribute '%s'" % (obj.name, name))
            if isinstance(v, PyFunc):
                if v.is_classmethod:
                    return BoundMethod(v, obj)
                return v
            return v
        if isinstance(obj, Module):
            if name in obj.globals:
                return obj.globals[name]
            sub = self.module(obj.name + '.' + name)
            if sub is not None:
                return sub
            self.throw('AttributeError', "module has no attribute '%s'" % name)
        if isinstance(obj, EnumMember):
            if name == 'value':
                return obj.value
            if name == 'name':
                return obj.name
            v, owner = obj.cls.lookup(name)
            if v is not None:
                return self._bind(v, obj, owner)
            if obj.cls.is_int_enum:
                return M.int_attr(self, obj.value, name)
            self.throw('AttributeError', name)
        if isinstance(obj, SOpaque):
            if name in obj.attrs:
                return obj.attrs[name]
            return M.opaque_attr(self, obj, name)
        if isinstance(obj, M.ExternModule):
            return obj.getattr(self, name)
        if isinstance(obj, Extern):
            return Extern(obj.name + '.' + name)
        if isinstance(obj, GenObj):
            return M.gen_attr(self, obj, name)
        r = M.value_attr(self, obj, name)
        if r is not M.NOATTR:
            return r
        # distinguish "Python raises AttributeError here" from "this method of a built-in type has no model": only the first is
        # behaviour of the code; the second is a gap of the engine and must never look like an exception raised by the code
        pytype = ((bytes if isinstance(obj, (bytes, SBytes)) else None) or (bytearray if isinstance(obj, (bytearray, SByteArray)) else None)
                  or (bool if isinstance(obj, (bool, SBool)) else None) or (int if isinstance(obj, (int, SInt)) else None)
                  or (str if isinstance(obj, (str, SStr)) else None) or (float if isinstance(obj, (float, SReal)) else None)
                  or (type(obj) if isinstance(obj, (list, dict, tuple, set, frozenset)) else None)
                  or (dict if isinstance(obj, SMap) else None))
        if pytype is not None and hasattr(pytype, name):
            raise Unsupported('%s.%s is not modelled' % (pytype.__name__, name))
        self.throw('AttributeError', "'%s' object has no attribute '%s'" % (type(obj).__name__, name))

    def init_assigned(self, cls):
        """Attribute names assigned unconditionally at the top level of some __init__ in the MRO (self.X = ...)."""
        cache = getattr(cls, '_init_assigned', None)
        if cache is not None:
            return cache
        out = set()
        seen = set()

        def scan(f, depth):
            if not (isinstance(f, PyFunc) and f.node.args.args) or f.qualname in seen or depth > 3:
                return
            seen.add(f.qualname)
            me = f.node.args.args[0].arg
            for st in f.node.body:
                tgts = st.targets if isinstance(st, ast.Assign) else ([st.target] if isinstance(st, ast.AnnAssign) and st.value is not None else [])
                for t in tgts:
                    if isinstance(t, ast.Attribute) and isinstance(t.value, ast.Name) and t.value.id == me:
                        out.add(t.attr)
                        if getattr(st, 'value', None) is not None:
                            cls.__dict__.setdefault('_init_exprs', {}).setdefault(t.attr, (f, st.value, me))
                # initialisers called unconditionally from __init__ (self._reset_internals() ...)
                if isinstance(st, ast.Expr) and isinstance(st.value, ast.Call) and isinstance(st.value.func, ast.Attribute) \
                        and isinstance(st.value.func.value, ast.Name) and st.value.func.value.id == me:
                    g, _ = cls.lookup(st.value.func.attr)
                    scan(g, depth + 1)
        for c in cls.mro:
            scan(c.dict.get('__init__'), 0)
        # (re-)initialisers every endpoint runs before it handles anything (RSocketClient runs it from connect())
        for nm in ('_reset_internals', '_setup_internals'):
            g, _ = cls.lookup(nm)
            scan(g, 1)
        cls._init_assigned = out
        return out

    def all_assigned(self, cls):
        """Attribute names assigned on `self` anywhere in the methods of the class (and its bases), plus class-level names."""
        cache = getattr(cls, '_all_assigned', None)
        if cache is not None:
            return cache
        out = set()
        for c in cls.mro:
            for nm, f in c.dict.items():
                out.add(nm)
                fn = f.fget if isinstance(f, Property) else f
                if isinstance(fn, PyFunc) and not isinstance(fn.node, ast.Lambda) and fn.node.args.args:
                    me = fn.node.args.args[0].arg
                    for n in ast.walk(fn.node):
                        if isinstance(n, ast.Attribute) and isinstance(n.ctx, ast.Store) and isinstance(n.value, ast.Name) and n.value.id == me:
                            out.add(n.attr)
            slots = c.dict.get('__slots__')
            if isinstance(slots, (tuple, list)):
                out.update(x for x in slots if isinstance(x, str))
            elif isinstance(slots, str):
                out.add(slots)
        cls._all_assigned = out
        return out

    def _bind(self, v, obj, owner):
        if isinstance(v, PyFunc):
            if v.is_static:
                return v
            if v.is_classmethod:
                return BoundMethod(v, obj.cls if isinstance(obj, SObj) else obj)
            return BoundMethod(v, obj)
        if isinstance(v, Property):
            return self.call(v.fget, [obj], {})
        if isinstance(v, Builtin) and getattr(v, 'is_method', False):
            return BoundMethod(v, obj)
        return v

    def hasattr(self, obj, name):
        try:
            self.getattr(obj, name)
            return True
        except PyExc as e:
            if e.value.cls.issubclass(EXC['AttributeError']):
                return False
            raise

    def setattr(self, obj, name, value):
        if isinstance(obj, SObj):
            v, owner = obj.cls.lookup(name)
            if isinstance(v, Property):
                if v.fset is None:
                    self.throw('AttributeError', "can't set attribute '%s'" % name)
                self.call(v.fset, [obj, value], {})
                return
            h = self.models.OBJ_SETATTR_MODELS.get(obj.cls.name)
            if h is not None and h(self, obj, name, value):
                return
            obj.attrs[name] = value
            return
        if isinstance(obj, SOpaque):
            obj.attrs[name] = value
            return
        if isinstance(obj, PyClass):
            obj.dict[name] = value
            return
        if isinstance(obj, Module):
            obj.globals[name] = value
            return
        if obj is None or isinstance(obj, (int, bool, str, bytes, SInt, SBool, SBytes, tuple)):
            self.throw('AttributeError', "'%s' object has no attribute '%s'" % (type(obj).__name__, name))
        raise Unsupported('setattr on %r' % (obj,))

    # ------------------------------------------------------------------ calls
    def call(self, f, args, kwargs=None):
        kwargs = kwargs or {}
        if f is None or isinstance(f, (bool, int, str, bytes, SInt, SBytes, SBool)):
            self.throw('TypeError', "'%s' object is not callable" % type(f).__name__)
        if isinstance(f, BoundMethod):
            return self.call(f.func, [f.self_obj] + list(args), kwargs)
        if isinstance(f, Builtin):
            return f.impl(*args, **kwargs)
        if isinstance(f, PyFunc):
            return self.call_pyfunc(f, args, kwargs)
        if isinstance(f, PyClass):
            return self.instantiate(f, args, kwargs)
        if isinstance(f, SOpaque):
            if self.opaque_call is None:
                raise Unsupported('call of opaque %r without hook' % f)
            return self.opaque_call(self, f, '__call__', args, kwargs)
        if isinstance(f, self.models.OpaqueMethod):
            if self.opaque_call is None:
                raise Unsupported('call of opaque method %r without hook' % f)
            return self.opaque_call(self, f.obj, f.name, args, kwargs)
        if isinstance(f, SObj):
            c, _ = f.cls.lookup('__call__')
            if c is not None:
                return self.call(BoundMethod(c, f), args, kwargs)
            if not f.cls.builtin or f.cls.issubclass(EXC['BaseException']):
                self.throw('TypeError', "'%s' object is not callable" % f.cls.name)
        if isinstance(f, self.models.Partial):
            return self.call(f.f, list(f.args) + list(args), dict(f.kwargs, **kwargs))
        if isinstance(f, Extern):
            raise Unsupported('call of unmodelled external %s' % f.name)
        if callable(f) and getattr(f, '_pyvc_host', False):
            return f(*args, **kwargs)
        raise Unsupported('call of %r' % (f,))

    def instantiate(self, cls, args, kwargs):
        M = self.models
        if cls.is_enum:
            return M.enum_call(self, cls, args)
        ctor = M.CLASS_CTOR_MODELS.get(cls.name) if cls.builtin or cls.name in M.FORCE_CTOR else None
        if ctor is not None:
            return ctor(self, cls, args, kwargs)
        obj = SObj(cls)
        if cls.issubclass(EXC['BaseException']):
            obj.attrs['args'] = tuple(args)
        init, owner = cls.lookup('__init__')
        if init is None and getattr(cls, 'dataclass_fields', None) is not None:
            names = [f[0] for f in cls.dataclass_fields]
            vals = dict(zip(names, args))
            vals.update(kwargs)
            for n, has_default in cls.dataclass_fields:
                if n in vals:
                    obj.attrs[n] = vals[n]
                elif not has_default:
                    self.throw('TypeError', "__init__() missing required argument '%s'" % n)
            return obj
        if init is not None:
            self.call(BoundMethod(init, obj), args, kwargs)
        else:
            for b in cls.mro:
                h = M.BASE_INIT_MODELS.get(b.name)
                if h is not None:
                    h(self, obj, args, kwargs)
                    break
        if not cls.builtin and cls.module is not None and not isinstance(obj.attrs, SealedAttrs):
            obj.attrs = SealedAttrs(obj.attrs, self, cls)
        return obj

    def bind_args(self, f, args, kwargs):
        a = f.node.args
        params = [p.arg for p in a.posonlyargs + a.args]
        vars = {}
        args = list(args)
        n = len(params)
        for i, p in enumerate(params):
            if i < len(args):
                vars[p] = args[i]
        extra = args[n:]
        if a.vararg is not None:
            vars[a.vararg.arg] = tuple(extra)
        elif extra:
            self.throw('TypeError', '%s() takes %d positional arguments but %d were given' % (f.name, n, len(args)))
        kw_extra = {}
        kwonly = [p.arg for p in a.kwonlyargs]
        for k, v in kwargs.items():
            if k in params or k in kwonly:
                if k in vars:
                    self.throw('TypeError', "%s() got multiple values for argument '%s'" % (f.name, k))
                vars[k] = v
            else:
                kw_extra[k] = v
        if a.kwarg is not None:
            vars[a.kwarg.arg] = kw_extra
        elif kw_extra:
            self.throw('TypeError', "%s() got an unexpected keyword argument '%s'" % (f.name, list(kw_extra)[0]))
        nd = len(f.defaults)
        for i, p in enumerate(params):
            if p not in vars:
                j = i - (n - nd)
                if j >= 0:
                    vars[p] = f.defaults[j]
                else:
                    self.throw('TypeError', "%s() missing required argument '%s'" % (f.name, p))
        for p in kwonly:
            if p not in vars:
                if p in f.kw_defaults:
                    vars[p] = f.kw_defaults[p]
                else:
                    self.throw('TypeError', "%s() missing keyword argument '%s'" % (f.name, p))
        return vars

    def call_pyfunc(self, f, args, kwargs, nostub=False):
        if f.unknown_decorator:
            raise Unsupported('function %s has unmodelled decorator %s' % (f.qualname, f.unknown_decorator))
        stub = self.stubs.get(f.qualname) if not nostub else None
        if stub is not None:
            return stub(self, f, args, kwargs)
        env = Env(f.module, f, f.env)
        env.vars = self.bind_args(f, args, kwargs)
        if f.is_gen:
            g = GenObj(f, env)
            if f.is_contextmanager:
                return self.models.CtxManagerFromGen(g)
            return g
        if f.is_async:
            return self.models.Coroutine(f, env)
        return self.run_body(f, env)

    def run_body(self, f, env):
        self.note_function(f)
        self.call_depth += 1
        if self.call_depth > self.max_depth:
            self.call_depth -= 1
            self.throw('RecursionError', 'maximum recursion depth exceeded (%s)' % f.qualname)
        self.current_func.append(f)
        try:
            if isinstance(f.node, ast.Lambda):
                return self.eval(f.node.body, env)
            try:
                self.exec_block(f.node.body, env)
            except ReturnSig as r:
                return r.value
            return None
        finally:
            self.current_func.pop()
            self.call_depth -= 1

    def run_generator(self, g, on_yield):
        """Run a generator inline; on_yield(value) is called for every yield (its result is the sent value)."""
        if g.started:
            raise Unsupported('generator already started')
        g.started = True
        self.yield_handlers.append(on_yield)
        try:
            return self.run_body(g.func, g.env)
        finally:
            self.yield_handlers.pop()

    def await_value(self, v):
        M = self.models
        if isinstance(v, M.Coroutine):
            if v.started:
                self.throw('RuntimeError', 'cannot reuse already awaited coroutine')
            v.started = True
            return self.run_body(v.func, v.env)
        from . import aio
        if isinstance(v, SObj) and v.cls.name in ('Future', 'Task'):
            return aio.await_future(self, v)
        if isinstance(v, aio.Awaitable):
            if v.kind == 'ready':
                return v.result
            if v.kind == 'event.wait' and v.obj.attrs.get('flag') is True:
                return True                              # Event.wait() on a set event does not suspend
            hook = getattr(self, 'suspend_hook', None)
            if hook is None:
                raise Unsupported('await %s without suspend hook' % v.kind)
            r = hook(self, (v.kind, v.obj))
            if v.kind == 'event.wait':
                if v.obj.attrs.get('flag') is not True:
                    # the environment of this history (the hook) ran and nobody set the event: the coroutine is parked
                    # here for ever.  As for futures (aio.await_future): a failed obligation unless the contract allows it.
                    if not getattr(self, 'allow_hang', False):
                        self.results.append(ObligationResult('terminates[waits for an event that is never set on this history]',
                                                             'refuted', ';'.join(self.path.sig), 0.0,
                                                             reason='Event.wait(): the event stays clear for ever on this path'))
                    raise PathEnd('waiting for an event that is never set')
                return True
            return r
        if self.await_hook is not None:
            return self.await_hook(self, v)
        raise Unsupported('await on %r' % (v,))

    # ------------------------------------------------------------------ statements
    def exec_block(self, stmts, env):
        for s in stmts:
            self.exec(s, env)

    def exec(self, node, env):
        m = getattr(self, 's_' + node.__class__.__name__, None)
        if m is None:
            raise Unsupported('statement %s' % node.__class__.__name__)
        return m(node, env)

    def s_Pass(self, node, env):
        pass

    def s_Expr(self, node, env):
        if isinstance(node.value, ast.Constant):
            return
        self.eval(node.value, env)

    def s_Global(self, node, env):
        for n in node.names:
            env.vars.pop(n, None)
        env.globals_decl = getattr(env, 'globals_decl', set()) | set(node.names)

    def s_Nonlocal(self, node, env):
        env.nonlocal_decl = getattr(env, 'nonlocal_decl', set()) | set(node.names)

    def s_Assert(self, node, env):
        if not self.decide(self.eval(node.test, env), 'assert'):
            self.throw('AssertionError')

    def s_Import(self, node, env):
        for a in node.names:
            top = a.name.split('.')[0]
            if a.asname:
                env.vars[a.asname] = self.import_module(a.name)
            else:
                env.vars[top] = self.import_module(top)
                if '.' in a.name:
                    self.import_module(a.name)

    def s_ImportFrom(self, node, env):
        modname = node.module or ''
        if node.level:
            base = env.module.name.split('.')
            if not env.module.path.endswith('__init__.py'):
                base = base[:-1]
            base = base[:len(base) - (node.level - 1)] if node.level > 1 else base
            modname = '.'.join(base + ([modname] if modname else []))
        m = self.import_module(modname)
        for a in node.names:
            if a.name == '*':
                if isinstance(m, Module):
                    for k, v in m.globals.items():
                        if not k.startswith('_'):
                            env.vars[k] = v
                continue
            try:
                v = self.getattr(m, a.name)
            except PyExc:
                if isinstance(m, Module):
                    sub = self.import_module(modname + '.' + a.name)
                    v = sub
                else:
                    raise
            env.vars[a.asname or a.name] = v

    def import_module(self, name):
        M = self.models
        ext = M.extern_module(self, name)
        if ext is not None:
            return ext
        m = self.module(name)
        if m is not None:
            return m
        return Extern(name)

    def s_FunctionDef(self, node, env):
        f = self.make_func(node, env)
        env.vars[node.name] = f

    s_AsyncFunctionDef = s_FunctionDef

    def make_func(self, node, env, cls=None, class_qual=None):
        in_func = env.func is not None
        prefix = ''
        if class_qual:
            prefix = class_qual + '.'
        elif in_func:
            prefix = env.func.qualname.split('::')[1] + '.<locals>.'
        qual = '%s::%s%s' % (env.module.path, prefix, node.name)
        f = PyFunc(node, env.module, env if in_func else None, qual, cls)
        a = node.args
        f.defaults = [self.eval(d, env) for d in a.defaults]
        f.kw_defaults = {p.arg: self.eval(d, env) for p, d in zip(a.kwonlyargs, a.kw_defaults) if d is not None}
        result = f
        for d in reversed(node.decorator_list):
            result = self.apply_decorator(d, result, env)
        return result

    def apply_decorator(self, d, f, env):
        name = ast.unparse(d)
        base = name.split('(')[0]
        if base in ('property',):
            return Property(f)
        if base.endswith('.setter'):
            pname = base.split('.')[0]
            old = env.vars.get(pname)
            if isinstance(old, Property):
                return Property(old.fget, f)
            raise Unsupported('setter for unknown property %s' % pname)
        if base in ('staticmethod',):
            f.is_static = True
            return f
        if base in ('classmethod',):
            f.is_classmethod = True
            return f
        if base in ('abc.abstractmethod', 'abstractmethod', 'unique', 'functools.wraps', 'wraps', 'overload'):
            return f
        if base in ('contextmanager', 'asynccontextmanager', 'contextlib.contextmanager', 'contextlib.asynccontextmanager'):
            f.is_contextmanager = True
            return f
        dv = self.eval(d, env)
        if isinstance(dv, (PyFunc, BoundMethod)):
            return self.call(dv, [f], {})
        if isinstance(dv, Builtin) and dv.name in ('lru_cache', 'cache', 'lru_cache()'):
            return self.call(dv, [f], {})
        if isinstance(dv, self.models.CtxManagerFromGen) and isinstance(f, PyFunc):
            # contextlib.ContextDecorator: `@cm()` on a function = a fresh context manager around every *call* of it.
            # (Around the call only: for an `async def` the call merely creates the coroutine - awaiting it happens outside.)
            def wrapped(*a, **k):
                cm = self.eval(d, env)
                box = []

                def on_yield(v):
                    box.append(self.call(f, list(a), k))
                    return None
                self.run_generator(cm.gen, on_yield)
                return box[0] if box else None
            w = Builtin('contextdecorated:' + f.qualname, wrapped)
            w.is_method = f.cls is not None or True
            w.qualname = f.qualname
            return w
        if isinstance(f, PyFunc):
            f.unknown_decorator = name
        return f

    def s_ClassDef(self, node, env):
        bases = []
        for b in node.bases:
            bv = self.eval(b, env)
            if isinstance(bv, PyClass):
                bases.append(bv)
            elif isinstance(bv, (Extern, self.models.ExternModule)) or bv is None:
                c = self.models.extern_base_class(self, bv, ast.unparse(b))
                if c is not None:
                    bases.append(c)
            else:
                raise Unsupported('base class %r' % (bv,))
        if not bases:
            bases = [OBJECT]
        cls = PyClass(node.name, bases, env.module)
        cls.node = node
        outer = getattr(env, 'class_qual', None)
        if outer is None and env.func is not None:
            outer = env.func.qualname.split('::')[1] + '.<locals>'
        cls.qualname = (outer + '.' if outer else '') + node.name
        cenv = Env(env.module, env.func, env)
        cenv.class_qual = cls.qualname
        cenv.is_class_body = True
        for s in node.body:
            if isinstance(s, (ast.FunctionDef, ast.AsyncFunctionDef)):
                fe = Env(env.module, env.func, env)  # functions do not see class scope
                fe.vars = {}
                fe.parent = env if env.func is not None else None
                # allow decorators to see class scope (property setters)
                f = self.make_func_in_class(s, env, cenv, cls)
                cenv.vars[s.name] = f
            else:
                self.exec(s, cenv)
        for k, v in cenv.vars.items():
            cls.dict[k] = v
        if cls.is_enum:
            self.models.finish_enum(self, cls)
        if any('dataclass' in ast.unparse(d) for d in node.decorator_list):
            fields = []
            for b in reversed(cls.mro):
                fields += [f for f in getattr(b, 'dataclass_fields', []) if f not in fields] if b is not cls else []
            for st in node.body:
                if isinstance(st, ast.AnnAssign) and isinstance(st.target, ast.Name):
                    fields = [f for f in fields if f[0] != st.target.id] + [(st.target.id, st.value is not None)]
            cls.dataclass_fields = fields
        env.vars[node.name] = cls

    def make_func_in_class(self, node, outer_env, class_env, cls):
        in_func = outer_env.func is not None
        qual = '%s::%s.%s' % (outer_env.module.path, cls.qualname, node.name)
        f = PyFunc(node, outer_env.module, outer_env if in_func else None, qual, cls)
        a = node.args
        f.defaults = [self.eval(d, class_env) for d in a.defaults]
        f.kw_defaults = {p.arg: self.eval(d, class_env) for p, d in zip(a.kwonlyargs, a.kw_defaults) if d is not None}
        result = f
        for d in reversed(node.decorator_list):
            result = self.apply_decorator(d, result, class_env)
        return result

    def s_Return(self, node, env):
        raise ReturnSig(self.eval(node.value, env) if node.value is not None else None)

    def s_Raise(self, node, env):
        if node.exc is None:
            cur = getattr(env, 'handling', None)
            e = env
            while cur is None and e is not None:
                cur = getattr(e, 'handling', None)
                e = e.parent
            if cur is None:
                self.throw('RuntimeError', 'No active exception to reraise')
            raise PyExc(cur)
        v = self.eval(node.exc, env)
        if isinstance(v, PyClass):
            v = self.instantiate(v, [], {})
        if not isinstance(v, SObj):
            if isinstance(v, SOpaque):
                raise PyExc(self.models.opaque_exception(self, v))
            raise Unsupported('raise %r' % (v,))
        if node.cause is not None:
            v.attrs['__cause__'] = self.eval(node.cause, env)
        raise PyExc(v)

    def s_If(self, node, env):
        if self.decide(self.eval(node.test, env), self.site(node)):
            self.exec_block(node.body, env)
        else:
            self.exec_block(node.orelse, env)

    def site(self, node):
        f = self.current_func[-1].name if self.current_func else 'mod'
        return '%s@%d' % (f, getattr(node, 'lineno', 0))

    def s_Assign(self, node, env):
        v = self.eval(node.value, env)
        for t in node.targets:
            self.assign(t, v, env)

    def s_AnnAssign(self, node, env):
        if node.value is not None:
            self.assign(node.target, self.eval(node.value, env), env)

    def s_AugAssign(self, node, env):
        if isinstance(node.target, ast.Name):
            cur = self.load_name(node.target.id, env)
            new = self.models.binop(self, node.op, cur, self.eval(node.value, env), inplace=True)
            self.assign(node.target, new, env)
        elif isinstance(node.target, ast.Attribute):
            obj = self.eval(node.target.value, env)
            cur = self.getattr(obj, node.target.attr)
            new = self.models.binop(self, node.op, cur, self.eval(node.value, env), inplace=True)
            self.setattr(obj, node.target.attr, new)
        elif isinstance(node.target, ast.Subscript):
            obj = self.eval(node.target.value, env)
            idx = self.eval_index(node.target.slice, env)
            cur = self.models.getitem(self, obj, idx)
            new = self.models.binop(self, node.op, cur, self.eval(node.value, env), inplace=True)
            self.models.setitem(self, obj, idx, new)
        else:
            raise Unsupported('augassign target')

    def s_Delete(self, node, env):
        for t in node.targets:
            if isinstance(t, ast.Name):
                env.vars.pop(t.id, None)
            elif isinstance(t, ast.Subscript):
                obj = self.eval(t.value, env)
                self.models.delitem(self, obj, self.eval_index(t.slice, env))
            elif isinstance(t, ast.Attribute):
                obj = self.eval(t.value, env)
                if isinstance(obj, SObj) and t.attr in obj.attrs:
                    del obj.attrs[t.attr]
                else:
                    self.throw('AttributeError', t.attr)
            else:
                raise Unsupported('del target')

    def assign(self, t, v, env):
        if isinstance(t, ast.Name):
            if t.id in getattr(env, 'globals_decl', ()):
                env.module.globals[t.id] = v
            elif t.id in getattr(env, 'nonlocal_decl', ()):
                e = env.parent
                while e is not None and t.id not in e.vars:
                    e = e.parent
                (e or env).vars[t.id] = v
            else:
                env.vars[t.id] = v
        elif isinstance(t, ast.Attribute):
            self.setattr(self.eval(t.value, env), t.attr, v)
        elif isinstance(t, ast.Subscript):
            self.models.setitem(self, self.eval(t.value, env), self.eval_index(t.slice, env), v)
        elif isinstance(t, (ast.Tuple, ast.List)):
            items = self.models.unpack_iter(self, v, len(t.elts))
            for tt, vv in zip(t.elts, items):
                self.assign(tt, vv, env)
        else:
            raise Unsupported('assignment target %s' % t.__class__.__name__)

    # ---- loops
    def loop_key(self, node, env):
        f = self.current_func[-1] if self.current_func else None
        if f is None:
            return None, None
        ords = getattr(f, '_loop_ords', None)
        if ords is None:
            ords = {}
            k = 0
            stack = list(reversed(f.node.body)) if not isinstance(f.node, ast.Lambda) else []
            # pre-order walk in source order
            def walk(n):
                nonlocal k
                if isinstance(n, (ast.While, ast.For, ast.AsyncFor)):
                    ords[id(n)] = k
                    k += 1
                for c in ast.iter_child_nodes(n):
                    if isinstance(c, (ast.FunctionDef, ast.AsyncFunctionDef, ast.Lambda, ast.ClassDef)):
                        continue
                    walk(c)
            for n in f.node.body:
                walk(n)
            f._loop_ords = ords
            f._loop_count = k
        return f.qualname, ords.get(id(node))

    def spec_for_loop(self, qual, k):
        """The loop contract for loop k of function qual.  A contract names its loop as (function, ordinal); when that function
        no longer HAS a loop with that ordinal but calls - directly or not - a function with a loop that has no contract of
        its own, the loop was moved into a helper (extract-method) and the contract follows it.  Its invariant is then proved
        for the loop where it now lives, exactly as before; the contract finds its loop context under the old key."""
        spec = self.loop_specs.get((qual, k))
        if spec is not None:
            return spec, (qual, k)
        for (F, kk), sp in self.loop_specs.items():
            owners = [f for f in self.current_func[:-1] if f.qualname == F]
            if F == qual or not owners:
                continue
            if getattr(owners[0], '_loop_count', None) is None:
                self._count_loops(owners[0])
            if owners[0]._loop_count > kk:
                continue                     # the loop the contract names is still where the contract says
            if getattr(sp, '_moved_to', (qual, k)) != (qual, k):
                continue
            sp._moved_to = (qual, k)
            return sp, (F, kk)
        return None, (qual, k)

    def _count_loops(self, f):
        n = 0
        if not isinstance(f.node, ast.Lambda):
            def walk(x):
                nonlocal n
                if isinstance(x, (ast.While, ast.For, ast.AsyncFor)):
                    n += 1
                for c in ast.iter_child_nodes(x):
                    if not isinstance(c, (ast.FunctionDef, ast.AsyncFunctionDef, ast.Lambda, ast.ClassDef)):
                        walk(c)
            for x in f.node.body:
                walk(x)
        if getattr(f, '_loop_count', None) is None:
            f._loop_count = n
        return n

    def s_While(self, node, env):
        qual, k = self.loop_key(node, env)
        spec, gkey = self.spec_for_loop(qual, k)
        if spec is None:
            n = 0
            while True:
                if not self.decide(self.eval(node.test, env), self.site(node)):
                    self.exec_block(node.orelse, env)
                    return
                n += 1
                if n > self.unroll_limit:
                    raise Unsupported('loop #%s of %s has no invariant and does not terminate within %d unrollings'
                                      % (k, qual, self.unroll_limit))
                try:
                    self.exec_block(node.body, env)
                except BreakSig:
                    return
                except ContinueSig:
                    continue
        self.cut_loop(node, env, spec, qual, k,
                      test=lambda: self.decide(self.eval(node.test, env), self.site(node)),
                      pre_body=lambda: None, ghost_key=gkey)

    def cut_loop(self, node, env, spec, qual, k, test, pre_body, ghost_key=None):
        tag = '%s#loop%d' % (qual, k)
        entry = self.snapshot(env)
        lghost = {}
        ctx0 = LoopCtx(self, env, 0, entry, 'entry', node=node)
        ctx0.ghost = lghost
        for name, e in spec.invariant(ctx0):
            self.prove('%s.inv_entry[%s]' % (tag, name), e)
        mode = self.path.choice(2, 'loop%d' % k)
        kk = self.fresh_int('k.%s' % (k,), lo=0)
        hctx = LoopCtx(self, env, kk, entry, 'head', node=node)
        hctx.ghost = lghost
        self.havoc_loop(node, env, spec, hctx)
        ctx = LoopCtx(self, env, kk, entry, 'head', node=node)
        ctx.ghost = lghost
        self.path.ghost.setdefault('loops', {})[(qual, k)] = ctx
        if ghost_key is not None:
            self.path.ghost['loops'][ghost_key] = ctx
        for name, e in spec.invariant(ctx):
            self.assume(e)
        if mode == 0:
            if not test():
                raise PathEnd('loop guard false on iteration path')
            # guard against an ineffective havoc (e.g. a "fresh" constant that is not fresh): if the head state admits only
            # k = 0 the contract verifies the first iteration only - reported, never silently accepted
            if not getattr(spec, 'single_iteration', False) and self.path.check(I(kk) >= 1) == z3.unsat:
                self.stale_notes.add('%s: the loop contract\'s head state admits only the first iteration (k = 0): havoc ineffective or '
                                     'invariant too strong - later iterations are not covered' % tag)
            v0 = spec.variant(ctx) if spec.variant is not None else None
            pre_body()
            try:
                self.exec_block(node.body, env)
            except BreakSig:
                return
            except ContinueSig:
                pass
            ctx1 = LoopCtx(self, env, mk_int(I(kk) + 1), entry, 'step', node=node)
            ctx1.ghost = lghost
            for name, e in spec.invariant(ctx1):
                self.prove('%s.inv_preserved[%s]' % (tag, name), e)
            if v0 is not None:
                v1 = spec.variant(ctx1)
                self.prove('%s.variant_decreases' % tag, z3.And(I(v0) >= 0, I(v1) < I(v0)))
            elif not getattr(spec, 'nonterminating', False):
                self.results.append(ObligationResult('%s.terminates' % tag, 'unknown', ';'.join(self.path.sig), 0.0,
                                                     reason='no variant given'))
            raise PathEnd('end of arbitrary iteration')
        else:
            if test():
                raise PathEnd('loop guard true on exit path')
            self.exec_block(node.orelse, env)

    def snapshot(self, env):
        snap = {}
        for name, v in env.vars.items():
            snap[name] = v
            if isinstance(v, SObj):
                snap[name + '.'] = dict(v.attrs)
        return snap

    def assigned_in(self, stmts, env, seen=None, depth=0):
        """Names and self-attributes syntactically assigned in stmts (following self.method() calls)."""
        names, attrs = set(), set()
        seen = seen if seen is not None else set()
        for st in stmts:
            for n in ast.walk(st):
                tgts = []
                if isinstance(n, ast.Assign):
                    tgts = n.targets
                elif isinstance(n, (ast.AugAssign, ast.AnnAssign)):
                    tgts = [n.target]
                elif isinstance(n, (ast.For, ast.AsyncFor)):
                    tgts = [n.target]
                elif isinstance(n, ast.NamedExpr):
                    tgts = [n.target]
                elif isinstance(n, (ast.With, ast.AsyncWith)):
                    tgts = [i.optional_vars for i in n.items if i.optional_vars is not None]
                elif isinstance(n, ast.ExceptHandler) and n.name:
                    names.add(n.name)
                for t in tgts:
                    for tt in ast.walk(t):
                        if isinstance(tt, ast.Name) and isinstance(tt.ctx, ast.Store):
                            names.add(tt.id)
                        elif isinstance(tt, ast.Attribute) and isinstance(tt.ctx, ast.Store) \
                                and isinstance(tt.value, ast.Name):
                            attrs.add((tt.value.id, tt.attr))
                if isinstance(n, ast.Call) and isinstance(n.func, ast.Attribute) and isinstance(n.func.value, ast.Name) \
                        and n.func.value.id == 'self' and depth < 6:
                    selfobj = env.vars.get('self')
                    if isinstance(selfobj, SObj):
                        mv, _ = selfobj.cls.lookup(n.func.attr)
                        if isinstance(mv, PyFunc) and mv.qualname not in seen and mv.qualname not in self.stubs:
                            seen.add(mv.qualname)
                            _, a2 = self.assigned_in(mv.node.body, env, seen, depth + 1)
                            attrs |= {('self', a) for (o, a) in a2 if o == 'self'}
        return names, attrs

    def havoc_value(self, v, hint):
        if isinstance(v, bool):
            return self.fresh_bool(hint)
        if isinstance(v, SBool):
            return self.fresh_bool(hint)
        if isinstance(v, (int, SInt)):
            return self.fresh_int(hint)
        if isinstance(v, (SReal, float)):
            return self.fresh_real(hint)
        if isinstance(v, (bytes, SBytes)):
            return self.fresh_bytes(hint)
        if isinstance(v, SByteArray):
            return SByteArray(self.fresh_bytes(hint))
        raise Unsupported('cannot havoc loop-modified variable %s of value %r (give LoopSpec.havoc)' % (hint, v))

    def havoc_loop(self, node, env, spec, ctx):
        names, attrs = self.assigned_in(node.body, env)
        custom = set(spec.modifies or ())
        for n in sorted(names):
            if n in env.vars and ('!' + n) not in custom:
                if n in custom and spec.havoc is not None:
                    continue
                env.vars[n] = self.havoc_value(env.vars[n], n)
        for (o, a) in sorted(attrs):
            obj = env.vars.get(o)
            if isinstance(obj, SObj) and a in obj.attrs:
                if ('%s.%s' % (o, a)) in custom and spec.havoc is not None:
                    continue
                obj.attrs[a] = self.havoc_value(obj.attrs[a], '%s.%s' % (o, a))
        if spec.havoc is not None:
            spec.havoc(ctx)

    def s_For(self, node, env):
        it = self.eval(node.iter, env)
        M = self.models
        if isinstance(it, SObj):
            f, _ = it.cls.lookup('__iter__')
            if f is None:
                f, _ = it.cls.lookup('__aiter__')
            if f is not None:
                it = self.call(BoundMethod(f, it), [], {})
        if isinstance(it, GenObj):
            brk = []

            def on_yield(v):
                self.assign(node.target, v, env)
                try:
                    self.exec_block(node.body, env)
                except ContinueSig:
                    pass
                except (PyExc, ReturnSig, BreakSig) as sig:
                    # what the CONSUMER's loop body raises / returns / breaks does not pass through the generator's own
                    # try / with / loops (the generator is simply left suspended at its yield): carried past its frames
                    raise ConsumerSignal(sig)
                return None
            try:
                self.run_generator(it, on_yield)
            except ConsumerSignal as cs:
                if isinstance(cs.inner, BreakSig):
                    return
                raise cs.inner
            except BreakSig:
                return
            self.exec_block(node.orelse, env)
            return
        if isinstance(it, range) and it.step == 1:
            # a counted loop that has a loop contract is cut like a symbolic range (whatever its length)
            qual0, k0 = self.loop_key(node, env)
            if self.spec_for_loop(qual0, k0)[0] is not None:
                it = M.SymRange(it.start, it.stop)
        if isinstance(it, M.SymIter):
            qual, k = self.loop_key(node, env)
            spec, gkey = self.spec_for_loop(qual, k)
            if spec is None:
                raise Unsupported('for over symbolic collection without loop contract (%s #%s)' % (qual, k))
            r = it.cut(self, node, env, spec, qual, k)
            return r
        from . import aio as _aio
        if isinstance(it, _aio.QueueView):
            ss = it.q.attrs['_sym']
            it = M.SymSeq(ss['arr'], ss['h'], ss['t'], ss['name'])
        if isinstance(it, M.SymSeq):
            return self._search_loop(node, env, it)
        if isinstance(it, range):
            items = it           # lazily: a long counted loop that leaves early (return / break) is fine without a contract
        else:
            items = it._pyvc_iter(self) if hasattr(it, '_pyvc_iter') else M.concrete_iter(self, it)
        n_iter = 0
        for v in items:
            n_iter += 1
            if isinstance(it, range) and n_iter > max(self.unroll_limit, 64):
                raise Unsupported('counted loop over %d elements has no loop contract and does not leave within %d iterations'
                                  % (len(it), n_iter - 1))
            self.assign(node.target, v, env)
            try:
                self.exec_block(node.body, env)
            except BreakSig:
                return
            except ContinueSig:
                continue
        self.exec_block(node.orelse, env)

    s_AsyncFor = s_For

    def _search_loop(self, node, env, seq):
        """`for x in <sequence of symbolic length>: if <test on x>: <... return / break / raise>` - the linear-search idiom,
        summarised exactly: either there is a FIRST element satisfying the test (the body runs for it and leaves the loop), or
        no element does (the loop falls through).  The test is evaluated once on a generic element and must not branch on it."""
        M = self.models
        from . import aio as _aio
        body = node.body
        ok = (len(body) == 1 and isinstance(body[0], ast.If) and not body[0].orelse and body[0].body
              and isinstance(body[0].body[-1], (ast.Return, ast.Break, ast.Raise)) and not node.orelse)
        if not ok:
            raise Unsupported('for-loop over a sequence of symbolic length (%s) that is not a plain search loop' % seq.name)

        def elem(j):
            return seq.elem(self, j) if seq.elem is not None else _aio.registry(self).obj_of(z3.Select(seq.arr, j), '%s[j]' % seq.name)

        def test_on(j):
            cenv = Env(env.module, env.func, env)
            self.assign(node.target, elem(j), cenv)
            depth = len(self.path.sig)
            t = self.truth(self.eval(body[0].test, cenv))
            if len(self.path.sig) != depth:
                raise Unsupported('the test of a search loop over a symbolic sequence branches on the element')
            return B(t)
        j = z3.Int(self.path.fresh_name('seq.j'))
        self.path.ghost.setdefault('seq_bounds', {})[str(j)] = (seq.lo, seq.hi)
        Tj = test_on(j)
        if self.path.choice(2, 'search-loop-finds-an-element') == 1:
            w = z3.Int(self.path.fresh_name('seq.first'))
            self.path.ghost['seq_bounds'][str(w)] = (seq.lo, seq.hi)
            self.assume(z3.And(w >= seq.lo, w < seq.hi))
            self.assume(z3.substitute(Tj, (j, w)))
            self.assume(z3.ForAll([j], z3.Implies(z3.And(j >= seq.lo, j < w), z3.Not(Tj))))
            self.assign(node.target, elem(w), env)
            try:
                self.exec_block(body[0].body, env)
            except BreakSig:
                return
            raise Unsupported('search loop body did not leave the loop')
        self.assume(z3.ForAll([j], z3.Implies(z3.And(j >= seq.lo, j < seq.hi), z3.Not(Tj))))
        return

    def s_Break(self, node, env):
        raise BreakSig()

    def s_Continue(self, node, env):
        raise ContinueSig()

    # ---- try / with
    def s_Try(self, node, env):
        try:
            try:
                self.exec_block(node.body, env)
            except PyExc as e:
                handled = False
                for h in node.handlers:
                    if h.type is None:
                        match = True
                    else:
                        ht = self.eval(h.type, env)
                        match = self.exc_matches(e.value, ht)
                    if match:
                        handled = True
                        if h.name:
                            env.vars[h.name] = e.value
                        saved = getattr(env, 'handling', None)
                        env.handling = e.value
                        try:
                            self.exec_block(h.body, env)
                        finally:
                            env.handling = saved
                            if h.name:
                                env.vars.pop(h.name, None)
                        break
                if not handled:
                    raise
            else:
                self.exec_block(node.orelse, env)
        finally:
            # NOTE: host 'finally' also runs for PathEnd/Unsupported; only run interpreted finalbody for
            # interpreted control flow.
            import sys
            et = sys.exc_info()[0]
            if et is None or issubclass(et, (PyExc, ReturnSig, BreakSig, ContinueSig)):
                self.exec_block(node.finalbody, env)

    def s_With(self, node, env):
        self._with(node, env, 0)

    s_AsyncWith = s_With

    def _with(self, node, env, i):
        if i == len(node.items):
            self.exec_block(node.body, env)
            return
        item = node.items[i]
        cm = self.eval(item.context_expr, env)
        M = self.models
        if isinstance(cm, M.CtxManagerFromGen):
            # run generator inline: code before yield, then the with-body at the yield point
            pending = []

            def on_yield(v):
                if item.optional_vars is not None:
                    self.assign(item.optional_vars, v, env)
                try:
                    self._with(node, env, i + 1)
                except (ReturnSig, BreakSig, ContinueSig) as sig:
                    # leaving the with-body by return/break/continue: __exit__(None, None, None) resumes the
                    # generator normally after its yield; the jump is completed afterwards
                    pending.append(sig)
                return None
            self.run_generator(cm.gen, on_yield)
            if pending:
                raise pending[0]
            return
        if isinstance(cm, SObj):
            enter, _ = cm.cls.lookup('__enter__')
            aenter, _ = cm.cls.lookup('__aenter__')
            if enter is not None or aenter is not None:
                is_async = enter is None
                v = self.call(BoundMethod(aenter if is_async else enter, cm), [], {})
                if is_async:
                    v = self.await_value(v)
                if item.optional_vars is not None:
                    self.assign(item.optional_vars, v, env)
                ex, _ = cm.cls.lookup('__aexit__' if is_async else '__exit__')
                try:
                    self._with(node, env, i + 1)
                except PyExc as e:
                    r = self.call(BoundMethod(ex, cm), [e.value.cls, e.value, None], {})
                    if is_async:
                        r = self.await_value(r)
                    if not self.decide(r, 'with-exit'):
                        raise
                    return
                r = self.call(BoundMethod(ex, cm), [None, None, None], {})
                if is_async:
                    self.await_value(r)
                return
        raise Unsupported('with over %r' % (cm,))

    # ------------------------------------------------------------------ expressions
    def eval(self, node, env):
        m = getattr(self, 'e_' + node.__class__.__name__, None)
        if m is None:
            raise Unsupported('expression %s' % node.__class__.__name__)
        return m(node, env)

    def e_Constant(self, node, env):
        return node.value

    def load_name(self, name, env):
        try:
            return env.lookup(name)
        except KeyError:
            pass
        if name in self.builtins:
            return self.builtins[name]
        self.throw('NameError', "name '%s' is not defined" % name)

    def e_Name(self, node, env):
        if getattr(env, 'is_class_body', False) and node.id in env.vars:
            return env.vars[node.id]
        return self.load_name(node.id, env)

    def e_Attribute(self, node, env):
        return self.getattr(self.eval(node.value, env), node.attr)

    def e_Tuple(self, node, env):
        out = []
        for e in node.elts:
            if isinstance(e, ast.Starred):
                out.extend(self.models.concrete_iter(self, self.eval(e.value, env)))
            else:
                out.append(self.eval(e, env))
        return tuple(out)

    def e_List(self, node, env):
        return list(self.e_Tuple(node, env))

    def e_Set(self, node, env):
        return set(self.e_Tuple(node, env))

    def e_Dict(self, node, env):
        d = {}
        for k, v in zip(node.keys, node.values):
            if k is None:
                d.update(self.eval(v, env))
            else:
                d[self.models.dict_key(self, self.eval(k, env))] = self.eval(v, env)
        return d

    def e_JoinedStr(self, node, env):
        parts = []
        conc = True
        for p in node.values:
            if isinstance(p, ast.Constant):
                parts.append(str(p.value))
            else:
                v = self.eval(p.value, env)
                if isinstance(v, (str, int)) and not isinstance(v, bool) and p.format_spec is None and p.conversion == -1:
                    parts.append(str(v))
                else:
                    conc = False
        if conc:
            return ''.join(parts)
        return self.fresh_str('fstr')

    def e_Lambda(self, node, env):
        qual = '%s::%s<lambda@%d>' % (env.module.path, (env.func.qualname.split('::')[1] + '.') if env.func else '',
                                      node.lineno)
        f = PyFunc(node, env.module, env, qual)
        a = node.args
        f.defaults = [self.eval(d, env) for d in a.defaults]
        return f

    def e_IfExp(self, node, env):
        if self.decide(self.eval(node.test, env), self.site(node)):
            return self.eval(node.body, env)
        return self.eval(node.orelse, env)

    def e_BoolOp(self, node, env):
        is_and = isinstance(node.op, ast.And)
        v = None
        for i, e in enumerate(node.values):
            v = self.eval(e, env)
            if i == len(node.values) - 1:
                return v
            t = self.decide(v, self.site(node))
            if is_and and not t:
                return v
            if not is_and and t:
                return v
        return v

    def e_UnaryOp(self, node, env):
        v = self.eval(node.operand, env)
        return self.models.unaryop(self, node.op, v)

    def e_BinOp(self, node, env):
        l = self.eval(node.left, env)
        r = self.eval(node.right, env)
        return self.models.binop(self, node.op, l, r)

    def e_Compare(self, node, env):
        left = self.eval(node.left, env)
        result = True
        for op, rn in zip(node.ops, node.comparators):
            right = self.eval(rn, env)
            r = self.models.compare(self, op, left, right)
            if len(node.ops) == 1:
                return r
            if not self.decide(r, self.site(node)):
                return False
            left = right
        return result

    def eval_index(self, sl, env):
        if isinstance(sl, ast.Slice):
            return slice(self.eval(sl.lower, env) if sl.lower is not None else None,
                         self.eval(sl.upper, env) if sl.upper is not None else None,
                         self.eval(sl.step, env) if sl.step is not None else None)
        return self.eval(sl, env)

    def e_Subscript(self, node, env):
        obj = self.eval(node.value, env)
        idx = self.eval_index(node.slice, env)
        return self.models.getitem(self, obj, idx)

    def e_Starred(self, node, env):
        raise Unsupported('starred outside call')

    def e_Call(self, node, env):
        # super() needs the defining class
        if isinstance(node.func, ast.Name) and node.func.id == 'super' and not node.args:
            f = env.func
            e = env
            while f is not None and f.cls is None and e.parent is not None:
                e = e.parent
                f = e.func
            if f is None or f.cls is None:
                raise Unsupported('super() outside method')
            selfname = f.node.args.args[0].arg
            ee = env
            while selfname not in ee.vars:
                ee = ee.parent
            return SuperProxy(f.cls, ee.vars[selfname])
        fn = self.eval(node.func, env)
        args = []
        for a in node.args:
            if isinstance(a, ast.Starred):
                args.extend(self.models.concrete_iter(self, self.eval(a.value, env)))
            else:
                args.append(self.eval(a, env))
        kwargs = {}
        for k in node.keywords:
            if k.arg is None:
                kwargs.update(self.eval(k.value, env))
            else:
                kwargs[k.arg] = self.eval(k.value, env)
        return self.call(fn, args, kwargs)

    def e_Await(self, node, env):
        return self.await_value(self.eval(node.value, env))

    def e_Yield(self, node, env):
        v = self.eval(node.value, env) if node.value is not None else None
        if not self.yield_handlers:
            raise Unsupported('yield without consumer')
        h = self.yield_handlers.pop()
        try:
            return h(v)
        finally:
            self.yield_handlers.append(h)

    def e_YieldFrom(self, node, env):
        it = self.eval(node.value, env)
        if isinstance(it, SObj):
            # `yield from obj`: obj.__iter__() - when that is a generator its yields are passed through one by one, as they happen
            f, _ = it.cls.lookup('__iter__')
            if f is not None:
                it = self.call(BoundMethod(f, it), [], {})
        if isinstance(it, GenObj):
            h = self.yield_handlers[-1]
            return self.run_generator(it, h)
        for v in self.models.concrete_iter(self, it):
            self.yield_handlers[-1](v)
        return None

    def _comp(self, node, env, emit):
        def rec(i, cenv):
            if i == len(node.generators):
                emit(cenv)
                return
            g = node.generators[i]
            for v in self.models.concrete_iter(self, self.eval(g.iter, cenv)):
                self.assign(g.target, v, cenv)
                if all(self.decide(self.eval(c, cenv), 'comp') for c in g.ifs):
                    rec(i + 1, cenv)
        cenv = Env(env.module, env.func, env)
        rec(0, cenv)

    def e_ListComp(self, node, env):
        out = []
        self._comp(node, env, lambda ce: out.append(self.eval(node.elt, ce)))
        return out

    def e_GeneratorExp(self, node, env):
        # evaluated eagerly (the repository's generator expressions are pure filters/maps); the result still behaves as an
        # iterator for next()
        try:
            return GenList(self.e_ListComp(node, env))
        except self.models.SymSeqIteration as si:
            g = node.generators
            if len(g) == 1 and not g[0].ifs and not g[0].is_async:
                return self.models.SymGen(si.seq, node, env)
            raise Unsupported('generator expression over a symbolic sequence with filters or several clauses')

    def e_SetComp(self, node, env):
        return set(self.e_ListComp(node, env))

    def e_DictComp(self, node, env):
        out = {}
        self._comp(node, env, lambda ce: out.__setitem__(self.models.dict_key(self, self.eval(node.key, ce)),
                                                         self.eval(node.value, ce)))
        return out

    def e_NamedExpr(self, node, env):
        v = self.eval(node.value, env)
        self.assign(node.target, v, env)
        return v
