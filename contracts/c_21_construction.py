"""Construction: the representation invariant the other contracts start from is ESTABLISHED by the real constructors.

Every endpoint harness (c_10, c_14, c_15, ...) starts from a hand-built pre-state `well_formed(sock)` - an arbitrary stream
table, an empty or arbitrary send queue, a lease object, flags.  That is the modular reading of an object invariant:
    constructor establishes it  /\  every operation preserves it.
This file is the first half, on the real `RSocketServer.__init__`, `RSocketClient.__init__` + `connect()` and
`RSocketBase.__init__` / `_reset_internals` / `_start_tasks` (nothing stubbed except the transport and the application)."""
import z3

from pyvc.values import *   # noqa
from pyvc.harness import harness, OpaqueLog
from pyvc import models as M
from pyvc import aio
from contracts.c_10_endpoint import BASE, SERVER, CLIENT, SC

LEASE = 'rsocket/lease.py::'


def _common_args(E):
    honor = E.path.choice(2, 'honor_lease') == 1
    qsize = E.fresh_int('request_queue_size', 0, 1 << 20)
    fs_kind = E.path.choice(3, 'fragment_size')              # none / valid / below the minimum
    fs = None if fs_kind == 0 else (E.fresh_int('fragment_size', 64, 0xFFFFFF) if fs_kind == 1 else E.fresh_int('fragment_size', -5, 63))
    factory = SOpaque('callable', 'handler-factory')
    handler = SOpaque('app-handler', 'request-handler')
    return honor, qsize, fs_kind, fs, factory, handler


def _initial_state(E, sock, honor, qsize, fs, handler, first_id, P, who):
    a = sock.attrs
    need = ('_send_queue', '_request_queue', '_frame_fragment_cache', '_stream_control', '_requester_lease', '_responder_lease', '_is_closing')
    P('%s:the_per-connection_state_exists[%s]' % (who, ', '.join(need)), all(k in a for k in need))
    if not all(k in a for k in need):
        return
    P('%s:send_queue_starts_empty[nothing precedes what connect()/the first request queues]' % who,
      len(a['_send_queue'].attrs['_queue']) == 0)
    P('%s:retention_queue_starts_empty_with_the_configured_capacity' % who,
      a['_request_queue'].attrs['_queue'] == [] and a['_request_queue'].attrs['maxsize'] is qsize)
    P('%s:reassembly_cache_starts_empty' % who, a['_frame_fragment_cache'].attrs['_frames_by_stream_id'] == {})
    sc = a['_stream_control']
    P('%s:no_stream_registered' % who, sc.attrs['_streams'] == {})
    got = E.call(E.getattr(sock, '_allocate_stream'), [])
    P('%s:first_allocated_stream_id_is_%d[requester ids have the parity of the role]' % (who, first_id), got == first_id)
    rl = a['_requester_lease']
    if honor:
        P('%s:requester_lease_starts_as_a_grant_of_nothing[no request before the first LEASE]' % who,
          rl.cls.name == 'DefinedLease' and rl.attrs['maximum_request_count'] == 0)
    else:
        P('%s:without_lease_every_request_is_allowed' % who, rl.cls.name == 'NullLease')
    P('%s:responder_lease_starts_unrestricted[only send_lease restricts it]' % who, a['_responder_lease'].cls.name == 'NullLease')
    P('%s:not_closing' % who, a['_is_closing'] is False)
    P('%s:handler_is_what_the_factory_returned_and_configuration_is_kept' % who,
      a['_handler'] is handler and a['_honor_lease'] is honor and a['_fragment_size_bytes'] is fs and a['_request_queue_size'] is qsize)


@harness('e.construct.server', ['C13', 'C14', 'C16', 'C17', 'C05', 'C10', 'C11', 'C03'],
         functions=[SERVER + '.__init__', SERVER + '._setup_internals', SERVER + '._current_transport', SERVER + '._get_first_stream_id',
                    SERVER + '.is_server_alive', BASE + '.__init__', BASE + '._reset_internals', BASE + '._start_tasks',
                    BASE + '._start_task_if_not_closing', BASE + '._assert_valid_fragment_size', BASE + '.get_fragment_size_bytes'],
         assumptions=['the transport and the handler factory are abstract objects; tasks are created, not run'])
def construct_server(E):
    E.import_module('asyncio')
    honor, qsize, fs_kind, fs, factory, handler = _common_args(E)
    transport = SOpaque('transport', 'transport')
    ready = []
    tasks = []
    E.create_task_hook = lambda E_, t, coro: tasks.append((t, coro))
    log = OpaqueLog(E, returns={('callable', '__call__'): lambda E_, o, m, a, k: handler if o is factory else ready.append((a, len(tasks)))})
    on_ready = SOpaque('callable', 'on_ready')
    P = E.prove
    try:
        sock = E.call(E.lookup(SERVER), [transport], dict(handler_factory=factory, honor_lease=honor, request_queue_size=qsize,
                                                          fragment_size_bytes=fs, on_ready=on_ready))
    except PyExc as e:
        E.cover('rejected')
        P('server:construction_fails_only_for_a_fragment_size_below_the_minimum', fs_kind == 2
          and e.value.cls.issubclass(E.lookup('rsocket/exceptions.py::RSocketError')))
        P('server:a_rejected_configuration_starts_nothing', not tasks and not ready)
        return
    E.cover('constructed')
    P('server:every_fragment_size_below_64_is_rejected', fs_kind != 2)
    P('server:fragment_size_is_what_get_fragment_size_bytes_reports', E.call(E.getattr(sock, 'get_fragment_size_bytes'), []) is fs)
    _initial_state(E, sock, honor, qsize, fs, handler, 2, P, 'server')
    P('server:receiver_and_sender_started_once_each',
      sorted(c.func.name for t, c in tasks) == ['_receiver', '_sender'] and sock.attrs['_receiver_task'] is [t for t, c in tasks if c.func.name == '_receiver'][0]
      and sock.attrs['_sender_task'] is [t for t, c in tasks if c.func.name == '_sender'][0])
    P('server:on_ready_called_once_with_the_server_after_its_internals_exist', len(ready) == 1 and ready[0][0] == [sock] and ready[0][1] == 2)
    ft = E.call(E.getattr(sock, '_current_transport'), [])
    P('server:transport_is_available_at_once', ft.attrs['state'] == 'result' and ft.attrs['value'] is transport)
    P('server:is_always_alive[its loops end by cancellation]', E.call(E.getattr(sock, 'is_server_alive'), []) is True)
    P('server:handler_factory_called_exactly_once', len(log.of(factory)) == 1)


@harness('e.construct.client', ['C13', 'C14', 'C16', 'C17', 'C05', 'C10', 'C11', 'C15', 'C03'],
         functions=[CLIENT + '.__init__', CLIENT + '._current_transport', CLIENT + '._get_first_stream_id', CLIENT + '._update_last_keepalive',
                    CLIENT + '.is_server_alive', BASE + '.__init__', BASE + '._setup_internals', BASE + '._assert_valid_fragment_size'],
         assumptions=['the transport provider and the handler factory are abstract objects; tasks are created, not run',
                      'virtual clock'])
def construct_client(E):
    E.import_module('asyncio')
    E.import_module('datetime')
    honor, qsize, fs_kind, fs, factory, handler = _common_args(E)
    now = E.fresh_int('now')
    E.path.ghost['now'] = I(now)
    provider = SOpaque('async-generator', 'transport-provider')
    it = SOpaque('async-iterator', 'transport-iterator')
    tasks = []
    E.create_task_hook = lambda E_, t, coro: tasks.append((t, coro))
    log = OpaqueLog(E, returns={('callable', '__call__'): lambda E_, o, m, a, k: handler, '__aiter__': lambda E_, o, m, a, k: it})
    P = E.prove
    try:
        sock = E.call(E.lookup(CLIENT), [provider], dict(handler_factory=factory, honor_lease=honor, request_queue_size=qsize,
                                                         fragment_size_bytes=fs))
    except PyExc as e:
        E.cover('rejected')
        P('client:construction_fails_only_for_a_fragment_size_below_the_minimum', fs_kind == 2
          and e.value.cls.issubclass(E.lookup('rsocket/exceptions.py::RSocketError')))
        return
    E.cover('constructed')
    a = sock.attrs
    P('client:every_fragment_size_below_64_is_rejected', fs_kind != 2)
    P('client:only_the_reconnect_listener_runs_before_connect[no receiver, no sender, no keepalive task]',
      [c.func.name for t, c in tasks] == ['_reconnect_listener'] and a['_reconnect_task'] is tasks[0][0]
      and a['_sender_task'] is None and a['_receiver_task'] is None and a['_keepalive_task'] is None)
    P('client:transport_future_pending_until_connect_resolves_it', a['_next_transport'].attrs['state'] == 'pending'
      and E.call(E.getattr(sock, '_current_transport'), []) is a['_next_transport'])
    P('client:alive_with_the_keepalive_clock_started_now', a['_is_server_alive'] is True and E.call(E.getattr(sock, 'is_server_alive'), []) is True
      and I(a['_last_server_keepalive'].attrs['t']) == I(now))
    P('client:no_reconnect_request_pending', a['_connect_request_event'].attrs['flag'] is False)
    P('client:marked_connecting_and_not_closing', a['_connecting'] is True and a['_is_closing'] is False)
    P('client:provider_iterated_from_its_start_once', len(log.of(provider, '__aiter__')) == 1 and a['_transport_provider'] is it)
    P('client:handler_is_what_the_factory_returned_and_configuration_is_kept',
      a['_handler'] is handler and len(log.of(factory)) == 1 and a['_honor_lease'] is honor and a['_fragment_size_bytes'] is fs
      and a['_request_queue_size'] is qsize)
    # the per-connection state does not exist before connect(); connect() creates it (c17.connect_gives_fresh_state proves this
    # from an arbitrary earlier state - here from the constructor's)
    E.call(E.getattr(sock, '_reset_internals'), [])
    _initial_state(E, sock, honor, qsize, fs, handler, 1, P, 'client')


# --------------------------------------------------------------------------- context-manager life cycle (C11 / C17: close happens, exactly once)

AWR = 'rsocket/awaitable/awaitable_rsocket.py::AwaitableRSocket'


@harness('e.lifecycle.base_and_client', ['C11', 'C17', 'C16'], functions=[BASE + '.__aenter__', BASE + '.__aexit__', CLIENT + '.__aenter__',
                                                                      CLIENT + '.close'],
         assumptions=['connect / close / _close are used through their own contracts (c17.connect_gives_fresh_state, c11.client_close)'])
def lifecycle(E):
    E.import_module('asyncio')
    role = [SERVER, CLIENT][E.path.choice(2, 'role')]
    from pyvc.harness import new_obj
    sock = new_obj(E, role)
    calls = []
    E.stubs[CLIENT + '.connect'] = lambda E_, f, a, k: (calls.append('connect'), aio.Awaitable('ready', result=a[0]))[1]
    E.stubs[BASE + '.close'] = lambda E_, f, a, k: (calls.append('base.close'), aio.Awaitable('ready'))[1]
    E.stubs[CLIENT + '._close'] = lambda E_, f, a, k: (calls.append(('client._close', k.get('reconnect', a[1] if len(a) > 1 else False))),
                                                        aio.Awaitable('ready'))[1]
    r = E.await_value(E.call(E.getattr(sock, '__aenter__'), []))
    E.cover('entered')
    E.prove('lifecycle:entering_returns_the_endpoint_and_a_client_connects_exactly_once[a server is already running]',
            r is sock and calls == (['connect'] if role == CLIENT else []))
    del calls[:]
    E.await_value(E.call(E.getattr(sock, '__aexit__'), [None, None, None]))
    E.prove('lifecycle:leaving_closes_exactly_once[a client for good: not in reconnect mode]',
            calls == ([('client._close', False)] if role == CLIENT else ['base.close']))


@harness('e.lifecycle.awaitable', ['C11', 'C07'], functions=[AWR + '.__aenter__', AWR + '.__aexit__', AWR + '.connect', AWR + '.__init__'],
         assumptions=['the wrapped RSocket is abstract'])
def lifecycle_awaitable(E):
    inner = SOpaque('rsocket', 'rsocket')
    log = OpaqueLog(E, returns={'__aenter__': lambda *a: aio.Awaitable('ready', result=inner), '__aexit__': lambda *a: aio.Awaitable('ready'),
                                'connect': lambda *a: aio.Awaitable('ready', result=inner)})
    aw = E.call(E.lookup(AWR), [inner])
    r = E.await_value(E.call(E.getattr(aw, '__aenter__'), []))
    E.cover('entered')
    E.prove('awaitable:entering_enters_the_wrapped_endpoint_once_and_returns_the_wrapper', r is aw and [c[1] for c in log.of(inner)] == ['__aenter__'])
    E.await_value(E.call(E.getattr(aw, '__aexit__'), [None, None, None]))
    E.prove('awaitable:leaving_leaves_the_wrapped_endpoint_once[this is what closes the connection]',
            [c[1] for c in log.of(inner)] == ['__aenter__', '__aexit__'] and log.of(inner)[1][2] == (None, None, None))
    r2 = E.await_value(E.call(E.getattr(aw, 'connect'), []))
    E.prove('awaitable:connect_delegates', r2 is inner and [c[1] for c in log.of(inner)][-1] == 'connect')
