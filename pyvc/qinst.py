"""Deciding obligations whose path condition carries quantified invariants.

z3 answers `unknown` when it has to *find a model* of quantified assumptions (a refutation, or a mere satisfiability
check of the path).  Our quantified assumptions are invariants over symbolic maps / queues (array-property style:
the bound variable indexes arrays or uninterpreted functions and is compared with ground terms).  For these:

  1. instantiate every universally quantified assumption over the finite set of ground index terms of the query
     (plus one fresh index) -> a quantifier-free formula F' with  pc => F'  (sound weakening);
  2. F' unsat  =>  pc /\ not goal unsat  =>  obligation PROVED (sound);
  3. F' sat with model m  =>  *validate* m against every original quantified assumption: evaluate the body under m with
     the bound variables kept symbolic and ask z3 (quantifier-free) for a violating index.  No violating index for
     any assumption  =>  m is a genuine model of pc /\ not goal  =>  obligation REFUTED with a concrete counter-model.
     Otherwise the violating index is added to the instantiation set and the loop repeats (bounded rounds).

Nothing here is trusted for `proved` beyond instantiation being a logical consequence; nothing is reported `refuted`
without a model that z3 itself checked against the *original* assumptions.
"""
import itertools
import time

import z3


def _flatten(assertions):
    out = []
    for a in assertions:
        if z3.is_and(a):
            out.extend(_flatten(a.children()))
        else:
            out.append(a)
    return out


def _has_var(t, cache):
    i = t.get_id()
    if i in cache:
        return cache[i]
    if z3.is_var(t):
        r = True
    elif z3.is_quantifier(t):
        r = _has_var(t.body(), cache)       # conservative
    else:
        r = any(_has_var(c, cache) for c in t.children())
    cache[i] = r
    return r


def _index_terms(exprs, bodies):
    """Ground Int terms used as array / function indices anywhere, and maximal ground Int subterms of the bodies."""
    terms = {}
    seen = set()
    vc = {}

    def add(t):
        if t.sort().kind() == z3.Z3_INT_SORT and not _has_var(t, vc):
            terms[t.get_id()] = t

    def walk(t, in_body):
        key = (t.get_id(), in_body)
        if key in seen:
            return
        seen.add(key)
        if z3.is_quantifier(t):
            walk(t.body(), True)
            return
        if z3.is_app(t):
            k = t.decl().kind()
            ch = t.children()
            if k == z3.Z3_OP_SELECT:
                add(ch[1])
            elif k == z3.Z3_OP_STORE:
                add(ch[1])
            elif k == z3.Z3_OP_UNINTERPRETED and ch:
                for c in ch:
                    add(c)
            if in_body and _has_var(t, vc):
                for c in ch:
                    if not _has_var(c, vc) and c.sort().kind() == z3.Z3_INT_SORT:
                        add(c)
            for c in ch:
                walk(c, in_body)
    for e in exprs:
        walk(e, False)
    for b in bodies:
        walk(b, True)
    return list(terms.values())


def _offsets(quants):
    """ground terms c such that c + x (x a bound variable) is used as an array / function index in a quantified body"""
    out, seen, vc = {}, set(), {}

    def idx(t):
        if z3.is_app(t) and t.decl().kind() == z3.Z3_OP_ADD:
            ch = t.children()
            vs = [c for c in ch if z3.is_var(c)]
            gs = [c for c in ch if not _has_var(c, vc)]
            if len(vs) == 1 and len(gs) == len(ch) - 1 and gs:
                c = gs[0] if len(gs) == 1 else z3.Sum(gs)
                out[c.get_id()] = c

    def walk(t):
        if t.get_id() in seen:
            return
        seen.add(t.get_id())
        if z3.is_quantifier(t):
            walk(t.body())
            return
        if z3.is_app(t):
            k = t.decl().kind()
            ch = t.children()
            if k in (z3.Z3_OP_SELECT, z3.Z3_OP_STORE):
                idx(ch[1])
            elif k == z3.Z3_OP_UNINTERPRETED:
                for c in ch:
                    idx(c)
            for c in ch:
                walk(c)
    for q in quants:
        walk(q)
    return list(out.values())


def decide(assertions, timeout_ms=8000, max_rounds=6, max_inst=6000):
    """assertions: list of z3 BoolRef (path condition + negated goal).  Returns (status, model, info)."""
    t0 = time.time()
    flat = [_skolemize(a) for a in _flatten(assertions)]
    flat = _flatten(flat)
    quants = [a for a in flat if z3.is_quantifier(a) and a.is_forall()]
    ground = [a for a in flat if not (z3.is_quantifier(a) and a.is_forall())]
    vc = {}
    if any(_has_var(g, vc) or _contains_quant(g) for g in ground):
        return 'unknown', None, 'nested quantifier outside a top-level forall'
    if not quants:
        return 'unknown', None, 'no quantified assumption'
    terms = _index_terms(ground, quants)
    # an index of the form c + x (x bound, c ground) in a quantified body matches a ground index g at x = g - c
    offs = _offsets(quants)
    if offs:
        base = list(terms)
        seen_ids = {t.get_id() for t in terms}
        for c in offs:
            for g in base:
                t = z3.simplify(g - c)
                if t.get_id() not in seen_ids and len(terms) < 60:
                    seen_ids.add(t.get_id())
                    terms.append(t)
    fresh = z3.Int('qinst.fresh')
    terms.append(fresh)
    extra = []
    for rnd in range(max_rounds):
        s = z3.Solver()
        s.set('timeout', timeout_ms)
        for g in ground:
            s.add(g)
        T = terms + extra
        n_inst = 0
        for q in quants:
            nv = q.num_vars()
            if any(q.var_sort(i).kind() != z3.Z3_INT_SORT for i in range(nv)):
                return 'unknown', None, 'non-integer bound variable'
            if len(T) ** nv > max_inst:
                return 'unknown', None, 'instantiation set too large (%d^%d)' % (len(T), nv)
            for tup in itertools.product(T, repeat=nv):
                s.add(z3.substitute_vars(q.body(), *reversed(tup)))
                n_inst += 1
        r = s.check()
        if r == z3.unsat:
            return 'unsat', None, 'instantiation (%d instances, round %d, %.2fs)' % (n_inst, rnd, time.time() - t0)
        if r != z3.sat:
            return 'unknown', None, 'instantiated query: %s' % s.reason_unknown()
        m = s.model()
        # validate the model against the original quantified assumptions
        new = []
        ok = True
        for q in quants:
            nv = q.num_vars()
            xs = [z3.Int('qinst.v%d' % i) for i in range(nv)]
            body = z3.substitute_vars(q.body(), *reversed(xs))
            try:
                ev = m.eval(body, model_completion=True)
            except z3.Z3Exception:
                return 'unknown', None, 'model evaluation failed'
            v = z3.Solver()
            v.set('timeout', timeout_ms)
            v.add(z3.Not(ev))
            rv = v.check()
            if rv == z3.unsat:
                continue
            ok = False
            if rv == z3.sat:
                mv = v.model()
                for x in xs:
                    val = mv.eval(x, model_completion=True)
                    new.append(val)
            else:
                return 'unknown', None, 'model validation: %s' % v.reason_unknown()
        if ok:
            return 'sat', m, 'model validated against %d quantified assumptions (%d instances, round %d, %.2fs)' % (
                len(quants), n_inst, rnd, time.time() - t0)
        ids = {t.get_id() for t in terms + extra}
        added = False
        for val in new:
            if val.get_id() not in ids:
                extra.append(val)
                ids.add(val.get_id())
                added = True
        if not added:
            return 'unknown', None, 'validation failed without a new index'
    return 'unknown', None, 'instantiation rounds exhausted'


_SK = [0]


def _skolemize(a):
    """Top-level normalisation (each step an equivalence or a skolemisation, so satisfiability is preserved):
         not (forall x. body)  ->  not body[x := fresh constants]
         exists x. body        ->  body[x := fresh constants]
         not (exists x. body)  ->  forall x. not body
         not (a -> b)          ->  a /\ not b           not (a \/ b) -> not a /\ not b        not not a -> a"""
    def fresh(q):
        cs = []
        for i in range(q.num_vars()):
            _SK[0] += 1
            cs.append(z3.Const('qinst.sk%d' % _SK[0], q.var_sort(i)))
        return cs
    if z3.is_quantifier(a) and a.is_exists():
        return _skolemize(z3.substitute_vars(a.body(), *reversed(fresh(a))))
    if z3.is_and(a):
        return z3.And([_skolemize(c) for c in a.children()])
    if z3.is_not(a):
        q = a.children()[0]
        if z3.is_quantifier(q) and q.is_forall():
            return _skolemize(z3.Not(z3.substitute_vars(q.body(), *reversed(fresh(q)))))
        if z3.is_quantifier(q) and q.is_exists():
            xs = [z3.Const('qinst.b%d_%d' % (q.get_id(), i), q.var_sort(i)) for i in range(q.num_vars())]
            return z3.ForAll(xs, z3.Not(z3.substitute_vars(q.body(), *reversed(xs))))
        if z3.is_implies(q):
            return z3.And(_skolemize(q.children()[0]), _skolemize(z3.Not(q.children()[1])))
        if z3.is_or(q):
            return z3.And([_skolemize(z3.Not(c)) for c in q.children()])
        if z3.is_not(q):
            return _skolemize(q.children()[0])
    return a


def _contains_quant(t, _seen=None):
    if _seen is None:
        _seen = set()
    i = t.get_id()
    if i in _seen:
        return False
    _seen.add(i)
    if z3.is_quantifier(t):
        return True
    return any(_contains_quant(c, _seen) for c in t.children())
