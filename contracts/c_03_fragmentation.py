"""C03 - fragmentation and reassembly are exact and respect the size limit.  (DESIGN 5/C03)

Ghost summary of the fragments yielded so far (all symbolic):
   count, md_emitted, d_emitted, last_seen, data_seen
Every yield is checked against the clause list of the property; the loop invariants tie the ghost to the readers.
"""
import z3

from pyvc.values import *   # noqa
from pyvc.engine import LoopSpec, EXC, GenObj
from pyvc.harness import thorough, harness, both_backends, new_obj, OpaqueLog
from pyvc import models as M
from contracts import spec_wire as W

# the two readers of the fragmenter generator, by role (robust against renaming)
MREADER = (('assigned_call', 'BytesIO', 'self.metadata'),)
DREADER = (('assigned_call', 'BytesIO', 'self.data'),)

FF = 'rsocket/frame_fragmenter.py::FrameFragmenter'
ITER = FF + '.__iter__'
FRAG = 'rsocket/fragment.py::Fragment'


def blen(v):
    return W.blen(v)


class Ghost:
    def __init__(self, E):
        self.count = 0
        self.md_emitted = 0
        self.d_emitted = 0
        self.last_seen = False
        self.data_seen = False

    def havoc(self, E):
        self.count = E.fresh_int('g.count', 0)
        self.md_emitted = E.fresh_int('g.md_emitted', 0)
        self.d_emitted = E.fresh_int('g.d_emitted', 0)
        self.last_seen = E.fresh_bool('g.last_seen')
        self.data_seen = E.fresh_bool('g.data_seen')


def setup(E, hdr, lh, md_kind, d_kind):
    fs = E.input('fragment_size', E.fresh_int('fs', 64))
    data = None if d_kind == 'none' else E.input('data', E.fresh_bytes('data'))
    md = None if md_kind == 'none' else E.input('metadata', E.fresh_bytes('metadata'))
    return fs, data, md


def make_on_yield(E, g, data, md, fs, hdr, lh):
    mlen, dlen = blen(md), blen(data)
    B1 = I(fs) - hdr - (3 if lh else 0)
    Bn = I(fs) - 6 - (3 if lh else 0)
    mdv, dv = W.bval(md), W.bval(data)

    def on_yield(fr):
        P = lambda name, goal: E.prove('yield:' + name, goal)  # noqa: E731
        P('is_Fragment', isinstance(fr, SObj) and fr.cls is E.lookup(FRAG))
        fm, fd = fr.attrs['metadata'], fr.attrs['data']
        lm, ld = blen(fm), blen(fd)
        first = B(E.truth(fr.attrs['is_first']))
        # new_frame_fragment treats is_last None like True (un-fragmented form)
        last = z3.BoolVal(True) if fr.attrs['is_last'] is None else B(E.truth(fr.attrs['is_last']))
        P('nothing_after_the_last_fragment', z3.Not(B(g.last_seen)))
        P('is_first_exactly_on_the_first', first == (I(g.count) == 0))
        P('metadata_is_the_next_slice', M.b_eq_goal(E, W.bval(fm), M.b_slice(E, mdv, mk_int(I(g.md_emitted)), mk_int(I(g.md_emitted) + lm)), 'fm'))
        P('metadata_slice_in_range', I(g.md_emitted) + lm <= mlen)
        P('data_is_the_next_slice', M.b_eq_goal(E, W.bval(fd), M.b_slice(E, dv, mk_int(I(g.d_emitted)), mk_int(I(g.d_emitted) + ld)), 'fd'))
        P('data_slice_in_range', I(g.d_emitted) + ld <= dlen)
        P('no_metadata_after_data', z3.Implies(B(g.data_seen), lm == 0))
        P('all_metadata_precedes_any_data', z3.Implies(ld > 0, I(g.md_emitted) + lm == mlen))
        P('body_within_budget', lm + ld <= z3.If(I(g.count) == 0, B1, Bn))
        P('not_empty_unless_whole_payload_empty', z3.Or(lm + ld > 0, z3.And(mlen == 0, dlen == 0)))
        P('is_last_exactly_when_everything_emitted',
          last == z3.And(I(g.md_emitted) + lm == mlen, I(g.d_emitted) + ld == dlen))
        # wire size (K-CODEC length contract): header + [3 + metadata] + data + [3-byte frame length]
        wire = z3.If(I(g.count) == 0, hdr, 6) + z3.If(lm > 0, 3 + lm, 0) + ld + (3 if lh else 0)
        if E.decide(mk_bool(lm > 0), 'fragment-has-metadata'):
            E.prove('@C03:yield:wire_size[fragment with metadata]', wire <= I(fs))
            E.prove('@C03:yield:wire_size_documented_overshoot[fragment with metadata]', wire <= I(fs) + 3)
        else:
            E.prove('@C03:yield:wire_size[fragment without metadata]', wire <= I(fs))
        g.count = mk_int(I(g.count) + 1)
        g.md_emitted = mk_int(I(g.md_emitted) + lm)
        g.d_emitted = mk_int(I(g.d_emitted) + ld)
        g.last_seen = mk_bool(z3.Or(B(g.last_seen), last))
        g.data_seen = mk_bool(z3.Or(B(g.data_seen), ld > 0))
        return None
    return on_yield


def frag_specs(E, g, data, md, fs, hdr, lh):
    mlen, dlen = blen(md), blen(data)
    B1 = I(fs) - hdr - (3 if lh else 0)
    Bn = I(fs) - 6 - (3 if lh else 0)

    names = {}

    def budget_attr(s, name, value, ctx):
        """the fragmenter attribute that holds this budget: by its name, else (renamed) the one int attribute that __init__ set
        to exactly this value - decided once, at loop entry, and then required to keep the value"""
        if name in s.attrs:
            return name
        if name not in names:
            if ctx.phase != 'entry':
                raise Unsupported('contract out of date: no attribute of FrameFragmenter plays the role of %r' % name)
            known = ('first_fragment_size_bytes', 'next_frame_header_size', '_data_length', '_metadata_length',
                     '_data_read_length', '_metadata_read_length')
            cands = [k for k, v in s.attrs.items() if k not in known and k not in names.values() and isinstance(v, (int, SInt))
                     and not isinstance(v, bool) and E.path.check(I(v) != value) == z3.unsat]
            if len(cands) != 1:
                raise Unsupported('contract out of date: no attribute of FrameFragmenter plays the role of %r' % name)
            names[name] = cands[0]
        return names[name]

    def common(ctx):
        s = ctx.self
        return [('first fragment budget = size - header - 3*length_header', I(s.attrs[budget_attr(s, 'first_fragment_size_bytes', B1, ctx)]) == B1),
                ('later fragment budget = size - 6 - 3*length_header', I(s.attrs[budget_attr(s, 'next_frame_header_size', Bn, ctx)]) == Bn),
                ('recorded lengths', z3.And(I(s.attrs['_data_length']) == dlen, I(s.attrs['_metadata_length']) == mlen))]

    # ---- loop 0: metadata
    def havoc0(ctx):
        g.havoc(E)
        ctx.local('metadata_reader', *MREADER).attrs['pos'] = E.fresh_int('mr.pos', 0)

    def inv0(ctx):
        s = ctx.self
        mread = I(s.attrs['_metadata_read_length'])
        dread = I(s.attrs['_data_read_length'])
        isf = B(E.truth(s.attrs['_is_first']))
        mr, dr = ctx.local('metadata_reader', *MREADER), ctx.local('data_reader', *DREADER)
        return common(ctx) + [
            ('ghost: emitted metadata = read metadata = reader position',
             z3.And(I(g.md_emitted) == mread, I(mr.attrs['pos']) == mread, mread >= 0, mread <= mlen)),
            ('no data touched yet', z3.And(I(g.d_emitted) == 0, dread == 0, I(dr.attrs['pos']) == 0, z3.Not(B(g.data_seen)))),
            ('is_first <=> nothing yielded', isf == (I(g.count) == 0)),
            ('nothing yielded <=> no metadata read', (I(g.count) == 0) == (mread == 0)),
            ('count >= 0', I(g.count) >= 0),
            ('last seen <=> yielded, no data, all metadata out',
             B(g.last_seen) == z3.And(I(g.count) > 0, dlen == 0, mread == mlen)),
            ('payload not empty', mlen + dlen > 0),
            ('if the payload fits, at most the single (last) fragment was yielded',
             z3.Implies(mlen + dlen <= B1, z3.Or(I(g.count) == 0, z3.And(I(g.count) == 1, B(g.last_seen))))),
            ('readers read the payload', z3.And(M.b_eq_goal(E, mr.attrs['buf'], W.bval(md), 'mrb'),
                                                M.b_eq_goal(E, dr.attrs['buf'], W.bval(data), 'drb'))
             if ctx.phase != 'head' else True),
        ]

    def var0(ctx):
        return mlen - I(ctx.self.attrs['_metadata_read_length']) + 1

    # ---- loop 1: data
    def havoc1(ctx):
        g.havoc(E)
        ctx.local('data_reader', *DREADER).attrs['pos'] = E.fresh_int('dr.pos', 0)

    def inv1(ctx):
        s = ctx.self
        mread = I(s.attrs['_metadata_read_length'])
        dread = I(s.attrs['_data_read_length'])
        isf = B(E.truth(s.attrs['_is_first']))
        dr = ctx.local('data_reader', *DREADER)
        return common(ctx) + [
            ('all metadata emitted', z3.And(I(g.md_emitted) == mlen, mread == mlen)),
            ('ghost: emitted data = read data = reader position, strictly inside',
             z3.And(I(g.d_emitted) == dread, I(dr.attrs['pos']) == dread, dread > 0, dread < dlen)),
            ('payload does not fit one fragment', mlen + dlen > B1),
            ('already yielded, not first, not last', z3.And(I(g.count) > 0, z3.Not(isf), z3.Not(B(g.last_seen)), B(g.data_seen))),
            ('reader reads the data', M.b_eq_goal(E, dr.attrs['buf'], W.bval(data), 'drb') if ctx.phase != 'head' else True),
        ]

    def var1(ctx):
        return dlen - I(ctx.self.attrs['_data_read_length'])
    return {(ITER, 0): LoopSpec(inv0, var0, havoc=havoc0), (ITER, 1): LoopSpec(inv1, var1, havoc=havoc1)}


def _fragmenter(hdr, lh, md_kind, d_kind):
    def run(E):
        fs, data, md = setup(E, hdr, lh, md_kind, d_kind)
        g = Ghost(E)
        E.loop_specs.update(frag_specs(E, g, data, md, fs, hdr, lh))
        # entry point = what the frames use: the generator returned by data_to_fragments_if_required (builds the
        # FrameFragmenter with its real __init__ and delegates to its __iter__)
        gen = E.call(E.lookup('rsocket/frame_fragmenter.py::data_to_fragments_if_required'), [data, md, hdr, fs, lh])
        E.run_generator(gen, make_on_yield(E, g, data, md, fs, hdr, lh))
        E.cover('generator-finished')
        mlen, dlen = blen(md), blen(data)
        E.prove('end:at_least_one_fragment', I(g.count) >= 1)
        E.prove('end:last_fragment_was_flagged', B(g.last_seen))
        E.prove('end:all_metadata_emitted', I(g.md_emitted) == mlen)
        E.prove('end:all_data_emitted', I(g.d_emitted) == dlen)
        B1 = I(fs) - hdr - (3 if lh else 0)
        E.prove('end:single_fragment_iff_it_fits', z3.Implies(mlen + dlen <= B1, I(g.count) == 1))
    return run


def _fragmenter_unrolled(hdr, lh, fs=64, total=150):
    """BOUNDED stand-in that does not depend on the shape of the fragmenter's loops: fragment size 64, metadata and data of
    symbolic content and symbolic lengths up to three fragments in total; every loop is unrolled.  Same clauses as the
    unbounded harness (they are stated on the yielded fragments, not on the loops)."""
    def run(E):
        data = E.input('data', E.fresh_bytes('data', 0, total))
        md = E.input('metadata', E.fresh_bytes('metadata', 0, total))
        E.assume(data.len_term() + md.len_term() <= total)
        E.input('fragment_size', fs)
        g = Ghost(E)
        E.unroll_limit = 12
        gen = E.call(E.lookup('rsocket/frame_fragmenter.py::data_to_fragments_if_required'), [data, md, hdr, fs, lh])
        E.run_generator(gen, make_on_yield(E, g, data, md, fs, hdr, lh))
        E.cover('generator-finished')
        mlen, dlen = blen(md), blen(data)
        E.prove('end:at_least_one_fragment', I(g.count) >= 1)
        E.prove('end:last_fragment_was_flagged', B(g.last_seen))
        E.prove('end:all_metadata_emitted', I(g.md_emitted) == mlen)
        E.prove('end:all_data_emitted', I(g.d_emitted) == dlen)
        B1 = fs - hdr - (3 if lh else 0)
        E.prove('end:single_fragment_iff_it_fits', z3.Implies(mlen + dlen <= B1, I(g.count) == 1))
    return run


for _hdr in (6, 10):
    for _lh in (True, False):
        harness('c03.fragmenter.unrolled.bounded[hdr=%d,length_header=%s]' % (_hdr, _lh), ['C03', 'C01'], kind='bounded',
                functions=[ITER, FF + '.__init__', 'rsocket/frame_fragmenter.py::data_to_fragments_if_required'], replay='c03_fragmenter',
                max_paths=4000,
                assumptions=['BOUNDED stand-in: fragment size 64, metadata + data <= 150 bytes (up to three fragments), symbolic contents and '
                             'lengths, loops unrolled'])(_fragmenter_unrolled(_hdr, _lh))
        if thorough():
            harness('c03.fragmenter.unrolled.bounded[hdr=%d,length_header=%s,size=70,total<=280]' % (_hdr, _lh), ['C03', 'C01'], kind='bounded',
                    functions=[ITER, FF + '.__init__'], replay='c03_fragmenter', max_paths=40000, timeout_s=600,
                    assumptions=['BOUNDED stand-in (thorough tier): fragment size 70, metadata + data <= 280 bytes (up to five fragments)'])(
                _fragmenter_unrolled(_hdr, _lh, 70, 280))


for _hdr in (6, 10):
    for _lh in (True, False):
        for _mk in ('none', 'bytes'):
            for _dk in ('none', 'bytes'):
                harness('c03.fragmenter[hdr=%d,length_header=%s,md=%s,data=%s]' % (_hdr, _lh, _mk, _dk), ['C03', 'C01'],
                        functions=[ITER, FF + '.__init__', FF + '._get_next_fragment_body_size', FRAG + '.__init__',
                                   'rsocket/frame_fragmenter.py::data_to_fragments_if_required'],
                        replay='c03_fragmenter', fallback=r'^c03\.fragmenter\.unrolled\.bounded',
                        assumptions=['io.BytesIO.read(n) returns buf[pos:pos+n] and advances pos (modelled; conformance-checked)'])(
                    _fragmenter(_hdr, _lh, _mk, _dk))


# =========================================================================== frames made from fragments

FR = 'rsocket/frame.py::'
FRAGMENTABLE = {'PayloadFrame': 6, 'RequestResponseFrame': 6, 'RequestFireAndForgetFrame': 6, 'RequestStreamFrame': 10,
                'RequestChannelFrame': 10}
TYPE_ID = {'PayloadFrame': W.T_PAYLOAD, 'RequestResponseFrame': W.T_RR, 'RequestFireAndForgetFrame': W.T_FNF,
           'RequestStreamFrame': W.T_STREAM, 'RequestChannelFrame': W.T_CHANNEL}


def opt_bytes(E, name, kind):
    if kind == 'none':
        return None
    return E.input(name, E.fresh_bytes(name))


def make_base_frame(E, cname):
    fr = E.call(E.lookup(FR + cname), [])
    E.setattr(fr, 'stream_id', E.input('stream_id', E.fresh_int('sid', 1, 0x7FFFFFFF)))
    E.setattr(fr, 'flags_ignore', E.fresh_bool('ignore'))
    E.setattr(fr, 'flags_complete', E.input('complete', E.fresh_bool('complete')))
    if cname in ('RequestStreamFrame', 'RequestChannelFrame'):
        E.setattr(fr, 'initial_request_n', E.input('initial_request_n', E.fresh_int('n', 1, 0x7FFFFFFF)))
    E.setattr(fr, 'sent_future', SOpaque('future', 'sent_future') if E.path.choice(2, 'sent-future') else None)
    return fr


def _new_frame_fragment(cname):
    def run(E):
        base = make_base_frame(E, cname)
        kinds = [('none', 'none'), ('bytes', 'none'), ('none', 'bytes'), ('bytes', 'bytes')][E.path.choice(4, 'fragment-shape')]
        fm, fd = opt_bytes(E, 'fragment_metadata', kinds[0]), opt_bytes(E, 'fragment_data', kinds[1])
        is_first = E.path.choice(2, 'is_first') == 1
        is_last = [True, False, None][E.path.choice(3, 'is_last')]
        frag = E.call(E.lookup(FRAG), [fd, fm], dict(is_last=is_last, is_first=is_first))
        fr = E.call(E.lookup(FR + 'new_frame_fragment'), [base, frag])
        E.cover('built')
        P = E.prove
        P('frag_frame:first_has_original_type_rest_are_payload',
          fr.cls is (E.lookup(FR + cname) if is_first else E.lookup(FR + 'PayloadFrame')))
        P('frag_frame:stream_id', I(E.getattr(fr, 'stream_id')) == I(E.getattr(base, 'stream_id')))
        if is_first and cname in ('RequestStreamFrame', 'RequestChannelFrame'):
            P('frag_frame:first_keeps_initial_request_n', I(E.getattr(fr, 'initial_request_n')) == I(E.getattr(base, 'initial_request_n')))
        P('frag_frame:data_is_fragment_data', fd is E.getattr(fr, 'data'))
        P('frag_frame:metadata_is_fragment_metadata', fm is E.getattr(fr, 'metadata'))
        last = is_last is None or is_last
        P('frag_frame:follows_on_all_but_last', E.getattr(fr, 'flags_follows') is (not last))
        if last:
            P('frag_frame:last_carries_complete', B(E.truth(E.getattr(fr, 'flags_complete'))) == B(E.truth(E.getattr(base, 'flags_complete'))))
            P('frag_frame:last_carries_sent_future', E.getattr(fr, 'sent_future') is E.getattr(base, 'sent_future'))
        else:
            P('frag_frame:complete_only_on_last', E.getattr(fr, 'flags_complete') is False)
            P('frag_frame:sent_future_only_on_last', E.getattr(fr, 'sent_future') is None)
        P('frag_frame:ignore_flag_copied', B(E.truth(E.getattr(fr, 'flags_ignore'))) == B(E.truth(E.getattr(base, 'flags_ignore'))))
    return run


for _c in FRAGMENTABLE:
    harness('c03.new_frame_fragment[%s]' % _c, ['C03', 'C08', 'C01', 'C06'], functions=[FR + 'new_frame_fragment', FRAG + '.__init__'])(
        _new_frame_fragment(_c))


def _get_next_fragment(cname):
    def run(E):
        base = make_base_frame(E, cname)
        data, md = opt_bytes(E, 'data', 'bytes'), opt_bytes(E, 'metadata', 'bytes')
        E.setattr(base, 'data', data)
        E.setattr(base, 'metadata', md)
        fs = E.input('fs', E.fresh_int('fs', 64)) if E.path.choice(2, 'fs') else None
        E.setattr(base, 'fragment_size_bytes', fs)
        lh = E.input('requires_length_header', E.fresh_bool('requires_length_header'))
        made = []
        exhausted = E.path.choice(2, 'generator-exhausted') == 1
        nxt = E.call(E.lookup(FRAG), [E.fresh_bytes('fd'), E.fresh_bytes('fm')], dict(is_last=False, is_first=False))

        def gen_next(E_, obj, method, args, kwargs):
            if exhausted:
                E_.throw('StopIteration')
            return nxt
        log = OpaqueLog(E, returns={'__next__': gen_next})
        gen = SOpaque('generator', 'fragment_generator')
        def bind(E_, f, a, k):
            # the callee's parameters by NAME, however they were passed (positionally, by keyword, or left to the default)
            names = [x.arg for x in f.node.args.args]
            vals = dict(zip(names, a))
            vals.update(k)
            for nm, dv in zip(names[len(names) - len(f.defaults):], f.defaults):
                vals.setdefault(nm, dv)
            made.append(vals)
            return gen
        E.stubs['rsocket/frame_fragmenter.py::data_to_fragments_if_required'] = bind
        built = []
        E.stubs[FR + 'new_frame_fragment'] = lambda E_, f, a, k: (built.append(a), SOpaque('frame', 'fragment-frame'))[1]
        already = E.path.choice(2, 'generator-exists') == 1
        if already:
            E.setattr(base, 'fragment_generator', gen)
        r = E.call(E.getattr(base, 'get_next_fragment'), [lh])
        E.cover('stepped')
        P = E.prove
        if already:
            P('next_fragment:generator_created_once', len(made) == 0)
        else:
            P('next_fragment:generator_created_from_own_payload',
              len(made) == 1 and made[0].get('data') is data and made[0].get('metadata') is md
              and made[0].get('first_frame_header_size') == FRAGMENTABLE[cname])
            fl = made[0].get('frame_length_required') if len(made) == 1 else None
            P('next_fragment:fragmenter_is_told_the_framing_mode_of_the_transport[the 3-byte length prefix counts only where it exists]',
              fl is lh or (isinstance(fl, (bool, SBool)) and E.path.check(B(fl) != B(lh)) == z3.unsat))
            size_arg = made[0].get('fragment_size_bytes', fs) if len(made) == 1 else fs
            if size_arg is fs:
                P('next_fragment:fragmenter_gets_the_configured_size', True)
            else:
                # a shortcut that skips fragmentation is only legitimate when the frame really fits: its true wire length
                # (header, 3-byte metadata length when there is metadata, metadata, data, 3-byte length prefix when the
                # transport needs one) is within the configured size
                mlen = lift_bytes(md).len_term() if md is not None else z3.IntVal(0)
                dlen = lift_bytes(data).len_term() if data is not None else z3.IntVal(0)
                wire = FRAGMENTABLE[cname] + z3.If(mlen > 0, 3 + mlen, 0) + dlen + z3.If(B(lh), 3, 0)
                P('next_fragment:fragmentation_skipped_only_if_the_frame_fits_the_configured_size',
                  size_arg is None and fs is not None and wire <= I(fs))
        P('next_fragment:keeps_generator', E.getattr(base, 'fragment_generator') is gen)
        P('next_fragment:exactly_one_step', len(log.of(gen, '__next__')) == 1)
        if exhausted:
            P('next_fragment:none_when_exhausted', r is None and not built)
        else:
            P('next_fragment:frame_of_the_next_fragment', isinstance(r, SOpaque) and len(built) == 1 and built[0][0] is base
              and built[0][1] is nxt)
    return run


for _c in FRAGMENTABLE:
    harness('c03.get_next_fragment[%s]' % _c, ['C03', 'C01'], replay='c03_get_next_fragment',
            functions=[FR + 'FrameFragmentMixin.get_next_fragment', FR + 'get_header_length'],
            assumptions=['generator protocol: successive __next__() calls return the successive yields of the generator body, '
                         'then raise StopIteration (Python semantics)'])(_get_next_fragment(_c))


@harness('c03.data_to_fragments_if_required[unfragmented]', ['C03', 'C01'],
         functions=['rsocket/frame_fragmenter.py::data_to_fragments_if_required'])
def unfragmented(E):
    data, md = opt_bytes(E, 'data', 'bytes'), opt_bytes(E, 'metadata', 'bytes')
    hdr = [6, 10][E.path.choice(2, 'hdr')]
    g = E.call(E.lookup('rsocket/frame_fragmenter.py::data_to_fragments_if_required'), [data, md, hdr, None, E.fresh_bool('lh')])
    out = []
    E.run_generator(g, lambda v: out.append(v))
    E.cover('unfragmented')
    E.prove('unfragmented:single_fragment', len(out) == 1 and isinstance(out[0], SObj) and out[0].cls is E.lookup(FRAG))
    f0 = out[0]
    E.prove('unfragmented:whole_payload', f0.attrs['data'] is data and f0.attrs['metadata'] is md)
    E.prove('unfragmented:first_and_not_followed', f0.attrs['is_first'] is True and f0.attrs['is_last'] is None)


@harness('c03.lemma.wire_length_formula', ['C03'], functions=[],
         desc='length of the wire-format spec encoding of a fragment frame = header + [3 + metadata] + data (used by the size clause)')
def enc_length(E):
    for cname, hdr in FRAGMENTABLE.items():
        t = TYPE_ID[cname]
        md, d = E.fresh_bytes('md', 0, (1 << 24) - 1), E.fresh_bytes('d')
        f = dict(stream_id=E.fresh_int('s', 0, 0x7FFFFFFF), flags_ignore=E.fresh_bool('i'), metadata=md, data=d,
                 flags_follows=E.fresh_bool('f'), flags_complete=E.fresh_bool('c'), flags_next=E.fresh_bool('n'),
                 initial_request_n=E.fresh_int('n', 0, 0xFFFFFFFF))
        enc = W.ENC(t, f)
        lm, ld = md.len_term(), d.len_term()
        E.prove('lemma:wire_length[%s]' % cname, lift_bytes(enc).len_term() == hdr + z3.If(lm > 0, 3 + lm, 0) + ld)
    E.cover('lemma')


@harness('c03.assert_valid_fragment_size', ['C03'], functions=['rsocket/rsocket_base.py::RSocketBase._assert_valid_fragment_size'])
def valid_size(E):
    sock = new_obj(E, 'rsocket/rsocket_server.py::RSocketServer')
    fs = E.input('fragment_size', E.fresh_int('fs')) if E.path.choice(2, 'fs') else None
    try:
        E.call(E.getattr(sock, '_assert_valid_fragment_size'), [fs])
    except PyExc as e:
        E.cover('rejected')
        E.prove('size:rejects_only_below_64', fs is not None and I(fs) < 64)
        E.prove('size:raises_RSocketError', e.value.cls.issubclass(E.lookup('rsocket/exceptions.py::RSocketError')))
        return
    E.cover('accepted')
    E.prove('size:accepts_none_or_at_least_64', True if fs is None else I(fs) >= 64)


# =========================================================================== reassembly (FrameFragmentCache)

CACHE = 'rsocket/frame_fragment_cache.py::FrameFragmentCache'


def shaped(E, name, kind):
    if kind == 'none':
        return None
    if kind == 'empty':
        return b''
    return E.input(name, E.fresh_bytes(name, 1))


def _cache_step(cur_cls, next_cls):
    """One append() step: cache entry `cur` (None = absent) of class cur_cls holding md[:a], d[:b]; next frame carries
    md[a:a2], d[b:b2].  Fold step of the reassembly lemma + frame clause (other streams untouched)."""
    def run(E):
        cache = E.call(E.lookup(CACHE), [])
        table = M.new_smap(E, 'cache')
        table.valfn = lambda E_, m, k: SOpaque('frame', 'cached[%s]' % z3.simplify(I(k)))
        cache.attrs['_frames_by_stream_id'] = table
        s = E.input('stream_id', E.fresh_int('sid', 1, 0x7FFFFFFF))
        md, d = E.input('metadata', E.fresh_bytes('md')), E.input('data', E.fresh_bytes('d'))
        shapes = ['none', 'empty', 'bytes']
        cur = None
        if cur_cls is not None:
            cur = E.call(E.lookup(FR + cur_cls), [])
            E.setattr(cur, 'stream_id', s)
            E.setattr(cur, 'flags_follows', True)
            cmk, cdk = shapes[E.path.choice(3, 'cur-md')], shapes[E.path.choice(3, 'cur-data')]
            a = E.fresh_int('a', 0) if cmk == 'bytes' else 0
            b = E.fresh_int('b', 0) if cdk == 'bytes' else 0
            E.assume(z3.And(I(a) <= md.len_term(), I(b) <= d.len_term()))
            if cmk == 'bytes':
                E.assume(I(a) >= 1)
            if cdk == 'bytes':
                E.assume(I(b) >= 1)
            E.setattr(cur, 'metadata', None if cmk == 'none' else M.b_slice(E, md, 0, a))
            E.setattr(cur, 'data', None if cdk == 'none' else M.b_slice(E, d, 0, b))
            cur_complete0 = E.fresh_bool('cur_complete')
            E.setattr(cur, 'flags_complete', cur_complete0)
            if cur_cls in ('RequestStreamFrame', 'RequestChannelFrame'):
                E.setattr(cur, 'initial_request_n', E.fresh_int('n0', 1, 0x7FFFFFFF))
            M.smap_set(E, table, s, cur)
        else:
            a = b = 0
            E.path.add(z3.Not(z3.Select(table.has, I(s))))
        has0 = table.has
        nxt = E.call(E.lookup(FR + next_cls), [])
        E.setattr(nxt, 'stream_id', s)
        nmk, ndk = shapes[E.path.choice(3, 'next-md')], shapes[E.path.choice(3, 'next-data')]
        a2 = E.fresh_int('a2', 0) if nmk == 'bytes' else a
        b2 = E.fresh_int('b2', 0) if ndk == 'bytes' else b
        E.assume(z3.And(I(a2) >= I(a), I(a2) <= md.len_term(), I(b2) >= I(b), I(b2) <= d.len_term()))
        if nmk == 'bytes':
            E.assume(I(a2) > I(a))
        if ndk == 'bytes':
            E.assume(I(b2) > I(b))
        E.setattr(nxt, 'metadata', None if nmk == 'none' else M.b_slice(E, md, a, a2))
        E.setattr(nxt, 'data', None if ndk == 'none' else M.b_slice(E, d, b, b2))
        follows = E.path.choice(2, 'follows') == 1
        E.setattr(nxt, 'flags_follows', follows)
        ncomplete = E.input('last_complete', E.fresh_bool('next_complete'))
        E.setattr(nxt, 'flags_complete', ncomplete)
        if next_cls == 'PayloadFrame':
            E.setattr(nxt, 'flags_next', E.fresh_bool('next_next'))
        P = E.prove
        x = z3.Int(E.path.fresh_name('sk.other'))
        try:
            r = E.call(E.getattr(cache, 'append'), [nxt])
        except PyExc as e:
            E.cover('rejected')
            P('cache:rejects_only_non_payload_continuation', cur is not None and next_cls != 'PayloadFrame')
            P('cache:raises_RSocketFrameFragmentDifferentType',
              e.value.cls.issubclass(E.lookup('rsocket/exceptions.py::RSocketFrameFragmentDifferentType')))
            P('cache:rejection_leaves_cache', cache.attrs['_frames_by_stream_id'].has.eq(has0))
            return
        has1 = cache.attrs['_frames_by_stream_id'].has
        P('cache:other_streams_untouched', z3.Implies(x != I(s), z3.Select(has1, x) == z3.Select(has0, x)))
        acc = cur if cur is not None else nxt
        if cur is not None:
            P('cache:continuation_must_be_payload', next_cls == 'PayloadFrame')
        if follows:
            E.cover('accumulated')
            P('cache:accumulating_returns_nothing', r is None)
            P('cache:entry_kept', z3.Select(has1, I(s)))
            P('cache:entry_is_the_first_fragment_frame', M.smap_get_value(E, cache.attrs['_frames_by_stream_id'], s) is acc)
        else:
            E.cover('closed')
            P('cache:closing_returns_accumulated_frame', r is acc)
            P('cache:entry_removed', z3.Not(z3.Select(has1, I(s))))
        # fold step: accumulated content is the longer prefix
        P('cache:metadata_is_prefix', M.b_eq_goal(E, W.bval(E.getattr(acc, 'metadata')), M.b_slice(E, md, 0, a2), 'cm'))
        P('cache:data_is_prefix', M.b_eq_goal(E, W.bval(E.getattr(acc, 'data')), M.b_slice(E, d, 0, b2), 'cd'))
        P('cache:class_and_stream_of_first_fragment', acc.cls is E.lookup(FR + (cur_cls or next_cls))
          and I(E.getattr(acc, 'stream_id')) == I(s))
        if cur is not None and cur_cls in ('RequestStreamFrame', 'RequestChannelFrame'):
            P('cache:initial_request_n_kept', I(E.getattr(acc, 'initial_request_n')) == I(cur.attrs['initial_request_n']))
        if not follows and (cur_cls or next_cls) in ('PayloadFrame', 'RequestChannelFrame'):
            tag = 'cache:complete_flag_of_last_fragment[%s]' % (cur_cls or next_cls)
            P(tag, B(E.truth(E.getattr(acc, 'flags_complete'))) == B(ncomplete))
        if not follows and (cur_cls or next_cls) == 'PayloadFrame':
            # every fragment of a PAYLOAD carries the original's next flag (c03.new_frame_fragment); the reassembled frame
            # takes it from the closing fragment, like the complete flag
            P('cache:next_flag_of_last_fragment[PayloadFrame]',
              B(E.truth(E.getattr(acc, 'flags_next'))) == B(E.truth(E.getattr(nxt, 'flags_next'))))
    return run


for _cur in [None] + list(FRAGMENTABLE):
    for _nxt in (['PayloadFrame'] if _cur else list(FRAGMENTABLE)) + (['RequestResponseFrame'] if _cur == 'PayloadFrame' else []):
        harness('c03.cache.append[entry=%s,frame=%s]' % (_cur, _nxt), ['C03', 'C01', 'C10'],
                functions=[CACHE + '.append', CACHE + '._frame_fragment_builder', CACHE + '._merge_frame_content_inplace',
                           CACHE + '.__init__', FR + 'is_blank'], replay='c03_cache')(_cache_step(_cur, _nxt))


@harness('c03.cache.remove', ['C03', 'C10'], functions=[CACHE + '.remove'])
def cache_remove(E):
    cache = E.call(E.lookup(CACHE), [])
    table = M.new_smap(E, 'cache')
    table.valfn = lambda E_, m, k: SOpaque('frame', 'cached')
    cache.attrs['_frames_by_stream_id'] = table
    has0 = table.has
    s = E.fresh_int('sid')
    E.call(E.getattr(cache, 'remove'), [s])
    E.cover('removed')
    x = z3.Int(E.path.fresh_name('sk.x'))
    E.prove('cache.remove:removes_exactly_s', z3.Select(cache.attrs['_frames_by_stream_id'].has, x) == z3.And(z3.Select(has0, x), x != I(s)))


@harness('c03.fragmenter.two_modes', ['C03', 'C01'], functions=[FF + '.__init__', FF + '._get_next_fragment_body_size'],
         assumptions=['concrete fragment size 64 and header sizes 6 / 10, so that any memo keyed on them is exercised'])
def fragmenter_two_modes(E):
    """A fragmenter's budgets are a function of ITS OWN header size, fragment size and framing mode: two fragmenters of one
    process that differ only in the framing mode (one transport with the 3-byte length prefix, one without), created in
    either order, each budget the prefix exactly when their own transport has it."""
    hdr = [6, 10][E.path.choice(2, 'header')]
    order = [True, False] if E.path.choice(2, 'first-created-for') == 0 else [False, True]
    ok = True
    for lh in order:
        fr = E.call(E.lookup(FF), [E.fresh_bytes('d'), E.fresh_bytes('m'), hdr, 64, lh])
        first = E.call(E.getattr(fr, '_get_next_fragment_body_size'), [])
        E.setattr(fr, '_is_first', False)
        later = E.call(E.getattr(fr, '_get_next_fragment_body_size'), [])
        ok = ok and first == 64 - hdr - (3 if lh else 0) and later == 64 - 6 - (3 if lh else 0)
    E.cover('both-created')
    E.prove('fragmenter:budgets_depend_only_on_its_own_sizes_and_framing_mode[in either order of creation]', ok)
