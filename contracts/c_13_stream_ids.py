"""C13 - stream ids: parity, never zero, never a live id, wrap-around, fails only when full,
reuse of a live id by the peer is rejected.   (DESIGN 5/C13)"""
import z3

from pyvc.values import *   # noqa
from pyvc.engine import LoopSpec, EXC
from pyvc.harness import harness, new_obj, OpaqueLog, instantiate_forall
from pyvc import models as M

SC = 'rsocket/stream_control.py::StreamControl'
ALLOC = 'rsocket/stream_control.py::StreamControl.allocate_stream'
SPACES = [0x7FFFFFFF, 3, 7, 15, 0x7F]          # shipped id space + the reduced spaces the suite itself uses


def mk_state(E, Mx, handlers=None):
    """Arbitrary StreamControl state satisfying Inv13 for maximum id Mx (= 2^k - 1)."""
    cur = E.input('current_stream_id', E.fresh_int('cur', 0, Mx))
    table = E.input('streams', M.new_smap(E, 'streams'))
    if handlers is not None:
        table.valfn = handlers
    sc = new_obj(E, SC, _first_stream_id=E.fresh_int('first', 0, Mx), _current_stream_id=cur, _streams=table,
                 _maximum_stream_id=Mx)
    x = z3.Int('inv.x')
    # Inv13: keys of the table lie in 1..M
    E.path.add(z3.ForAll([x], z3.Implies(z3.Select(table.has, x), z3.And(x >= 1, x <= Mx))))
    return sc, cur, table


def unavailable(table_has, x):
    return z3.Or(x == 0, z3.Select(table_has, x))


def _found_flag(ctx):
    """The loop's "found" flag, if the loop is written with one (`while not found:`); None for the `while True: ... return` form."""
    try:
        return B(ctx.local('available_stream_id_found', ('while_names',)))
    except Unsupported:
        return None


def alloc_loop_spec(E, Mx, cur0, has0):
    mod = Mx + 1

    def inv(ctx):
        s = ctx.self
        k = I(ctx.k)
        cur = I(s.attrs['_current_stream_id'])
        try:
            att = I(ctx.local('attempt_counter', ('aug', 1)))
        except Unsupported:
            att = None               # a counted loop (`for _ in range(attempts)`) has no counter of its own: k is the loop index
        found = _found_flag(ctx)
        i = z3.Int('inv.i')
        upto = k - z3.If(found, 1, 0) if found is not None else k
        tried = z3.ForAll([i], z3.Implies(z3.And(i >= 1, i <= upto), unavailable(has0, (I(cur0) + 2 * i) % mod)))
        out = [
            ('cur=cur0+2k mod M+1', cur == (I(cur0) + 2 * k) % mod),
            ('counter=k', (att == k) if att is not None else True),
            ('k bounded', z3.And(k >= 0, 2 * k <= Mx + 1)),
            ('all earlier candidates unavailable', tried),
            ('table unchanged', s.attrs['_streams'].has.eq(has0)),
        ]
        if found is not None:
            out.insert(2, ('found<=>k>=1 and cur available', found == z3.And(k >= 1, z3.Not(unavailable(has0, cur)))))
        return out

    def variant(ctx):
        found = _found_flag(ctx)
        return Mx + 3 - 2 * I(ctx.k) - (z3.If(found, 1, 0) if found is not None else 0)
    return LoopSpec(inv, variant)


def _alloc(Mx):
    def run(E):
        sc, cur0, table = mk_state(E, Mx)
        has0 = table.has
        p = I(cur0) % 2
        E.loop_specs[(ALLOC, 0)] = alloc_loop_spec(E, Mx, cur0, has0)
        f = E.lookup(ALLOC)
        mod = Mx + 1
        i = z3.Int('inv.i')

        def tried_upto(n):
            return z3.ForAll([i], z3.Implies(z3.And(i >= 1, i <= n), unavailable(has0, (I(cur0) + 2 * i) % mod)))
        try:
            r = E.call(f, [sc])
        except PyExc as e:
            E.cover('raises')
            ctx = E.path.ghost['loops'][(ALLOC, 0)]
            k = I(ctx.k)
            E.prove('raises_only[RSocketStreamAllocationFailure]',
                    e.value.cls.issubclass(E.lookup('rsocket/exceptions.py::RSocketStreamAllocationFailure')))
            # fails only when no id of the endpoint's parity is free: for an arbitrary id x of that parity ...
            x = E.input('free_candidate', E.fresh_int('x', 1, Mx))
            E.assume(I(x) % 2 == p)
            j = ((I(x) - I(cur0)) % mod) / 2
            w = z3.If(j == 0, mod / 2, j)
            found = _found_flag(ctx)
            E.path.add(instantiate_forall(tried_upto(k - z3.If(found, 1, 0) if found is not None else k), w))   # consequence of the (assumed) loop invariant
            E.prove('fails_only_if_full', z3.Select(has0, I(x)))
            E.prove('raise:table_unchanged', sc.attrs['_streams'].has.eq(has0))
            return
        E.cover('returns')
        ctx = E.path.ghost['loops'][(ALLOC, 0)]
        k = I(ctx.k)
        rr = I(r)
        E.prove('post:never_zero', rr != 0)
        E.prove('post:parity', rr % 2 == p)
        E.prove('post:in_range', z3.And(rr >= 1, rr <= Mx))
        E.prove('post:not_active', z3.Not(z3.Select(has0, rr)))
        E.prove('post:current_is_result', I(sc.attrs['_current_stream_id']) == rr)
        E.prove('post:table_unchanged', sc.attrs['_streams'].has.eq(has0))
        # advance by 2, wrap, skip ids in use: r is the FIRST available id in cyclic +2 order after cur0.  The number of steps
        # is the loop counter at the point of return: k when the loop is left through its test, k+1 when it returns from inside
        def first_after(j):
            return z3.And(j >= 1, rr == (I(cur0) + 2 * j) % mod,
                          z3.ForAll([i], z3.Implies(z3.And(i >= 1, i < j), unavailable(has0, (I(cur0) + 2 * i) % mod))))
        E.prove('post:first_free_in_cyclic_order', z3.Or(first_after(k), first_after(k + 1)))
        E.prove('inv13_preserved', z3.And(rr >= 0, rr <= Mx, rr % 2 == p))
    return run


for _M in SPACES:
    harness('c13.allocate_stream[M=%#x]' % _M, ['C13', 'C01'], functions=[ALLOC, SC + '._increment_stream_id'],
            replay='c13_allocate', desc='loop invariant / first-free / fails-only-if-full for maximum id %#x' % _M,
            fallback=r'^c13\.allocate_stream\.unrolled',
            assumptions=['M/2 in `attempt_counter > M / 2` is a float in CPython; treated as an exact real (M < 2^53)'])(_alloc(_M))


def _alloc_unrolled(Mx):
    """No loop contract: the loop is unrolled completely, which is a complete proof for this (reduced) id space and does
    not depend on the shape of the loop - it decides the property also after the allocator has been restructured."""
    def run(E):
        sc, cur0, table = mk_state(E, Mx)
        has0 = table.has
        p = I(cur0) % 2
        mod = Mx + 1
        E.unroll_limit = Mx + 4
        ids = [x for x in range(1, Mx + 1)]
        try:
            r = E.call(E.getattr(sc, 'allocate_stream'), [])
        except PyExc as e:
            E.cover('raises')
            E.prove('unrolled:raises_only[RSocketStreamAllocationFailure]',
                    e.value.cls.issubclass(E.lookup('rsocket/exceptions.py::RSocketStreamAllocationFailure')))
            E.prove('unrolled:fails_only_if_full',
                    z3.And([z3.Implies(p == x % 2, z3.Select(has0, z3.IntVal(x))) for x in ids]))
            E.prove('unrolled:raise_leaves_table', sc.attrs['_streams'].has.eq(has0))
            return
        E.cover('returns')
        rr = I(r)
        E.prove('unrolled:never_zero_right_parity_in_range', z3.And(rr != 0, rr % 2 == p, rr >= 1, rr <= Mx))
        E.prove('unrolled:not_active', z3.Not(z3.Select(has0, rr)))
        E.prove('unrolled:current_is_result', I(sc.attrs['_current_stream_id']) == rr)
        E.prove('unrolled:table_unchanged', sc.attrs['_streams'].has.eq(has0))
        # first available id in cyclic +2 order after cur0
        steps = [(I(cur0) + 2 * i) % mod for i in range(1, mod // 2 + 1)]
        first = z3.Or([z3.And(rr == steps[j], z3.Not(unavailable(has0, steps[j])),
                              *[unavailable(has0, steps[i]) for i in range(j)]) for j in range(len(steps))])
        E.prove('unrolled:first_free_in_cyclic_order', first)
    return run


from pyvc.harness import thorough as _thorough   # noqa: E402

for _M in [3, 7, 15] + ([0x1F, 0x3F] if _thorough() else []):
    harness('c13.allocate_stream.unrolled[M=%#x]' % _M, ['C13'], functions=[ALLOC, SC + '._increment_stream_id'],
            replay='c13_allocate', desc='complete unrolling on the reduced id space %#x (no loop contract needed)' % _M,
            max_paths=5000)(_alloc_unrolled(_M))


@harness('c13.init', ['C13'], functions=[SC + '.__init__', ALLOC])
def init(E):
    first = E.input('first_stream_id', E.fresh_int('first', 1, 2))
    if E.decide(mk_bool(I(first) == 1), 'first'):
        first = 1
    else:
        first = 2
    sc = E.call(E.lookup(SC), [first])
    E.cover('init')
    cur = I(sc.attrs['_current_stream_id'])
    Mx = sc.attrs['_maximum_stream_id']
    E.prove('init:max_is_31bit', Mx == 0x7FFFFFFF)
    E.prove('init:inv13', z3.And(cur >= 0, cur <= Mx, cur % 2 == first % 2))
    E.prove('init:table_empty', len(sc.attrs['_streams']) == 0)
    r = E.call(E.getattr(sc, 'allocate_stream'), [])
    E.prove('init:first_allocation_is_first_id', I(r) == first)
    r2 = E.call(E.getattr(sc, 'allocate_stream'), [])
    E.prove('init:second_allocation_advances_by_2', I(r2) == first + 2)


@harness('c13.first_ids', ['C13', 'C17'], functions=['rsocket/rsocket_client.py::RSocketClient._get_first_stream_id',
                                                    'rsocket/rsocket_server.py::RSocketServer._get_first_stream_id'])
def first_ids(E):
    c = new_obj(E, 'rsocket/rsocket_client.py::RSocketClient')
    s = new_obj(E, 'rsocket/rsocket_server.py::RSocketServer')
    E.cover('ids')
    E.prove('client_first_id_is_1', E.call(E.getattr(c, '_get_first_stream_id'), []) == 1)
    E.prove('server_first_id_is_2', E.call(E.getattr(s, '_get_first_stream_id'), []) == 2)


def _handler_model(E, m, k):
    return SOpaque('handler', 'table[%s]' % z3.simplify(I(k)))


@harness('c13.finish_stream', ['C13', 'C10'], functions=[SC + '.finish_stream'], replay='c13_ops')
def finish(E):
    sc, cur0, table = mk_state(E, 0x7FFFFFFF, _handler_model)
    has0 = table.has
    s = E.input('stream_id', E.fresh_int('s'))
    E.call(E.getattr(sc, 'finish_stream'), [s])
    E.cover('finish')
    x = z3.Int(E.path.fresh_name('sk.x'))
    has1 = sc.attrs['_streams'].has
    E.prove('finish:removes_exactly_s', z3.Select(has1, x) == z3.And(z3.Select(has0, x), x != I(s)))
    E.prove('finish:current_unchanged', I(sc.attrs['_current_stream_id']) == I(cur0))
    E.prove('finish:id_available_again', z3.Not(z3.Select(has1, I(s))))


@harness('c13.register_stream', ['C13', 'C01'], functions=[SC + '.register_stream'], replay='c13_ops')
def register(E):
    Mx = 0x7FFFFFFF
    sc, cur0, table = mk_state(E, Mx, _handler_model)
    has0 = table.has
    s = E.input('stream_id', E.fresh_int('s'))
    h = SOpaque('handler', 'new')
    try:
        E.call(E.getattr(sc, 'register_stream'), [s, h])
    except PyExc as e:
        E.cover('register-raises')
        E.prove('register:raises_iff_zero_or_too_large', z3.Or(I(s) == 0, I(s) > Mx))
        E.prove('register:raise_leaves_table', sc.attrs['_streams'].has.eq(has0))
        return
    E.cover('register-ok')
    E.prove('register:accepts_only_valid', z3.And(I(s) != 0, I(s) <= Mx))
    x = z3.Int(E.path.fresh_name('sk.x'))
    has1 = sc.attrs['_streams'].has
    E.prove('register:adds_exactly_s', z3.Select(has1, x) == z3.Or(z3.Select(has0, x), x == I(s)))
    E.prove('register:handler_stored', M.smap_get_value(E, sc.attrs['_streams'], s) is h)
    y = E.fresh_int('other')
    E.assume(z3.And(I(y) != I(s), z3.Select(has0, I(y))))
    E.prove('register:other_entries_unchanged', M.smap_get_value(E, sc.attrs['_streams'], y).ident == _handler_model(E, None, y).ident)


@harness('c13.assert_stream_id_available', ['C13'], functions=[SC + '.assert_stream_id_available'], replay='c13_ops')
def assert_available(E):
    sc, cur0, table = mk_state(E, 0x7FFFFFFF, _handler_model)
    has0 = table.has
    s = E.input('stream_id', E.fresh_int('s'))
    try:
        E.call(E.getattr(sc, 'assert_stream_id_available'), [s])
    except PyExc as e:
        E.cover('in-use')
        E.prove('avail:raises_only_if_active', z3.Select(has0, I(s)))
        E.prove('avail:raises_RSocketStreamIdInUse',
                e.value.cls.issubclass(E.lookup('rsocket/exceptions.py::RSocketStreamIdInUse')))
        E.prove('avail:is_protocol_error_REJECTED',
                e.value.cls.issubclass(E.lookup('rsocket/exceptions.py::RSocketProtocolError'))
                and e.value.attrs.get('error_code') == E.lookup('rsocket/error_codes.py::ErrorCode').members['REJECTED'])
        E.prove('avail:state_unchanged', sc.attrs['_streams'].has.eq(has0))
        return
    E.cover('free')
    E.prove('avail:passes_only_if_free', z3.Not(z3.Select(has0, I(s))))
    E.prove('avail:state_unchanged', sc.attrs['_streams'].has.eq(has0))


@harness('c13.handle_stream', ['C13', 'C01', 'C07'], functions=[SC + '.handle_stream'])
def handle_stream(E):
    sc, cur0, table = mk_state(E, 0x7FFFFFFF, _handler_model)
    has0 = table.has
    log = OpaqueLog(E)
    s = E.input('stream_id', E.fresh_int('s'))
    frame = SOpaque('frame', 'frame', attrs={'stream_id': s})
    r = E.call(E.getattr(sc, 'handle_stream'), [frame])
    E.cover('handled')
    present = z3.Select(has0, I(s))
    if isinstance(r, bool):
        E.prove('dispatch:returns_presence', present if r else z3.Not(present))
    elif isinstance(r, SBool):
        E.prove('dispatch:returns_presence', B(r) == present)
    else:
        E.prove('dispatch:returns_presence[result must be a bool]', False)
        return
    if r is True:
        E.prove('dispatch:exactly_one_delivery', len(log.calls) == 1)
        c = log.calls[0]
        E.prove('dispatch:to_handler_registered_under_that_id',
                c[0].ident == _handler_model(E, None, s).ident and c[1] == 'frame_received' and c[2][0] is frame)
    else:
        E.prove('dispatch:nothing_delivered_for_unknown_id', len(log.calls) == 0)
    E.prove('dispatch:table_unchanged', sc.attrs['_streams'].has.eq(has0))
