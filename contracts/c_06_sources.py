"""C06 (credit accounting) and C09 (cancellation) for the library's own stream sources, and the awaitable collector.
(DESIGN 5/C06, 5/C09, Appendix A.6)

Ghost counters per publisher: credit (sum of n passed to request), deq (sum of n taken from the request queue),
gen (elements put on the payload queue), deliv (subscriber calls).  Step contracts:
  _generate_next_n(n) yields at most n elements and stops at the first complete-flagged one      (loop invariant)
  one iteration of queue_next_n dequeues one n and enqueues exactly what _generate_next_n(n) yields, in order
  one iteration of feed_subscriber dequeues one element and delivers exactly that element once
=> gen <= deq <= credit, deliv <= gen, FIFO: nothing is emitted beyond the granted credit, nothing dropped or duplicated."""
import z3

from pyvc.values import *   # noqa
from pyvc.engine import LoopSpec, EXC, GenObj
from pyvc.harness import harness, new_obj, OpaqueLog
from pyvc import models as M
from pyvc import aio

SFG = 'rsocket/streams/stream_from_generator.py::StreamFromGenerator'
SFA = 'rsocket/streams/stream_from_async_generator.py::StreamFromAsyncGenerator'
AR = 'rsocket/async_helpers.py::async_range'
COL = 'rsocket/awaitable/collector_subscriber.py::CollectorSubscriber'


@harness('c06.async_range', ['C06'], functions=[AR], assumptions=['asyncio.sleep(0) is a bare suspension point'])
def async_range(E):
    n = E.fresh_int('count')
    out = []
    st = {}
    E.suspend_hook = lambda E_, what: st.__setitem__('suspends', st.get('suspends', 0) + 1)

    def inv(ctx):
        if ctx.phase == 'step':
            return [('one element per iteration: the index itself', len(out) - st['n0'] == 1 and I(out[-1]) == I(ctx.k) - 1)]
        return []

    def havoc(ctx):
        st['n0'] = len(out)
    E.loop_specs[(AR, 0)] = LoopSpec(inv, None, havoc=havoc)
    E.loop_specs[(AR, 0)].nonterminating = True     # bounded for-loop over range(count): terminates by construction
    g = E.call(E.lookup(AR), [n])
    E.run_generator(g, lambda v: out.append(v))
    E.cover('finished')
    ctx = E.path.ghost['loops'][(AR, 0)]
    E.prove('async_range:yields_exactly_count_elements', I(ctx.k) == z3.If(I(n) > 0, I(n), 0))


def range_stub(E):
    """async_range(n) through its contract (c06.async_range): n elements 0..n-1, with a bare suspension point
    (asyncio.sleep(0)) before each element - which is what keeps the event loop responsive while a large credit is served"""
    def each(E_):
        E_.path.ghost['cooperative_yields'] = E_.path.ghost.get('cooperative_yields', 0) + 1
    E.stubs[AR] = lambda E_, f, a, k: M.SymRange(0, a[0], on_each=each)


def mk_source(E, cls=SFG, started=False):
    E.import_module('asyncio')
    E.import_module('datetime')
    factory = SOpaque('callable', 'generator-factory')
    src = E.call(E.lookup(cls), [factory])
    return src, factory


def _generate_next_n(cls):
    GN = cls + '._generate_next_n'

    def run(E):
        src, factory = mk_source(E, cls)
        range_stub(E)
        n = E.fresh_int('n', 1, 0x7FFFFFFF)
        it = SOpaque('iterator', 'iteration')
        src.attrs['_iteration'] = it
        produced = []

        def nxt(E_, o, m, a, k):
            # the application's generator: next element (payload, is_complete) or exhausted
            if E_.path.choice(2, 'generator-exhausted') == 1:
                if cls == SFG:
                    return a[1] if len(a) > 1 else E_.throw('StopIteration')
                E_.throw('StopAsyncIteration')
            v = (SOpaque('payload', 'element#%d' % len(produced)), E_.fresh_bool('is_complete'))
            produced.append(v)
            return v if cls == SFG else aio.Awaitable('ready', result=v)
        log = OpaqueLog(E, returns={'__next__': nxt, '__anext__': nxt})
        E.builtins['next'] = M.Builtin('next', lambda g, *d: nxt(E, g, '__next__', (g,) + tuple(d), {}))
        out = []
        st = {}
        E.suspend_hook = lambda E_, what: st.__setitem__('susp', st.get('susp', 0) + 1)

        def inv(ctx):
            k = I(ctx.k)
            if ctx.phase == 'entry':
                return [('nothing yielded yet', len(out) == 0),
                        ('no complete-flagged element handed out yet', E.truth(ctx.local('is_complete_sent', ('assigned', 'False'))) is False)]
            if ctx.phase == 'head':
                return []
            new = out[st['n0']:]
            np = produced[st['p0']:]
            flag_now = B(E.truth(new[-1][1])) if new else B(st['last_complete'])
            return [('at most one element per unit of credit', len(new) <= 1),
                    ('the function remembers whether the last element it handed out was flagged complete',
                     B(E.truth(ctx.local('is_complete_sent', ('assigned', 'False')))) == flag_now),
                    ('the producer yields control to the event loop for every element it takes from the generator'
                     '[a peer granting a huge request-n must not block the connection]',
                     E.path.ghost.get('cooperative_yields', 0) - st['y0'] + st.get('susp', 0) >= len(np)),
                    ('the yielded element is exactly the one taken from the generator', len(new) == len(np) and all(a is b for a, b in zip(new, np)))]

        def havoc(ctx):
            st['n0'], st['p0'] = len(out), len(produced)
            st['y0'] = E.path.ghost.get('cooperative_yields', 0)
            st['susp'] = 0
            st['k'] = ctx.k
            # ghost: was the last element handed out so far (in this call) flagged complete?  the local flag mirrors it
            st['last_complete'] = E.fresh_bool('last_complete')
            ctx.set_local('is_complete_sent', st['last_complete'], ('assigned', 'False'))
        spec = LoopSpec(inv, None, havoc=havoc)
        spec.nonterminating = True
        E.loop_specs[(GN, 0)] = spec
        g = E.call(E.getattr(src, '_generate_next_n'), [n])
        try:
            E.run_generator(g, lambda v: out.append(v))
        except PyExc as e:
            E.cover('finished-iterator')
            E.prove('generate_next_n:only_FinishedIterator_escapes', e.value.cls.name == 'FinishedIterator')
            # FinishedIterator makes the feeder emit an empty completion: legitimate only if the stream was not completed yet
            if 'last_complete' in st:
                last = B(E.truth(out[-1][1])) if out[st['n0']:] else B(st['last_complete'])
                E.prove('generate_next_n:exhaustion_is_signalled_only_if_no_complete_flagged_element_was_handed_out[no second completion]',
                        z3.Not(last))
            return
        E.cover('finished')
        if any(x.startswith('generator-exhausted:1') for x in E.path.sig) and 'last_complete' in st:
            last = B(E.truth(out[-1][1])) if out[st['n0']:] else B(st['last_complete'])
            E.prove('generate_next_n:silent_end_on_exhaustion_only_after_a_complete_flagged_element[otherwise the stream would never complete]', last)
        ctx = E.path.ghost['loops'][(GN, 0)]
        # yielded count <= iterations <= n :  each iteration yields at most one (invariant), iterations = k <= n
        E.prove('generate_next_n:iterations_bounded_by_the_credit', I(ctx.k) <= I(n))
    return run


harness('c06.generate_next_n[generator]', ['C06', 'C12', 'C07', 'C08', 'C01'], functions=[SFG + '._generate_next_n'],
        assumptions=['async_range used through its contract (c06.async_range)', 'the application generator is abstract'])(_generate_next_n(SFG))
harness('c06.generate_next_n[async-generator]', ['C06', 'C12', 'C07', 'C08', 'C01'], functions=[SFA + '._generate_next_n'],
        assumptions=['async_range used through its contract (c06.async_range)', 'the application generator is abstract'])(_generate_next_n(SFA))


QNN = SFG + '.queue_next_n'


@harness('c06.queue_next_n', ['C06', 'C12', 'C07', 'C08', 'C01'], functions=[QNN, SFG + '._start_generator'],
         assumptions=['_generate_next_n(n) used through its contract: yields at most n elements (c06.generate_next_n); modelled here by a '
                      'generic batch of 0..2 elements', 'asyncio.Queue modelled as FIFO'])
def queue_next_n(E):
    src, factory = mk_source(E)
    sub = SOpaque('subscriber', 'subscriber')
    src.attrs['_subscriber'] = sub
    n = E.fresh_int('n', 1, 0x7FFFFFFF)
    E.call(E.getattr(src.attrs['_request_n_queue'], 'put_nowait'), [n])
    batch_len = E.path.choice(3, 'batch')
    last_complete = E.path.choice(2, 'last-complete') == 1
    outcome = E.path.choice(3, 'generator-outcome')       # 0 ok, 1 FinishedIterator, 2 application error
    batch = [(SOpaque('payload', 'e%d' % i), (i == batch_len - 1 and last_complete)) for i in range(batch_len)]
    asked = []

    def gen_stub(E_, f, a, k):
        asked.append(a[1])
        items = list(batch)
        if outcome == 1:
            items.append(('raise', E_.lookup('rsocket/streams/exceptions.py::FinishedIterator')))
        if outcome == 2:
            items.append(('raise', EXC['ValueError']))
        return GenStub(items)
    E.stubs[SFG + '._generate_next_n'] = gen_stub
    the_generator = SOpaque('generator', 'gen')
    iterated = []
    # the application's generator factory is application code: it may fail when it is called, before any element exists
    factory_fails = E.path.choice(2, 'generator-factory-raises') == 1
    ferr = E.make_exc('RuntimeError', 'cannot open the source')

    def call_factory(E_, o, m, a, k):
        if factory_fails:
            raise PyExc(ferr)
        return the_generator
    log = OpaqueLog(E, returns={'__call__': call_factory})
    E.builtins['iter'] = M.Builtin('iter', lambda v: (iterated.append(v), SOpaque('iterator', 'iteration'))[1])
    tasks = []
    E.create_task_hook = lambda E_, t, coro: tasks.append(t)
    pf, nf = aio.new_task(E, None, 'payload-feeder'), aio.new_task(E, None, 'n-feeder')
    src.attrs['_payload_feeder'], src.attrs['_n_feeder'] = pf, nf
    rounds = [0]

    def on_suspend(E_, what):
        rounds[0] += 1
        if what[0] == 'queue.get':
            E_.throw('CancelledError')          # no more credit: the task waits; we end the observation here
        return None
    E.suspend_hook = on_suspend
    spec = LoopSpec(lambda ctx: [], None)
    try:
        E.await_value(E.call(E.getattr(src, 'queue_next_n'), []))
    except PyExc as e:
        E.cover('escaped')
        E.prove('queue_next_n:no_failure_of_application_code_escapes_the_feeder_task[it would leave the requester waiting for ever]', False)
        return
    if factory_fails:
        E.cover('factory-failed')
        E.prove('queue_next_n:a_generator_that_cannot_be_created_fails_the_stream_once', [c[1] for c in log.of(sub)] == ['on_error']
                and log.of(sub)[0][2][0] is ferr)
        E.prove('queue_next_n:and_nothing_is_generated', not asked and not src.attrs['_queue'].attrs['_queue'])
        return
    E.cover('observed')
    q = src.attrs['_queue'].attrs['_queue']
    E.prove('queue_next_n:the_application_generator_is_started_exactly_once_and_that_one_is_iterated',
            len(log.of(factory, '__call__')) == 1 and src.attrs['_generator'] is the_generator and iterated == [the_generator]
            and isinstance(src.attrs['_iteration'], SOpaque) and src.attrs['_iteration'].ident == 'iteration')
    E.prove('queue_next_n:asks_the_generator_for_exactly_the_dequeued_credit', (I(asked[0]) == I(n)) if asked and is_intlike(asked[0]) else False)
    stop_at = next((i for i, b in enumerate(batch) if b[1]), None)
    want = batch if stop_at is None else batch[:stop_at + 1]
    got = [x for x in q]
    if outcome == 1 and stop_at is None:
        E.prove('queue_next_n:exhausted_generator_completes_the_stream_with_one_empty_complete_element',
                len(got) == len(want) + 1 and got[-1][1] is True and got[-1][0].attrs['data'] is None)
        got = got[:-1]
    E.prove('queue_next_n:enqueues_exactly_the_generated_elements_in_order_up_to_the_first_complete',
            len(got) == len(want) and all(g[0] is w[0] and g[1] is w[1] for g, w in zip(got, want)))
    if outcome == 2 and stop_at is None:
        E.prove('queue_next_n:generator_failure_signalled_once_to_the_subscriber', [c[1] for c in log.of(sub)] == ['on_error'])
        E.prove('queue_next_n:after_a_generator_failure_nothing_more_is_fed[payload feeder stopped]', pf.attrs['cancel_requested'] is True)
    else:
        E.prove('queue_next_n:no_error_signal_otherwise', not log.of(sub))


class GenStub:
    """host-level generator yielding a fixed list of items; an item ('raise', cls) raises that exception instead"""

    def __init__(self, items):
        self.items = items

    def _pyvc_iter(self, E):
        for v in self.items:
            if isinstance(v, tuple) and v and v[0] == 'raise':
                raise PyExc(E.make_exc(v[1]))
            yield v


FS = SFG + '.feed_subscriber'


@harness('c06.feed_subscriber', ['C06', 'C01', 'C07', 'C08'], functions=[FS, SFG + '._send_to_subscriber', SFG + '._cancel_n_feeder'],
         assumptions=['asyncio.Queue modelled as FIFO; sleep is a suspension point'])
def feed_subscriber(E):
    src, factory = mk_source(E)
    sub = SOpaque('subscriber', 'subscriber')
    src.attrs['_subscriber'] = sub
    nf = aio.new_task(E, None)
    src.attrs['_n_feeder'] = nf
    p1, p2 = SOpaque('payload', 'first'), SOpaque('payload', 'second')
    kind = E.path.choice(3, 'first-element')
    first = [(p1, False), (p1, True), (None, True)][kind]
    q = src.attrs['_queue']
    E.call(E.getattr(q, 'put_nowait'), [first])
    E.call(E.getattr(q, 'put_nowait'), [(p2, True)])
    done_cb = SOpaque('callable', 'on_complete-callback')
    src.attrs['_on_complete'] = done_cb
    log = OpaqueLog(E)
    E.suspend_hook = lambda E_, what: None
    E.await_value(E.call(E.getattr(src, 'feed_subscriber'), []))
    E.cover('fed')
    sig = log.of(sub)
    if kind == 0:
        E.prove('feed:delivers_each_element_once_in_queue_order',
                [(s[1], s[2]) for s in sig] == [('on_next', (p1, False)), ('on_next', (p2, True))])
    elif kind == 1:
        E.prove('feed:stops_after_the_complete_element', [(s[1], s[2]) for s in sig] == [('on_next', (p1, True))])
        E.prove('feed:later_elements_stay_undelivered', q.attrs['_queue'] == [(p2, True)])
    else:
        E.prove('feed:empty_completion_becomes_on_complete', [s[1] for s in sig] == ['on_complete'])
    E.prove('feed:on_complete_callback_once', len(log.of(done_cb)) == 1)
    E.prove('feed:request_feeder_cancelled_at_the_end', nf.attrs['cancel_requested'] is True and src.attrs['_n_feeder'] is None)


# --------------------------------------------------------------------------- subscribe / request / cancel in every state (C09)

def _source_cancel(cls):
    def run(E):
        src, factory = mk_source(E, cls)
        sub = SOpaque('subscriber', 'subscriber')
        on_cancel = SOpaque('callable', 'on_cancel')
        src.attrs['_on_cancel'] = on_cancel
        tasks = []
        E.create_task_hook = lambda E_, t, coro: tasks.append((t, coro)) if hasattr(coro, 'func') else None
        gen = SOpaque('generator', 'generator')
        log = OpaqueLog(E, returns={'aclose': lambda *a: aio.Awaitable('ready')})
        state = E.path.choice(5, 'state')
        names = ['fresh', 'subscribed', 'subscribed+requested (feeder tasks not run yet)', 'generator started', 'after completion']
        if state >= 1:
            E.call(E.getattr(src, 'subscribe'), [sub])
            E.prove('subscribe:on_subscribe_with_the_source_as_subscription', [(c[1], c[2]) for c in log.of(sub)] == [('on_subscribe', (src,))])
            E.prove('subscribe:payload_feeder_started_once', len(tasks) == 1 and tasks[0][1].func.name == 'feed_subscriber')
        if state >= 2:
            n = E.fresh_int('n', 1, 0x7FFFFFFF)
            E.call(E.getattr(src, 'request'), [n])
            E.call(E.getattr(src, 'request'), [5])
            E.prove('request:credit_queued_with_exactly_the_requested_values_in_order', src.attrs['_request_n_queue'].attrs['_queue'] == [n, 5])
            E.prove('request:credit_feeder_started_once', len(tasks) == 2 and tasks[1][1].func.name == 'queue_next_n')
        if state >= 3:
            src.attrs['_generator'] = gen
            src.attrs['_iteration'] = SOpaque('iterator', 'it')
        if state == 4:
            for t, _ in tasks:
                t.attrs['state'] = 'result'
        n0 = len(log.calls)
        try:
            E.call(E.getattr(src, 'cancel'), [])
        except PyExc as e:
            E.cover('raised')
            E.prove('cancel:never_raises[state: %s]' % names[state], False)
            return
        E.cover('cancelled')
        for t, coro in tasks:
            if t.attrs['state'] == 'pending':
                E.prove('cancel:feeder_%s_cancelled' % coro.func.name, t.attrs['cancel_requested'] is True)
        E.prove('cancel:feeder_references_dropped', src.attrs['_payload_feeder'] is None and src.attrs['_n_feeder'] is None)
        closes = [c for c in log.calls[n0:] if c[0] is gen]
        if state >= 3:
            E.prove('cancel:started_generator_closed_once', len(closes) == 1 and closes[0][1] in ('close', 'aclose'))
        E.prove('cancel:on_cancel_callback_once', len([c for c in log.calls[n0:] if c[0] is on_cancel]) == 1)
        # dispose() is what stop_all_streams calls
        if state < 3:
            try:
                E.call(E.getattr(src, 'dispose'), [])
            except PyExc:
                E.prove('dispose:never_raises[state: %s]' % names[state], False)
    return run


harness('c09.source.cancel[generator]', ['C09', 'C06', 'C11'],
        functions=[SFG + '.' + n for n in ('__init__', 'subscribe', 'request', 'cancel', '_cancel_feeders', '_cancel_payload_feeder',
                                           '_cancel_n_feeder', '_cancel_generator', 'dispose')], replay='c09_source_cancel',
        assumptions=['asyncio.create_task does not run the coroutine before the creator suspends (Appendix B): so "requested but feeder not '
                     'run yet" is a reachable state (CANCEL read in the same chunk as the request)'])(_source_cancel(SFG))
harness('c09.source.cancel[async-generator]', ['C09', 'C06', 'C11'], functions=[SFA + '._cancel_generator', SFA + '.__init__'],
        replay='c09_source_cancel')(_source_cancel(SFA))


# --------------------------------------------------------------------------- CollectorSubscriber (awaitable API)

@harness('c06.collector_subscriber', ['C06', 'C07', 'C08', 'C09', 'C01'], functions=[COL + '.' + n for n in ('__init__', 'on_next', 'on_complete', 'on_error',
                                                                                                  'on_subscribe', 'cancel', 'request')],
         replay='c06_collector')
def collector(E):
    E.import_module('asyncio')
    rate = E.fresh_int('limit_rate', 1, 0x7FFFFFFF)
    use_count = E.path.choice(2, 'limit_count') == 1
    count = E.fresh_int('limit_count', 1) if use_count else None
    col = E.call(E.lookup(COL), [rate, count])
    E.prove('collector:starts_with_an_empty_window_nothing_collected_and_not_done',
            col.attrs['_received_count'] == 0 and col.attrs['_total_received_count'] == 0 and col.attrs['values'] == []
            and col.attrs['error'] is None and col.attrs['is_done'].attrs['flag'] is False
            and col.attrs['_limit_rate'] is rate and col.attrs['_limit_count'] is count)
    sub = SOpaque('subscription', 'subscription')
    log = OpaqueLog(E)
    E.call(E.getattr(col, 'on_subscribe'), [sub])
    # arbitrary reachable state: received so far
    rc = E.fresh_int('received_in_window', 0)
    tot = E.fresh_int('total_received', 0)
    E.assume(z3.And(I(rc) < I(rate), I(rc) <= I(tot)))
    if use_count:
        E.assume(I(tot) < I(count))
    col.attrs['_received_count'] = rc
    col.attrs['_total_received_count'] = tot
    v = SOpaque('payload', 'element')
    complete = E.path.choice(2, 'is_complete') == 1
    E.call(E.getattr(col, 'on_next'), [v, complete])
    E.cover('received')
    ops = [(c[1], c[2]) for c in log.of(sub)]
    done = col.attrs['is_done'].attrs['flag']
    E.prove('collector:element_collected_once', col.attrs['values'] == [v])
    window_full = I(rc) + 1 == I(rate)
    reached = (I(tot) + 1 == I(count)) if use_count else z3.BoolVal(False)
    if complete:
        E.prove('collector:terminal_element_requests_nothing_more', ops == [] and done is True)
    elif ops == [('cancel', ())]:
        E.prove('collector:cancels_only_when_limit_count_reached', reached)
        E.prove('collector:done_after_cancel', done is True)
    elif ops:
        E.prove('collector:tops_up_exactly_limit_rate_when_the_window_is_full', ops == [('request', (rate,))] and True)
        E.prove('collector:top_up_only_when_window_full_and_stream_still_open', z3.And(window_full, z3.Not(reached)))
        E.prove('collector:window_restarts', col.attrs['_received_count'] == 0)
    else:
        E.prove('collector:no_request_while_window_not_full', z3.And(z3.Not(window_full), z3.Not(reached)))
    E.prove('collector:at_most_one_subscription_operation_per_element', len(ops) <= 1)


# --------------------------------------------------------------------------- the awaitable front end (C07: resolved exactly once; C06: credit value)

AWR = 'rsocket/awaitable/awaitable_rsocket.py::AwaitableRSocket'


@harness('c07.collector.run', ['C07', 'C01'], functions=[COL + '.run', COL + '.on_error', COL + '.on_complete', COL + '.on_next'],
         assumptions=['asyncio.Event: wait() returns once set() was called'])
def collector_run(E):
    E.import_module('asyncio')
    col = E.call(E.lookup(COL), [])
    sub = SOpaque('subscription', 'subscription')
    log = OpaqueLog(E)
    E.call(E.getattr(col, 'on_subscribe'), [sub])
    v1, v2 = SOpaque('payload', 'e1'), SOpaque('payload', 'e2')
    err = E.make_exc('RuntimeError', 'stream failed')
    how = E.path.choice(3, 'stream-ends-by')          # 0 on_complete, 1 last element flagged complete, 2 on_error
    signalled = []

    def terminal():
        E.call(E.getattr(col, 'on_next'), [v1, False])
        if how == 0:
            E.call(E.getattr(col, 'on_next'), [v2, False])
            E.call(E.getattr(col, 'on_complete'), [])
        elif how == 1:
            E.call(E.getattr(col, 'on_next'), [v2, True])
        else:
            E.call(E.getattr(col, 'on_error'), [err])
        signalled.append(True)

    def on_suspend(E_, what):
        # the awaitable is parked until the stream terminates
        if what[0] == 'event.wait' and not signalled:
            E_.prove('run:does_not_resolve_before_the_stream_has_terminated', what[1].attrs.get('flag') is not True)
            terminal()
        return None
    E.suspend_hook = on_suspend
    early = E.path.choice(2, 'terminated-before-run-is-awaited') == 1
    if early:
        terminal()
    try:
        r = E.await_value(E.call(E.getattr(col, 'run'), []))
    except PyExc as e:
        E.cover('failed')
        E.prove('run:raises_exactly_the_stream_error', how == 2 and e.value is err)
        return
    E.cover('resolved')
    E.prove('run:resolves_normally_only_for_a_completed_stream', how in (0, 1))
    E.prove('run:result_is_every_element_once_in_order', len(r) == 2 and r[0] is v1 and r[1] is v2)


def _awaitable(kind):
    def run(E):
        E.import_module('asyncio')
        sock = SOpaque('rsocket', 'rsocket')
        rate = E.fresh_int('limit_rate', 1, 0x7FFFFFFF)
        stream = SOpaque('publisher', 'response-stream')
        payload = SOpaque('payload', 'request')
        pub = SOpaque('publisher', 'local-publisher') if kind == 'channel' else None
        seen = {}

        def subscribe(E_, o, m, a, k):
            seen['subscriber'] = a[0]
            # the stream completes at once with nothing (enough to observe what was wired up)
            E_.call(E_.getattr(a[0], 'on_subscribe'), [SOpaque('subscription', 'subscription')])
            E_.call(E_.getattr(a[0], 'on_complete'), [])
        log = OpaqueLog(E, returns={'request_stream': lambda *a: stream, 'request_channel': lambda *a: stream,
                                    'initial_request_n': lambda E_, o, m, a, k: o, ('publisher', 'subscribe'): subscribe})
        E.suspend_hook = lambda E_, what: None
        aw = E.call(E.lookup(AWR), [sock])
        if kind == 'stream':
            r = E.await_value(E.call(E.getattr(aw, 'request_stream'), [payload, rate]))
        else:
            r = E.await_value(E.call(E.getattr(aw, 'request_channel'), [payload, pub, rate]))
        E.cover('awaited')
        reqs = [c for c in log.of(sock) if c[1] in ('request_stream', 'request_channel')]
        E.prove('awaitable:exactly_one_request_of_that_kind_with_the_payload',
                len(reqs) == 1 and reqs[0][1] == 'request_' + kind and reqs[0][2][0] is payload)
        if kind == 'channel':
            E.prove('awaitable:local_publisher_passed_on', reqs[0][3].get('publisher', reqs[0][2][1] if len(reqs[0][2]) > 1 else None) is pub)
        irn = [c for c in log.of(stream) if c[1] == 'initial_request_n']
        E.prove('awaitable:initial_request_n_is_exactly_the_limit_rate', len(irn) == 1 and irn[0][2][0] is rate)
        subs = [c for c in log.of(stream) if c[1] == 'subscribe']
        E.prove('awaitable:subscribed_once_with_a_collector_of_that_rate',
                len(subs) == 1 and isinstance(subs[0][2][0], SObj) and subs[0][2][0].cls.name == 'CollectorSubscriber'
                and subs[0][2][0].attrs['_limit_rate'] is rate)
        E.prove('awaitable:credit_is_requested_before_subscribing', log.calls.index(irn[0]) < log.calls.index(subs[0]))
        E.prove('awaitable:result_is_the_collected_list', r is seen['subscriber'].attrs['values'])
    return run


for _k in ('stream', 'channel'):
    harness('c06.awaitable.request_%s' % _k, ['C06', 'C01', 'C07'], functions=[AWR + '.request_' + _k, AWR + '.__init__', COL + '.run'],
            assumptions=['RSocket.request_stream / request_channel are used through K-APP: they return a publisher whose initial_request_n '
                         'returns itself (as StreamHandler does)'])(_awaitable(_k))


@harness('c07.awaitable.request_response', ['C07', 'C01'], functions=[AWR + '.request_response', AWR + '.fire_and_forget', AWR + '.metadata_push'])
def awaitable_rr(E):
    E.import_module('asyncio')
    sock = SOpaque('rsocket', 'rsocket')
    fut = aio.new_future(E, 'result', SOpaque('payload', 'response'))
    payload = SOpaque('payload', 'request')
    log = OpaqueLog(E, returns={'request_response': lambda *a: fut, 'fire_and_forget': lambda *a: fut, 'metadata_push': lambda *a: fut})
    aw = E.call(E.lookup(AWR), [sock])
    r = E.await_value(E.call(E.getattr(aw, 'request_response'), [payload]))
    E.cover('awaited')
    E.prove('awaitable_rr:one_request_with_the_payload_result_of_its_own_future',
            [(c[1], c[2]) for c in log.of(sock)] == [('request_response', (payload,))] and r is fut.attrs['value'])
    E.prove('awaitable:fnf_and_push_delegate_unchanged', E.call(E.getattr(aw, 'fire_and_forget'), [payload]) is fut
            and E.call(E.getattr(aw, 'metadata_push'), [b'm']) is fut)


# --------------------------------------------------------------------------- construction of the sources (pre-states of the contracts above)

def _source_construct(cls_q):
    def run(E):
        E.import_module('asyncio')
        gen = SOpaque('callable', 'generator-factory')
        delay = aio.mk_timedelta(E, E.fresh_int('delay_us', 0))
        oc, occ = SOpaque('callable', 'on_cancel'), SOpaque('callable', 'on_complete')
        log = OpaqueLog(E)
        src = E.call(E.lookup(cls_q), [gen, delay, oc, occ])
        E.cover('constructed')
        a = src.attrs
        E.prove('source:constructed_idle[no generator started, nothing queued, no feeder task, no subscriber]',
                a['_generator'] is None and a['_iteration'] is None and a['_payload_feeder'] is None and a['_n_feeder'] is None
                and a['_subscriber'] is None and a['_queue'].attrs['_queue'] == [] and a['_request_n_queue'].attrs['_queue'] == []
                and a['_queue'] is not a['_request_n_queue'])
        E.prove('source:keeps_exactly_what_it_was_given', a['_generator_factory'] is gen and a['_delay_between_messages'] is delay
                and a['_on_cancel'] is oc and a['_on_complete'] is occ)
        E.prove('source:constructing_calls_nothing[the generator starts with the first credit]', not log.calls)
    return run


for _q in (SFG, 'rsocket/streams/stream_from_async_generator.py::StreamFromAsyncGenerator'):
    harness('c06.source.construct[%s]' % _q.split('::')[1], ['C06', 'C07', 'C09', 'C12'],
            functions=[_q + '.__init__', SFG + '.__init__'])(_source_construct(_q))


# --------------------------------------------------------------------------- credit wake-up (bounded, representation-independent)

def _source_credit_wakeup(cls):
    """BOUNDED, and independent of how the source keeps its credit (queue of grants, counter + event, ...): the source is built by
    its real constructor and driven through subscribe() / request() only; the credit-feeder coroutine it starts is run with every
    loop unrolled over an endless application generator.  Safety form of "delivers every element once enough credit has been
    granted": the feeder is never parked waiting for credit while credit it has not used yet is outstanding (a lost wake-up), and
    it never takes more elements from the generator than were granted."""
    def run(E):
        src, factory = mk_source(E, cls)
        sub = SOpaque('subscriber', 'subscriber')
        st = {'credit': 0, 'taken': 0, 'grants': 0, 'checked': False}
        tasks = []
        E.create_task_hook = lambda E_, t, coro: tasks.append((t, coro)) if hasattr(coro, 'func') else None
        gen = SOpaque('generator', 'generator')

        def nxt(E_, o, m, a, k):
            st['taken'] += 1
            v = (SOpaque('payload', 'element#%d' % st['taken']), False)      # an endless source: never complete, never exhausted
            return v if cls == SFG else aio.Awaitable('ready', result=v)
        OpaqueLog(E, returns={'__call__': lambda *a: gen, '__aiter__': lambda *a: SOpaque('iterator', 'iteration'),
                              '__next__': nxt, '__anext__': nxt})
        E.builtins['iter'] = M.Builtin('iter', lambda v: SOpaque('iterator', 'iteration'))
        E.builtins['next'] = M.Builtin('next', lambda g, *d: nxt(E, g, '__next__', (g,) + tuple(d), {}))

        def grant(n):
            st['credit'] += n
            st['grants'] += 1
            E.call(E.getattr(src, 'request'), [n])
        E.call(E.getattr(src, 'subscribe'), [sub])
        grant(1 + E.path.choice(2, 'first-grant'))
        feeders = [c for t, c in tasks if c.func.name != 'feed_subscriber']
        E.prove('credit:the_first_grant_starts_exactly_one_credit_feeder', len(feeders) == 1)
        if len(feeders) != 1:
            return
        if E.path.choice(2, 'second-grant-before-the-feeder-runs') == 1:
            grant(1 + E.path.choice(2, 'second-grant'))
            E.prove('credit:a_later_grant_starts_no_second_feeder', len([c for t, c in tasks if c.func.name != 'feed_subscriber']) == 1)

        def on_suspend(E_, what):
            kind, obj = what
            if kind == 'sleep':
                # the feeder yields to the event loop between elements: the requester's next REQUEST_N may be handled right here
                if st['grants'] < 2 and E_.path.choice(2, 'credit-granted-mid-batch') == 1:
                    grant(1 + E_.path.choice(2, 'second-grant'))
                return None
            blocked = (kind == 'queue.get') or (kind == 'event.wait' and obj.attrs.get('flag') is not True) or kind == 'future'
            if blocked:
                E_.cover('parked-waiting-for-credit')
                E_.prove('credit:never_parked_while_granted_credit_is_unused[lost wake-up]', st['credit'] - st['taken'] == 0)
                st['checked'] = True
                E_.throw('CancelledError')
            return None
        E.suspend_hook = on_suspend
        E.unroll_limit = 12
        try:
            E.await_value(feeders[0])
        except PyExc:
            pass
        E.prove('credit:never_more_elements_taken_from_the_generator_than_granted', st['taken'] <= st['credit'])
        E.prove('credit:scenario_reached_the_waiting_state', st['checked'])
    return run


for _q, _n in ((SFG, 'generator'), (SFA, 'async-generator')):
    harness('c06.source.credit_wakeup.bounded[%s]' % _n, ['C06'], kind='bounded', replay='c06_source_wakeup',
            functions=[SFG + '.request', SFG + '.queue_next_n', _q + '._generate_next_n', _q + '._start_generator'],
            assumptions=['BOUNDED stand-in: one or two grants of 1..2 units, the second arriving before the feeder runs or while it yields '
                         'to the event loop between two elements; endless generator; loops unrolled; asyncio.Queue.get / Event.wait '
                         'suspend iff empty / not set'])(_source_credit_wakeup(_q))
