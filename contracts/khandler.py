"""K-HANDLER / K-SOCK toolkit: ghost endpoint state seen by the stream handlers.

The socket a handler talks to is an opaque object; every call is logged in order:
   send_frame(f) / send_request(f)  -> ('frame', f)
   send_payload(s, p, complete, is_next) -> ('payload', ...)    send_error(s, e) -> ('error', ...)
   send_complete(s) -> ('complete', s)                          finish_stream(s) -> ('finish', s)
Application objects (subscriber, publisher, subscription) are opaque as well; their calls are the ghost signal log.
"""
import z3

from pyvc.values import *   # noqa
from pyvc.engine import EXC, PyFunc, BoundMethod
from pyvc.harness import OpaqueLog, new_obj
from pyvc import models as M
from pyvc import aio

FR = 'rsocket/frame.py::'
H = 'rsocket/handlers/'
EMIT = ('send_frame', 'send_request', 'send_payload', 'send_error', 'send_complete')
K_SOCK = EMIT + ('finish_stream', 'get_fragment_size_bytes')


class Ctx:
    def __init__(self, E, fragment_size=None, reenter=None, app_may_raise=False):
        E.import_module('asyncio')
        self.E = E
        self.sock = SOpaque('socket', 'socket')
        self.fs = fragment_size
        self.reenter = reenter          # None | fn(ctx, obj, method) -> None : re-entrant application behaviour
        self.app_may_raise = app_may_raise
        self.log = OpaqueLog(E, returns={'get_fragment_size_bytes': lambda *a: self.fs}, may_raise=self._may_raise)
        self._in_app = 0
        orig = self.log.__call__
        ctx = self

        def hook(E_, obj, method, args, kwargs):
            if obj is ctx.sock and method not in K_SOCK:
                # the handler contracts know the socket only through K-SOCK (DESIGN 5, shared contract sets); an operation
                # outside it has no contract here, so nothing can be concluded about what it does to the connection
                raise Unsupported('handler calls socket.%s(), which has no K-SOCK contract (contracts out of date)' % method)
            r = OpaqueLog.__call__(ctx.log, E_, obj, method, args, kwargs)
            if ctx.reenter is not None and obj.kind in ('subscriber',) and ctx._in_app == 0:
                ctx._in_app += 1
                try:
                    ctx.reenter(ctx, obj, method)
                finally:
                    ctx._in_app -= 1
            return r
        E.opaque_call = hook

    def _may_raise(self, obj, method):
        return self.app_may_raise and obj.kind in ('subscriber', 'publisher', 'subscription', 'app-future')

    # ---- views of the log
    def emissions(self):
        return [c for c in self.log.calls if c[0] is self.sock and c[1] in EMIT]

    def finishes(self):
        return [c for c in self.log.calls if c[0] is self.sock and c[1] == 'finish_stream']

    def signals(self, obj):
        return [c for c in self.log.calls if c[0] is obj]

    def order(self):
        return [(c[0].kind, c[1]) for c in self.log.calls]


def frame(E, cname, stream_id, **attrs):
    f = E.call(E.lookup(FR + cname), [])
    E.setattr(f, 'stream_id', stream_id)
    for k, v in attrs.items():
        E.setattr(f, k, v)
    return f


def sym_payload_frame(E, stream_id):
    """PAYLOAD frame with symbolic flags and data/metadata (None-able)."""
    shape = E.path.choice(3, 'payload-content')
    data = None if shape == 0 else E.fresh_bytes('fdata')
    md = None if shape != 2 else E.fresh_bytes('fmeta')
    f = frame(E, 'PayloadFrame', stream_id, data=data, metadata=md,
              flags_next=E.fresh_bool('f.next'), flags_complete=E.fresh_bool('f.complete'))
    return f, data, md


def error_frame(E, stream_id):
    codes = E.lookup('rsocket/error_codes.py::ErrorCode').members
    code = [codes['APPLICATION_ERROR'], codes['CONNECTION_ERROR'], codes['REJECTED'], codes['CANCELED']][E.path.choice(4, 'error-code')]
    return frame(E, 'ErrorFrame', stream_id, error_code=code, data=E.fresh_bytes('edata'))


def is_frame(v, cname):
    return isinstance(v, SObj) and v.cls.name == cname


def payload_is(E, p, data, md):
    """Payload object carries exactly these bytes objects."""
    return isinstance(p, SObj) and p.cls.name == 'Payload' and p.attrs['data'] is data and p.attrs['metadata'] is md
