"""Models of asyncio, datetime and inspect (assumed contracts, DESIGN Appendix B).

Future : SObj('Future') attrs state in {'pending','result','exception','cancelled'} (concrete per path),
         value, callbacks (python list).  Callbacks never run synchronously: they are appended to the ghost
         list path.ghost['call_soon'] when the future completes.
Queue  : SObj('Queue') attrs _queue (python list of values), maxsize.
Event  : SObj('Event') attr flag.
Clock  : path.ghost['now'] (Int term, microseconds); sleep(d) advances it by exactly d (virtual clock).
"""
import ast

import z3

from .values import *   # noqa
from . import engine as ENG
Builtin = ENG.Builtin
from . import models as M


def _cls(name, *bases):
    return M._builtin_class(name, *bases)


# --------------------------------------------------------------------------- Future

def new_future(E, state='pending', value=None, label=None):
    c = _cls('Future')
    f = SObj(c, {'state': state, 'value': value, 'callbacks': [], 'label': label or E.path.fresh_name('fut')})
    E.path.ghost.setdefault('futures', []).append(f)
    return f


def _schedule_callbacks(E, f):
    cs = f.attrs['callbacks']
    f.attrs['callbacks'] = []
    q = E.path.ghost.setdefault('call_soon', [])
    for cb in cs:
        q.append((cb, f))


def _future_attr(E, f, name):
    a = f.attrs

    def invalid():
        E.throw('InvalidStateError', 'invalid state')

    if name == 'set_result':
        def set_result(v):
            if a['state'] != 'pending':
                invalid()
            a['state'] = 'result'
            a['value'] = v
            E.path.ghost.setdefault('events', []).append(('future.set_result', a['label'], v))
            _schedule_callbacks(E, f)
        return Builtin('Future.set_result', set_result)
    if name == 'set_exception':
        def set_exception(ex):
            if a['state'] != 'pending':
                invalid()
            if isinstance(ex, ENG.PyClass):
                ex = E.instantiate(ex, [], {})
            a['state'] = 'exception'
            a['value'] = ex
            E.path.ghost.setdefault('events', []).append(('future.set_exception', a['label'], ex))
            _schedule_callbacks(E, f)
        return Builtin('Future.set_exception', set_exception)
    if name == 'cancel':
        def cancel(msg=None):
            if a['state'] != 'pending':
                return False
            a['state'] = 'cancelled'
            E.path.ghost.setdefault('events', []).append(('future.cancel', a['label']))
            _schedule_callbacks(E, f)
            return True
        return Builtin('Future.cancel', cancel)
    if name == 'done':
        return Builtin('Future.done', lambda: a['state'] != 'pending')
    if name == 'cancelled':
        return Builtin('Future.cancelled', lambda: a['state'] == 'cancelled')
    if name == 'result':
        def result():
            if a['state'] == 'result':
                return a['value']
            if a['state'] == 'exception':
                raise PyExc(a['value'])
            if a['state'] == 'cancelled':
                E.throw('CancelledError')
            invalid()
        return Builtin('Future.result', result)
    if name == 'exception':
        def exception():
            if a['state'] == 'exception':
                return a['value']
            if a['state'] == 'result':
                return None
            if a['state'] == 'cancelled':
                E.throw('CancelledError')
            invalid()
        return Builtin('Future.exception', exception)
    if name == 'add_done_callback':
        def add_done_callback(cb, context=None):
            if a['state'] != 'pending':
                E.path.ghost.setdefault('call_soon', []).append((cb, f))
            else:
                a['callbacks'].append(cb)
        return Builtin('Future.add_done_callback', add_done_callback)
    if name == 'remove_done_callback':
        def remove_done_callback(cb):
            n = len(a['callbacks'])
            a['callbacks'] = [c for c in a['callbacks'] if c is not cb]
            return n - len(a['callbacks'])
        return Builtin('Future.remove_done_callback', remove_done_callback)
    return M.NOATTR


def await_future(E, f):
    a = f.attrs
    if a['state'] == 'pending':
        hook = getattr(E, 'suspend_hook', None)
        if hook is None:
            raise Unsupported('await on pending future without suspend hook')
        hook(E, ('future', f))
        if a['state'] == 'pending':
            # nobody completes this future on this path: the coroutine hangs here for ever.  Unless the contract says that
            # this is where its observation ends (E.allow_hang), a hang is a failed obligation - never a silently dropped path
            if not getattr(E, 'allow_hang', False):
                E.results.append(ENG.ObligationResult('terminates[awaits a future / task that is never completed or cancelled: %s]'
                                                      % a.get('label', 'future'), 'refuted', ';'.join(E.path.sig), 0.0,
                                                      reason='the awaited future stays pending for ever on this path'))
            raise PathEnd('awaiting a future that never completes')
    if a['state'] == 'result':
        return a['value']
    if a['state'] == 'exception':
        raise PyExc(a['value'])
    E.throw('CancelledError')


# --------------------------------------------------------------------------- Event

def _event_ctor(E, cls, args, kwargs):
    return SObj(cls, {'flag': False})


def _event_attr(E, ev, name):
    if name == 'set':
        def _set():
            ev.attrs['flag'] = True
            E.path.ghost.setdefault('events', []).append(('event.set', id(ev)))
        return Builtin('Event.set', _set)
    if name == 'clear':
        def _clear():
            ev.attrs['flag'] = False
        return Builtin('Event.clear', _clear)
    if name == 'is_set':
        return Builtin('Event.is_set', lambda: ev.attrs['flag'])
    if name == 'wait':
        def wait():
            return Awaitable('event.wait', ev)
        return Builtin('Event.wait', wait)
    return M.NOATTR


class Awaitable:
    """Abstract awaitable produced by a model; awaiting it goes through E.suspend_hook."""

    def __init__(self, kind, obj=None, result=None):
        self.kind = kind
        self.obj = obj
        self.result = result


# --------------------------------------------------------------------------- Queue

def _queue_init(E, obj, args, kwargs):
    maxsize = args[0] if args else kwargs.get('maxsize', 0)
    obj.attrs['_queue'] = []
    obj.attrs['maxsize'] = maxsize
    obj.attrs['_getters'] = []
    obj.attrs['_putters'] = []
    obj.attrs['_unfinished_tasks'] = 0


def _queue_ctor(E, cls, args, kwargs):
    o = SObj(cls)
    _queue_init(E, o, args, kwargs)
    return o


def _queue_attr(E, q, name):
    a = q.attrs
    if '_queue' not in a:
        return M.NOATTR

    def full():
        ms = a['maxsize']
        if isinstance(ms, int):
            return ms > 0 and len(a['_queue']) >= ms
        return mk_bool(z3.And(I(ms) > 0, len(a['_queue']) >= I(ms)))

    if name == 'put_nowait':
        def put_nowait(x):
            if E.decide(full(), 'queue-full'):
                E.throw('QueueFull')
            a['_queue'].append(x)
            a['_unfinished_tasks'] = M.binop(E, ast.Add(), a['_unfinished_tasks'], 1)
        return Builtin('Queue.put_nowait', put_nowait)
    if name == 'get_nowait':
        def get_nowait():
            if not a['_queue']:
                E.throw('QueueEmpty')
            return a['_queue'].pop(0)
        return Builtin('Queue.get_nowait', get_nowait)
    if name == 'empty':
        return Builtin('Queue.empty', lambda: len(a['_queue']) == 0)
    if name == 'full':
        return Builtin('Queue.full', full)
    if name == 'qsize':
        return Builtin('Queue.qsize', lambda: len(a['_queue']))
    if name == 'task_done':
        def task_done():
            a['_unfinished_tasks'] = M.binop(E, ast.Sub(), a['_unfinished_tasks'], 1)
        return Builtin('Queue.task_done', task_done)
    if name == '_wakeup_next':
        return Builtin('Queue._wakeup_next', lambda waiters: None)
    if name == '_get_loop':
        return Builtin('Queue._get_loop', lambda: SObj(_cls('EventLoop')))
    if name == 'get':
        def get():
            if a['_queue']:
                return Awaitable('ready', result=a['_queue'].pop(0))
            return Awaitable('queue.get', q)
        return Builtin('Queue.get', get)
    if name == 'put':
        def put(x):
            E.getattr(q, 'put_nowait').impl(x)
            return Awaitable('ready', result=None)
        return Builtin('Queue.put', put)
    return M.NOATTR


# --------------------------------------------------------------------------- tasks

def new_task(E, coro, label=None):
    c = _cls('Task', 'Future')
    t = SObj(c, {'state': 'pending', 'value': None, 'callbacks': [], 'coro': coro, 'cancel_requested': False,
                 'label': label or E.path.fresh_name('task')})
    E.path.ghost.setdefault('tasks', []).append(t)
    return t


def _task_attr(E, t, name):
    if name == 'cancel':
        def cancel(msg=None):
            if t.attrs['state'] != 'pending':
                return False
            t.attrs['cancel_requested'] = True
            E.path.ghost.setdefault('events', []).append(('task.cancel', t.attrs['label']))
            return True
        return Builtin('Task.cancel', cancel)
    return _future_attr(E, t, name)


# --------------------------------------------------------------------------- asyncio module

def make_asyncio_module(E):
    Future = _cls('Future')
    Task = _cls('Task', 'Future')
    Event = _cls('Event')
    Queue = _cls('Queue')
    Loop = _cls('EventLoop')
    M.OBJ_ATTR_MODELS['Future'] = _future_attr
    M.OBJ_ATTR_MODELS['Task'] = _task_attr
    M.OBJ_ATTR_MODELS['Event'] = _event_attr
    M.OBJ_ATTR_MODELS['Queue'] = lambda E_, o, n: _queue_attr(E_, o, n)
    M.OBJ_ATTR_MODELS['EventLoop'] = lambda E_, o, n: (
        Builtin('loop.create_future', lambda: new_future(E_)) if n == 'create_future' else
        Builtin('loop.time', lambda: mk_real(z3.ToReal(now(E_)) / 1000000)) if n == 'time' else
        Builtin('loop.call_soon', lambda cb, *a: E_.path.ghost.setdefault('call_soon', []).append((cb, a))) if n == 'call_soon'
        else M.NOATTR)
    M.CLASS_CTOR_MODELS['Future'] = lambda E_, c, a, k: new_future(E_)
    M.CLASS_CTOR_MODELS['Event'] = _event_ctor
    M.CLASS_CTOR_MODELS['Queue'] = _queue_ctor
    M.BASE_INIT_MODELS['Queue'] = _queue_init
    # subclasses of Queue defined in the repository (QueuePeekable) find Queue methods through the attr model
    for sub in ('QueuePeekable', 'QueuePeekableBackwardCompatible'):
        M.OBJ_ATTR_MODELS[sub] = lambda E_, o, n: _queue_attr(E_, o, n)

    def create_task(coro, name=None):
        hook = getattr(E, 'create_task_hook', None)
        t = new_task(E, coro)
        if hook is not None:
            hook(E, t, coro)
        return t

    def sleep(d, result=None):
        return Awaitable('sleep', d)

    def get_event_loop():
        return SObj(Loop)

    attrs = dict(Future=Future, Task=Task, Event=Event, Queue=Queue,
                 CancelledError=ENG.EXC['CancelledError'], QueueEmpty=ENG.EXC['QueueEmpty'],
                 QueueFull=ENG.EXC['QueueFull'], InvalidStateError=ENG.EXC['InvalidStateError'],
                 TimeoutError=ENG.EXC['TimeoutError'],
                 create_task=Builtin('asyncio.create_task', create_task),
                 ensure_future=Builtin('asyncio.ensure_future', create_task),
                 sleep=Builtin('asyncio.sleep', sleep),
                 get_event_loop=Builtin('asyncio.get_event_loop', get_event_loop),
                 get_running_loop=Builtin('asyncio.get_running_loop', get_event_loop),
                 StreamReader=Extern('asyncio.StreamReader'), StreamWriter=Extern('asyncio.StreamWriter'),
                 AbstractEventLoop=Extern('asyncio.AbstractEventLoop'))
    return M.ExternModule('asyncio', attrs)


# --------------------------------------------------------------------------- datetime

def now(E):
    g = E.path.ghost
    if 'now' not in g:
        g['now'] = z3.Int(E.path.fresh_name('clock0'))
    return g['now']


def advance_clock(E, us):
    g = E.path.ghost
    g['now'] = z3.simplify(now(E) + us)


def mk_timedelta(E, us):
    return SObj(_cls('timedelta'), {'us': us})


def mk_datetime(E, us):
    return SObj(_cls('datetime'), {'t': us})


def _td_ctor(E, cls, args, kwargs):
    names = ['days', 'seconds', 'microseconds', 'milliseconds', 'minutes', 'hours', 'weeks']
    mult = dict(days=86400 * 10**6, seconds=10**6, microseconds=1, milliseconds=1000, minutes=60 * 10**6,
                hours=3600 * 10**6, weeks=7 * 86400 * 10**6)
    vals = dict(zip(names, args))
    vals.update(kwargs)
    total = 0
    for k, v in vals.items():
        if k not in mult:
            E.throw('TypeError', 'unexpected keyword %s' % k)
        if isinstance(v, (SReal, float)):
            raise Unsupported('timedelta from float')
        total = M.binop(E, ast.Add(), total, M.binop(E, ast.Mult(), v, mult[k]))
    return mk_timedelta(E, total)


def _td_attr(E, td, name):
    us = I(td.attrs['us'])
    if name == 'total_seconds':
        return Builtin('timedelta.total_seconds', lambda: mk_real(z3.ToReal(us) / 1000000))
    if name == 'microseconds':
        return mk_int(us % 1000000)
    if name == 'seconds':
        return mk_int((us / 1000000) % 86400)
    if name == 'days':
        return mk_int(us / (86400 * 1000000))
    return M.NOATTR


def _dt_binop_add(E, l, r):
    # datetime + timedelta | timedelta + timedelta
    if l.cls.name == 'datetime' and isinstance(r, SObj) and r.cls.name == 'timedelta':
        return mk_datetime(E, mk_int(I(l.attrs['t']) + I(r.attrs['us'])))
    if l.cls.name == 'timedelta' and isinstance(r, SObj) and r.cls.name == 'timedelta':
        return mk_timedelta(E, mk_int(I(l.attrs['us']) + I(r.attrs['us'])))
    if l.cls.name == 'timedelta' and isinstance(r, SObj) and r.cls.name == 'datetime':
        return mk_datetime(E, mk_int(I(r.attrs['t']) + I(l.attrs['us'])))
    raise Unsupported('datetime +')


def _dt_binop_sub(E, l, r):
    if l.cls.name == 'datetime' and isinstance(r, SObj) and r.cls.name == 'datetime':
        return mk_timedelta(E, mk_int(I(l.attrs['t']) - I(r.attrs['t'])))
    if l.cls.name == 'datetime' and isinstance(r, SObj) and r.cls.name == 'timedelta':
        return mk_datetime(E, mk_int(I(l.attrs['t']) - I(r.attrs['us'])))
    if l.cls.name == 'timedelta' and isinstance(r, SObj) and r.cls.name == 'timedelta':
        return mk_timedelta(E, mk_int(I(l.attrs['us']) - I(r.attrs['us'])))
    raise Unsupported('datetime -')


def _dt_key(o):
    return I(o.attrs['t'] if o.cls.name == 'datetime' else o.attrs['us'])


def _dt_cmp(E, op, l, r):
    a, b = _dt_key(l), _dt_key(r)
    return mk_bool({ast.Lt: a < b, ast.LtE: a <= b, ast.Gt: a > b, ast.GtE: a >= b}[type(op)])


def make_datetime_module(E):
    td = _cls('timedelta')
    dt = _cls('datetime')
    M.CLASS_CTOR_MODELS['timedelta'] = _td_ctor
    # bool(timedelta) is False exactly for the zero period (CPython: timedelta.__bool__)
    M.TRUTH_MODELS['timedelta'] = lambda E_, v: mk_bool(I(v.attrs['us']) != 0)
    M.OBJ_ATTR_MODELS['timedelta'] = _td_attr
    M.CLASS_ATTR_MODELS['datetime'] = lambda E_, c, n: (
        Builtin('datetime.now', lambda *a: mk_datetime(E_, mk_int(now(E_)))) if n in ('now', 'utcnow') else M.NOATTR)
    for a in ('datetime', 'timedelta'):
        for b in ('datetime', 'timedelta'):
            M.OBJ_BINOP[('Add', a, b)] = _dt_binop_add
            M.OBJ_BINOP[('Sub', a, b)] = _dt_binop_sub
            if a == b:
                M.OBJ_CMP[(a, b)] = _dt_cmp
    M.OBJ_EQ['timedelta'] = lambda E_, l, r: mk_bool(I(l.attrs['us']) == I(r.attrs['us'])) \
        if isinstance(r, SObj) and r.cls.name == 'timedelta' else False
    M.OBJ_EQ['datetime'] = lambda E_, l, r: mk_bool(I(l.attrs['t']) == I(r.attrs['t'])) \
        if isinstance(r, SObj) and r.cls.name == 'datetime' else False
    return M.ExternModule('datetime', dict(timedelta=td, datetime=dt))


# --------------------------------------------------------------------------- inspect

EMPTY = Extern('inspect._empty')


def _param_attr(E, obj, name):
    if name == 'empty':
        return EMPTY
    return M.NOATTR


def make_inspect_module(E):
    M.OBJ_ATTR_MODELS['Parameter'] = _param_attr
    M.OBJ_ATTR_MODELS['Signature'] = lambda E_, o, n: EMPTY if n == 'empty' else M.NOATTR

    def signature(f):
        fn = f.func if isinstance(f, ENG.BoundMethod) else f
        if not isinstance(fn, ENG.PyFunc):
            hook = getattr(E, 'signature_hook', None)
            if hook is not None:
                return hook(E, f)
            raise Unsupported('inspect.signature of %r' % (f,))
        params = {}
        a = fn.node.args
        names = a.posonlyargs + a.args + a.kwonlyargs
        skip = 1 if isinstance(f, ENG.BoundMethod) else 0
        env = ENG.Env(fn.module)
        for p in names[skip:]:
            ann = E.eval(p.annotation, env) if p.annotation is not None else EMPTY
            params[p.arg] = SObj(_cls('Parameter'), {'name': p.arg, 'annotation': ann})
        return SObj(_cls('Signature'), {'parameters': params, 'return_annotation': EMPTY})
    pcls, scls = _cls('Parameter'), _cls('Signature')
    pcls.dict['empty'] = EMPTY           # inspect.Parameter.empty is inspect.Signature.empty is inspect._empty
    scls.dict['empty'] = EMPTY
    return M.ExternModule('inspect', dict(Parameter=pcls, Signature=scls, _empty=EMPTY,
                                          signature=Builtin('inspect.signature', signature),
                                          iscoroutinefunction=Builtin('iscoroutinefunction',
                                                                      lambda f: isinstance(f, ENG.PyFunc) and f.is_async)))


# --------------------------------------------------------------------------- symbolic (unbounded) FIFO queue

class ItemRegistry:
    """Per-path registry giving every Python-level object put into a symbolic queue a distinct integer id."""

    def __init__(self, E):
        self.E = E
        self.by_id = {}     # python int id -> object
        self.next = 1

    def id_of(self, obj):
        if isinstance(obj, SOpaque) and '_id' in obj.attrs:
            return obj.attrs['_id']
        for k, v in self.by_id.items():
            if v is obj:
                return z3.IntVal(k)
        k = self.next
        self.next += 1
        self.by_id[k] = obj
        return z3.IntVal(k)

    def obj_of(self, term, label):
        """object for an id term: a registered object when the path decides the id, else an opaque item"""
        t = z3.simplify(term)
        if z3.is_int_value(t) and t.as_long() in self.by_id:
            return self.by_id[t.as_long()]
        for k, v in self.by_id.items():
            if M.known(term == k) is True:
                return v
        hook = getattr(self.E, 'queue_item_hook', None)
        if hook is not None:
            return hook(self.E, term, label)
        return SOpaque('qitem', label, attrs={'_id': term})


def registry(E):
    g = E.path.ghost
    if 'items' not in g:
        g['items'] = ItemRegistry(E)
    return g['items']


def new_symbolic_queue(E, cls, name, maxsize=0):
    """Queue object holding an ARBITRARY finite content: ids arr[h..t-1] (pre-existing items have ids <= 0)."""
    nm = E.path.fresh_name(name)
    # the names go through fresh_name: a contract that later havocs the queue with fresh_name('<name>.h') must get a NEW constant
    # (a name collision would silently turn the havoc into the identity and verify only the first iteration)
    arr = z3.Array(E.path.fresh_name(nm + '.arr'), z3.IntSort(), z3.IntSort())
    h = z3.Int(E.path.fresh_name(nm + '.h'))
    t = z3.Int(E.path.fresh_name(nm + '.t'))
    E.path.add(z3.And(h >= 0, t >= h))
    i = z3.Int('q.i')
    # ids of pre-existing items are non-positive, so they never alias objects registered on this path
    E.path.add(z3.ForAll([i], z3.Select(arr, i) <= 0))
    q = SObj(cls, {'_sym': dict(arr=arr, h=h, t=t, name=nm, arr0=arr, h0=h, t0=t), 'maxsize': maxsize,
                   '_getters': [], '_putters': [], '_unfinished_tasks': E.fresh_int(nm + '.unfinished', 0)})
    q.is_shape = True       # part of a contract's pre-state shape (see Engine.getattr)
    return q


class QueueView:
    def __init__(self, q):
        self.q = q


def _sq_attr(E, q, name):
    s = q.attrs['_sym']

    def size():
        return s['t'] - s['h']

    def full():
        ms = q.attrs['maxsize']
        return mk_bool(z3.And(I(ms) > 0, size() >= I(ms)))

    if name == 'put_nowait':
        def put_nowait(x):
            if E.decide(full(), 'queue-full'):
                E.throw('QueueFull')
            s['arr'] = z3.Store(s['arr'], s['t'], registry(E).id_of(x))
            s['t'] = z3.simplify(s['t'] + 1)
            q.attrs['_unfinished_tasks'] = M.binop(E, ast.Add(), q.attrs['_unfinished_tasks'], 1)
        return Builtin('Queue.put_nowait', put_nowait)
    if name == 'get_nowait':
        def get_nowait():
            if E.decide(mk_bool(s['h'] == s['t']), 'queue-empty'):
                E.throw('QueueEmpty')
            v = registry(E).obj_of(z3.Select(s['arr'], s['h']), '%s[%s]' % (s['name'], z3.simplify(s['h'])))
            s['h'] = z3.simplify(s['h'] + 1)
            return v
        return Builtin('Queue.get_nowait', get_nowait)
    if name == 'empty':
        return Builtin('Queue.empty', lambda: mk_bool(s['h'] == s['t']))
    if name == 'full':
        return Builtin('Queue.full', full)
    if name == 'qsize':
        return Builtin('Queue.qsize', lambda: mk_int(size()))
    if name == 'task_done':
        def task_done():
            q.attrs['_unfinished_tasks'] = M.binop(E, ast.Sub(), q.attrs['_unfinished_tasks'], 1)
        return Builtin('Queue.task_done', task_done)
    if name == '_wakeup_next':
        return Builtin('Queue._wakeup_next', lambda waiters: None)
    if name == '_get_loop':
        return Builtin('Queue._get_loop', lambda: SObj(_cls('EventLoop')))
    if name == '_queue':
        return QueueView(q)
    if name == 'get':
        def get():
            if E.decide(mk_bool(s['h'] == s['t']), 'queue-empty'):
                return Awaitable('queue.get', q)
            return Awaitable('ready', result=E.getattr(q, 'get_nowait').impl())
        return Builtin('Queue.get', get)
    return M.NOATTR


def sq_peek(E, q):
    s = q.attrs['_sym']
    if E.decide(mk_bool(s['h'] == s['t']), 'queue-empty'):
        E.throw('IndexError', 'deque index out of range')
    return registry(E).obj_of(z3.Select(s['arr'], s['h']), '%s[%s]' % (s['name'], z3.simplify(s['h'])))


_orig_queue_attr = _queue_attr


def _queue_attr(E, q, name):        # noqa: F811
    if '_sym' in q.attrs:
        return _sq_attr(E, q, name)
    return _orig_queue_attr(E, q, name)
