"""Native (CPython, real classes) oracles used to replay counter-models.  No z3 imports here.

Each function takes the concretised inputs of the failed obligation and returns None when the real code
satisfies the clause on that input (and on a small neighbourhood searched around it), or a dict describing the
concrete failing input and what was observed.
"""
import itertools


# --------------------------------------------------------------------------- C13

def _first_free(cur, table, M, parity_of):
    mod = M + 1
    x = cur
    for _ in range(mod // 2 + 1):
        x = (x + 2) % mod
        if x != 0 and x not in table:
            return x
    return None


def _check_alloc(cur, table, M):
    from rsocket.stream_control import StreamControl
    from rsocket.exceptions import RSocketStreamAllocationFailure
    sc = StreamControl(1)
    sc._maximum_stream_id = M
    sc._current_stream_id = cur
    sc._streams = {k: object() for k in table}
    exp = _first_free(cur, set(table), M, cur % 2)
    try:
        r = sc.allocate_stream()
    except RSocketStreamAllocationFailure:
        r = 'fail'
    except Exception as ex:
        return dict(cur=cur, table=sorted(table), M=M, observed='unexpected %r' % ex, expected=exp)
    if exp is None and r != 'fail':
        return dict(cur=cur, table=sorted(table), M=M, observed=r, expected='RSocketStreamAllocationFailure')
    if exp is not None and r != exp:
        return dict(cur=cur, table=sorted(table), M=M, observed=r, expected=exp)
    if set(sc._streams) != set(table):
        return dict(cur=cur, table=sorted(table), M=M, observed='table changed')
    return None


def c13_allocate(inputs, doc):
    import re
    m = re.search(r'M=(0x[0-9a-f]+)', doc['harness'])
    M = int(m.group(1), 16)
    cur = inputs.get('current_stream_id', 0) or 0
    table = inputs.get('streams', {})
    keys = [int(k) for k, v in (table.get('entries', {}) if isinstance(table, dict) else {}).items() if v]
    bad = _check_alloc(cur, keys, M)
    if bad:
        return bad
    # bounded neighbourhood search: every state of the small id spaces, states near the model for the big one
    if M <= 15:
        ids = list(range(1, M + 1))
        for cur2 in range(0, M + 1):
            for r in range(0, len(ids) + 1):
                for tb in itertools.combinations(ids, r):
                    bad = _check_alloc(cur2, tb, M)
                    if bad:
                        return bad
    else:
        for cur2 in {cur, 0, 1, 2, M, M - 1, M - 2}:
            for tb in ([], [1], [2], [1, 3], [2, 4], [M], [M - 1], [1, 3, 5], [M, 1], [M - 1, 2]):
                bad = _check_alloc(cur2 % (M + 1), tb, M)
                if bad:
                    return bad
    return None


def c13_ops(inputs, doc):
    from rsocket.stream_control import StreamControl
    from rsocket.exceptions import RSocketStreamIdInUse
    from rsocket.error_codes import ErrorCode
    s = inputs.get('stream_id', 0)
    for table in ([], [s], [s, s + 2], [s + 2]):
        sc = StreamControl(1)
        sc._streams = {k: ('h', k) for k in table}
        before = dict(sc._streams)
        name = doc['harness']
        if 'finish' in name:
            sc.finish_stream(s)
            if set(sc._streams) != set(before) - {s}:
                return dict(op='finish', stream_id=s, table=table, observed=sorted(sc._streams))
        elif 'register' in name:
            try:
                sc.register_stream(s, 'new')
                ok = True
            except RuntimeError:
                ok = False
            should = s != 0 and s <= 0x7FFFFFFF
            if ok != should or (ok and (sc._streams.get(s) != 'new' or set(sc._streams) != set(before) | {s})):
                return dict(op='register', stream_id=s, table=table, accepted=ok, observed=sorted(sc._streams))
        elif 'assert' in name:
            try:
                sc.assert_stream_id_available(s)
                raised = None
            except Exception as ex:
                raised = ex
            if (s in before) != (raised is not None):
                return dict(op='assert_available', stream_id=s, table=table, raised=repr(raised))
            if raised is not None and not (isinstance(raised, RSocketStreamIdInUse) and raised.error_code == ErrorCode.REJECTED):
                return dict(op='assert_available', stream_id=s, table=table, raised=repr(raised))
    return None


# --------------------------------------------------------------------------- C02 (native wire-format oracle)

_T = dict(SetupFrame=1, LeaseFrame=2, KeepAliveFrame=3, RequestResponseFrame=4, RequestFireAndForgetFrame=5,
          RequestStreamFrame=6, RequestChannelFrame=7, RequestNFrame=8, CancelFrame=9, PayloadFrame=10, ErrorFrame=11,
          MetadataPushFrame=12, ResumeFrame=13, ResumeOKFrame=14)


def _be(x, k):
    return int(x).to_bytes(k, 'big')


def _md(m):
    m = m or b''
    return (_be(len(m), 3) + m) if m else b''


def native_enc(name, f):
    t = _T[name]
    md, d = f.get('metadata') or b'', f.get('data') or b''
    s = f.get('stream_id', 0)

    def hdr(b7=False, b6=False, b5=False, has_md=None):
        hm = bool(md) if has_md is None else has_md
        fl = (0x200 if f.get('flags_ignore') else 0) | (0x100 if hm else 0) | (0x80 if b7 else 0) | (0x40 if b6 else 0) | (0x20 if b5 else 0)
        return _be(s, 4) + _be((t << 10) | fl, 2)
    if t == 1:
        body = _be(f['major_version'], 2) + _be(f['minor_version'], 2) + _be(f['keep_alive_milliseconds'], 4) + _be(f['max_lifetime_milliseconds'], 4)
        if f.get('flags_resume'):
            tok = f['resume_identification_token']
            body += _be(len(tok), 2) + tok
        body += _be(len(f['metadata_encoding']), 1) + f['metadata_encoding'] + _be(len(f['data_encoding']), 1) + f['data_encoding']
        return hdr(b7=f.get('flags_resume'), b6=f.get('flags_lease')) + body + _md(md) + d
    if t == 2:
        return hdr() + _be(f['time_to_live'], 4) + _be(f['number_of_requests'], 4) + md
    if t == 3:
        return hdr(b7=f.get('flags_respond'), has_md=False) + _be(f['last_received_position'], 8) + d
    if t in (4, 5):
        return hdr(b7=f.get('flags_follows')) + _md(md) + d
    if t == 6:
        return hdr(b7=f.get('flags_follows')) + _be(f['initial_request_n'], 4) + _md(md) + d
    if t == 7:
        return hdr(b7=f.get('flags_follows'), b6=f.get('flags_complete')) + _be(f['initial_request_n'], 4) + _md(md) + d
    if t == 8:
        return hdr(has_md=False) + _be(f['request_n'], 4)
    if t == 9:
        return hdr(has_md=False)
    if t == 10:
        return hdr(b7=f.get('flags_follows'), b6=f.get('flags_complete'), b5=bool(f.get('flags_next')) or bool(md) or bool(d)) + _md(md) + d
    if t == 11:
        return hdr(has_md=False) + _be(f['error_code'], 4) + d
    if t == 12:
        return hdr() + md
    if t == 13:
        tok = f['resume_identification_token']
        return hdr(has_md=False) + _be(f['major_version'], 2) + _be(f['minor_version'], 2) + _be(len(tok), 2) + tok + \
            _be(f['last_server_position'], 8) + _be(f['first_client_position'], 8)
    if t == 14:
        return hdr(has_md=False) + _be(f['last_received_client_position'], 8)


def _force_backend(backend):
    import sys
    if backend == 'native':
        sys.modules['cbitstruct'] = None
    for m in [m for m in sys.modules if m == 'rsocket' or m.startswith('rsocket.')]:
        del sys.modules[m]


def c02_roundtrip(inputs, doc):
    import re
    m = re.match(r'c02\.(\w+)\.(\w+)\[md=([\w-]+),data=([\w-]+)\]@(\w+)', doc['harness'])
    kind, cname, mdk, dk, backend = m.groups()
    _force_backend(backend)
    import rsocket.frame as F
    from rsocket.error_codes import ErrorCode
    f = dict(inputs)
    if isinstance(f.get('error_code'), dict):
        f['error_code'] = ErrorCode(f['error_code']['value'])
    if mdk == 'none':
        f['metadata'] = None
    if dk == 'none':
        f['data'] = None
    if 'resume_identification_token' in f:
        f['token_length'] = len(f['resume_identification_token'])
        if cname == 'SetupFrame':
            f['flags_resume'] = True
    elif cname == 'SetupFrame':
        f['flags_resume'] = False

    def build():
        fr = getattr(F, cname)()
        for k, v in f.items():
            setattr(fr, k, v)
        return fr
    exp = native_enc(cname, f)
    problems = []
    try:
        out = build().serialize()
        if out != exp:
            problems.append(dict(clause='encode', observed=out.hex(), expected=exp.hex()))
        fr = build()
        fr.serialize()
        if fr.length != len(exp):
            problems.append(dict(clause='length', observed=fr.length, expected=len(exp)))
        g = F.parse_or_ignore(exp)
        if g is None or type(g).__name__ != cname:
            problems.append(dict(clause='decode type', observed=repr(g)))
        else:
            for k, v in f.items():
                if k in ('token_length',) and not f.get('flags_resume', True):
                    continue
                got = getattr(g, k, None)
                want = v
                if k in ('data', 'metadata'):
                    got, want = got or b'', want or b''
                if k == 'flags_next':
                    want = bool(v) or bool(f.get('data')) or bool(f.get('metadata'))
                if isinstance(want, bool):
                    got = bool(got)
                if got != want:
                    problems.append(dict(clause='decode ' + k, observed=repr(got), expected=repr(want)))
            re_ = g.serialize()
            if re_ != exp:
                problems.append(dict(clause='reencode', observed=re_.hex(), expected=exp.hex()))
        if len(exp) < (1 << 24):
            fr = build()
            chunks = [bytes(F.serialize_prefix_with_frame_size_header(fr))]
            fr.write_data_metadata(lambda b: chunks.append(bytes(b)))
            full = _be(len(exp), 3) + exp
            if b''.join(chunks) != full:
                problems.append(dict(clause='partial', observed=b''.join(chunks).hex(), expected=full.hex()))
            if F.serialize_with_frame_size_header(build()) != full:
                problems.append(dict(clause='oneshot', observed=F.serialize_with_frame_size_header(build()).hex(), expected=full.hex()))
    except Exception as ex:
        problems.append(dict(clause='exception', observed=repr(ex)))
    if problems:
        return dict(frame=cname, backend=backend, fields={k: (v.hex() if isinstance(v, bytes) else repr(v)) for k, v in f.items()},
                    problems=problems[:4])
    return None


# --------------------------------------------------------------------------- C04

def _drive(agen, cap=2000):
    """Collect an async generator without an event loop (receive_data has no awaits)."""
    out = []
    it = agen.__aiter__()
    while True:
        co = it.__anext__()
        try:
            co.send(None)
        except StopIteration as s:
            out.append(s.value)
            if len(out) >= cap:
                return out, False
            continue
        except StopAsyncIteration:
            return out, True
        raise RuntimeError('receive_data suspended')


def _split_spec(x):
    recs = []
    while len(x) >= 3:
        L = int.from_bytes(x[:3], 'big')
        if len(x) < 3 + L:
            break
        recs.append(bytes(x[3:3 + L]))
        x = x[3 + L:]
    return recs, bytes(x)


def _expected_outputs(recs):
    import rsocket.frame as F
    out = []
    for r in recs:
        try:
            fr = F.parse_or_ignore(r)
            if fr is not None:
                out.append(type(fr).__name__)
        except Exception:
            out.append('InvalidFrame')
    return out


def _check_stream(buffer, data):
    from rsocket.frame_parser import FrameParser
    p = FrameParser()
    p._buffer = bytearray(buffer)
    frames, done = _drive(p.receive_data(data))
    recs, rest = _split_spec(bytes(buffer) + bytes(data))
    exp = _expected_outputs(recs)
    got = [type(f).__name__ for f in frames]
    if not done or got != exp or bytes(p._buffer) != rest:
        return dict(buffer=bytes(buffer).hex(), data=bytes(data).hex(), terminated=done, observed=got[:10], expected=exp[:10],
                    rest_observed=bytes(p._buffer).hex()[:80], rest_expected=rest.hex()[:80])
    return None


def c04_stream(inputs, doc):
    import random
    b, d = inputs.get('buffer', b''), inputs.get('data', b'')
    bad = _check_stream(b, d)
    if bad:
        return bad
    # neighbourhood: every 2-way chunking (as buffer/data) of short frame sequences, valid and malformed
    from rsocket.frame_builders import to_payload_frame, to_cancel_frame, to_request_n_frame
    from rsocket.frame import serialize_with_frame_size_header
    from rsocket.payload import Payload
    seqs = []
    f1 = serialize_with_frame_size_header(to_payload_frame(1, Payload(b'abc', b'm'), complete=True))
    f2 = serialize_with_frame_size_header(to_cancel_frame(3))
    f3 = serialize_with_frame_size_header(to_request_n_frame(5, 7))
    junk = b'\x00\x00\x02\xff\xff'
    empty = b'\x00\x00\x00'
    for seq in ([f1], [f1, f2], [f2, f3, f1], [junk, f2], [f1, empty, f3], [junk, junk], [f3, f3, f3]):
        s = b''.join(seq)
        for cut in range(len(s) + 1):
            bad = _check_stream(s[:cut], s[cut:])
            if bad:
                return bad
            # three-way: feed first part, then the rest
            from rsocket.frame_parser import FrameParser
            p = FrameParser()
            got = []
            ok = True
            for chunk in (s[:cut // 2], s[cut // 2:cut], s[cut:]):
                fr, done = _drive(p.receive_data(chunk))
                ok = ok and done
                got += [type(f).__name__ for f in fr]
            recs, rest = _split_spec(s)
            if not ok or got != _expected_outputs(recs) or bytes(p._buffer) != rest:
                return dict(stream=s.hex(), chunks=[cut // 2, cut], observed=got, expected=_expected_outputs(recs))
    return None


def c04_message(inputs, doc):
    from rsocket.frame_parser import FrameParser
    cands = [inputs.get('data', b''), b'', b'\x00']
    from rsocket.frame_builders import to_cancel_frame
    cands.append(to_cancel_frame(3).serialize())
    for d in cands:
        p = FrameParser()
        frames, done = _drive(p.receive_data(d, 0), cap=1000)
        exp = _expected_outputs([bytes(d)])
        got = [type(f).__name__ for f in frames]
        if not done or got != exp or len(p._buffer) != 0:
            return dict(message=bytes(d).hex(), terminated=done, yielded=len(frames), observed=got[:5], expected=exp,
                        buffer_left=len(p._buffer))
    return None
