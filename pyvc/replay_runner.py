"""Native replay of a counter-model against the real code.  Runs under /venv/bin/python (no z3 here).

usage: /venv/bin/python pyvc/replay_runner.py <replay.json>     (cwd=/repo, PYTHONPATH=/verif:/repo)
exit 1 if the real code fails the clause on the concrete input (verdict fails-on-real-code), else 0.
"""
import importlib
import json
import logging
import os
import sys
import traceback


def unhex(v):
    if isinstance(v, dict) and 'bytes' in v:
        return bytes.fromhex(v['bytes'])
    if isinstance(v, dict):
        return {k: unhex(x) for k, x in v.items()}
    if isinstance(v, list):
        return [unhex(x) for x in v]
    return v


def main():
    path = sys.argv[1]
    logging.disable(logging.CRITICAL)
    root = os.path.dirname(os.path.dirname(os.path.abspath(__file__)))
    if root not in sys.path:
        sys.path.insert(0, root)
    doc = json.load(open(path))
    fn = doc.get('replay_function')
    verdict = 'no-failing-input-found'
    observed = None
    if fn:
        try:
            mod = importlib.import_module('contracts.native_replay')
            f = getattr(mod, fn)
            res = f(unhex(doc.get('inputs') or {}), doc)
            if res:
                verdict = 'fails-on-real-code'
                observed = res
        except Exception:
            observed = {'replay_crash': traceback.format_exc()[-1500:]}
    doc['verdict'] = verdict
    doc['observed'] = observed
    json.dump(doc, open(path, 'w'), indent=1, default=str)
    print(verdict, json.dumps(observed, default=str)[:500])
    return 1 if verdict == 'fails-on-real-code' else 0


if __name__ == '__main__':
    sys.exit(main())
