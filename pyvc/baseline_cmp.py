"""Compare a junit xml of the repository's suite with the stable-pass list of /root/.vp/BASELINE.json."""
import json
import sys
import xml.etree.ElementTree as ET


def main(path):
    base = set(json.load(open('/root/.vp/BASELINE.json'))['stable_pass'])
    t = ET.parse(path)
    res = {}
    for tc in t.iter('testcase'):
        name = '%s::%s' % (tc.get('classname'), tc.get('name'))
        bad = any(ch.tag in ('failure', 'error') for ch in tc)
        skipped = any(ch.tag == 'skipped' for ch in tc)
        res[name] = 'fail' if bad else ('skip' if skipped else 'pass')
    missing = sorted(n for n in base if res.get(n) != 'pass')
    print('stable baseline tests: %d, passing now: %d, not passing: %d' % (len(base), len(base) - len(missing), len(missing)))
    for n in missing:
        print('  ', res.get(n, 'absent'), n)
    return 1 if missing else 0


if __name__ == '__main__':
    sys.exit(main(sys.argv[1]))
