"""CPython differential (guards the trusted base; never decides a property).

The same scenario text - a small program that calls REAL repository functions on concrete, seeded-random and boundary
inputs - is executed (a) by the pyvc engine (all leaves concrete) and (b) natively by /venv/bin/python with the same
sources, once per codec back end.  Every difference is a defect of the engine or of one of its models of
struct / cbitstruct / io.BytesIO / asyncio.Queue / timedelta / deque / enums - i.e. of the trusted base.

  python3-vt -m pyvc.differential [--n N]        exit 0: all scenarios agree; exit 3: a disagreement (tool defect)
"""
import argparse
import ast
import json
import os
import random
import subprocess
import sys

import z3

ROOT = os.path.dirname(os.path.dirname(os.path.abspath(__file__)))
REPO = os.environ.get('PYVC_REPO', '/repo')
NATIVE_PY = os.environ.get('PYVC_NATIVE_PY', '/venv/bin/python')

PRELUDE = '''
def _j(v):
    return v


def _fields(fr, names):
    return [[n, getattr(fr, n, None)] for n in names]


def _try(thunk):
    try:
        return ['ok', thunk()]
    except Exception as e:
        return ['raise', type(e).__name__]
'''

NATIVE_J = '''
def _jj(v):
    import enum
    if isinstance(v, enum.Enum):
        return ['enum', v.name]
    if v is None or isinstance(v, (bool, int, str)):
        return v
    if isinstance(v, float):
        return ['float', repr(v)]
    if isinstance(v, (bytes, bytearray)):
        return ['bytes', bytes(v).hex()]
    if isinstance(v, (list, tuple)):
        return [_jj(x) for x in v]
    if isinstance(v, dict):
        return [[_jj(k), _jj(x)] for k, x in v.items()]
    if hasattr(v, 'name') and hasattr(v, 'value'):
        return ['enum', v.name]
    return ['obj', type(v).__name__]
'''



def rb(rnd, n):
    return bytes(rnd.randrange(256) for _ in range(n))


def lit(v):
    return repr(v)


def scenarios(rnd, n):
    out = []
    H = 'from rsocket import frame_helpers as H\n'
    # ---- helpers
    for _ in range(n):
        pos = rnd.choice([0, 1, 2 ** 63 - 1, rnd.randrange(2 ** 63)])
        v24 = rnd.choice([0, 1, 2 ** 24 - 1, rnd.randrange(2 ** 24)])
        b = rb(rnd, rnd.choice([0, 1, 3, 8, 12]))
        out.append(('helpers', H + 'def run():\n'
                    '    return [_j(H.pack_position(%d)), _j(H.pack_24bit(%d)), _try(lambda: _j(H.unpack_position(%s))),\n'
                    '            _try(lambda: _j(H.unpack_24bit(%s, 0))), _try(lambda: _j(H.unpack_32bit(%s, 0))),\n'
                    '            _j(H.pack_string(%s)), _try(lambda: _j(H.unpack_string(%s, 0))), _j(H.is_flag_set(%d, %d)), _j(H.safe_len(%s))]\n'
                    % (pos, v24, lit(b[:8]), lit(b), lit(b), lit(b[:5]), lit(bytes([len(b[:3])]) + b[:3] + b'x'), rnd.randrange(1024),
                       rnd.choice([0x200, 0x100, 0x80, 0x40, 0x20]), lit(rnd.choice([None, b])))))
    # ---- frames: build, serialize, parse back
    F = 'import rsocket.frame as F\nfrom rsocket.error_codes import ErrorCode\n'
    common = ['stream_id', 'flags_ignore', 'flags_metadata', 'data', 'metadata']
    specs = {
        'PayloadFrame': ['flags_follows', 'flags_complete', 'flags_next'],
        'RequestResponseFrame': ['flags_follows'],
        'RequestFireAndForgetFrame': ['flags_follows'],
        'RequestStreamFrame': ['flags_follows', 'initial_request_n'],
        'RequestChannelFrame': ['flags_follows', 'flags_complete', 'initial_request_n'],
        'RequestNFrame': ['request_n'],
        'CancelFrame': [],
        'ErrorFrame': ['error_code'],
        'KeepAliveFrame': ['flags_respond', 'last_received_position'],
        'LeaseFrame': ['time_to_live', 'number_of_requests'],
        'MetadataPushFrame': [],
        'ResumeOKFrame': ['last_received_client_position'],
    }
    for _ in range(n):
        for cname, extra in specs.items():
            sets = []
            sid = 0 if cname in ('KeepAliveFrame', 'LeaseFrame', 'MetadataPushFrame', 'ResumeOKFrame') else rnd.choice([1, 2, 2 ** 31 - 1, rnd.randrange(1, 2 ** 31)])
            sets.append('f.stream_id = %d' % sid)
            md = rnd.choice([None, b'', rb(rnd, rnd.randrange(1, 20))])
            data = rnd.choice([None, b'', rb(rnd, rnd.randrange(1, 40))])
            if cname in ('RequestNFrame', 'CancelFrame', 'ResumeOKFrame'):
                md, data = None, None
            if cname in ('KeepAliveFrame', 'ErrorFrame'):
                md = None
            if cname == 'LeaseFrame':
                data = None
            if cname == 'MetadataPushFrame':
                data, md = None, rb(rnd, rnd.randrange(1, 20))
            sets.append('f.data = %s' % lit(data))
            sets.append('f.metadata = %s' % lit(md))
            for x in extra:
                if x.startswith('flags_'):
                    sets.append('f.%s = %s' % (x, rnd.choice([True, False])))
                elif x in ('initial_request_n', 'request_n'):
                    sets.append('f.%s = %d' % (x, rnd.choice([1, 2 ** 31 - 1, rnd.randrange(1, 2 ** 31)])))
                elif x in ('time_to_live', 'number_of_requests'):
                    sets.append('f.%s = %d' % (x, rnd.randrange(2 ** 31)))
                elif x.endswith('position'):
                    sets.append('f.%s = %d' % (x, rnd.randrange(2 ** 63)))
                elif x == 'error_code':
                    sets.append('f.error_code = ErrorCode.%s' % rnd.choice(['APPLICATION_ERROR', 'REJECTED', 'CANCELED', 'INVALID']))
            names = common + extra
            body = ('def run():\n    f = F.%s()\n    ' % cname) + '\n    '.join(sets) + \
                   '\n    b = f.serialize()\n    g = F.parse_or_ignore(b)\n' \
                   '    return [_j(b), _j(F.serialize_with_frame_size_header(f)), type(g).__name__, _fields(g, %r), _j(g.serialize())]\n' % names
            out.append(('frame.' + cname, F + body))
    # ---- arbitrary bytes through the decoder
    for _ in range(n * 2):
        b = rb(rnd, rnd.choice([0, 1, 5, 6, 7, 9, 10, 14, 30]))
        if rnd.random() < 0.5 and len(b) >= 6:
            b = b[:4] + bytes([rnd.choice([0x04, 0x08, 0x10, 0x14, 0x18, 0x1c, 0x20, 0x24, 0x28, 0x2c, 0x30, 0x0c, 0x38, 0xfc]) | (b[4] & 3)]) + b[5:]
        out.append(('decoder.arbitrary', F + 'def run():\n    def go():\n        g = F.parse_or_ignore(%s)\n'
                    '        return None if g is None else [type(g).__name__, _j(g.serialize())]\n    return _try(go)\n' % lit(b)))
    # ---- fragmenter
    for _ in range(n):
        fs = rnd.choice([64, 65, 70, 100])
        dl, ml = rnd.choice([0, 1, 50, 55, 58, 120, 200]), rnd.choice([0, 1, 52, 55, 100])
        out.append(('fragmenter', 'from rsocket.frame_fragmenter import data_to_fragments_if_required\n'
                    'def run():\n    out = []\n    for fr in data_to_fragments_if_required(%s, %s, %d, %s, %s):\n'
                    '        out.append([_j(fr.data), _j(fr.metadata), _j(fr.is_last), _j(fr.is_first)])\n    return out\n'
                    % (lit(rb(rnd, dl) or None), lit(rb(rnd, ml) or None), rnd.choice([6, 10]), rnd.choice([str(fs), 'None']), rnd.choice([True, False]))))
    # ---- stream ids
    for _ in range(n):
        mx = rnd.choice([3, 7, 15, 0x7F])
        ids = sorted(rnd.sample(range(1, mx + 1), rnd.randrange(0, mx)))
        out.append(('stream_control', 'from rsocket.stream_control import StreamControl\n'
                    'def run():\n    sc = StreamControl(%d)\n    sc._maximum_stream_id = %d\n    sc._current_stream_id = %d\n'
                    '    for i in %r:\n        sc._streams[i] = None\n    out = []\n    for _ in range(3):\n'
                    '        out.append(_try(lambda: sc.allocate_stream()))\n    return out\n'
                    % (rnd.choice([1, 2]), mx, rnd.randrange(0, mx + 1) & ~1 | (rnd.choice([0, 1])), ids)))
    # ---- periods
    for _ in range(n):
        us = rnd.choice([0, 1, 499, 500, 501, 1500, 10 ** 6, 1500000, rnd.randrange(10 ** 10)])
        out.append(('to_milliseconds', 'from datetime import timedelta\nfrom rsocket.datetime_helpers import to_milliseconds\n'
                    'def run():\n    return [to_milliseconds(timedelta(microseconds=%d)), bool(timedelta(microseconds=%d))]\n' % (us, us)))
    # ---- extension metadata
    for _ in range(n):
        tags = [rb(rnd, rnd.choice([0, 1, 5, 255])) for _ in range(rnd.randrange(0, 4))]
        name = bytes(rnd.choice(b'abcdefghij/-.') for _ in range(rnd.choice([1, 2, 20, 127, 128])))
        out.append(('extensions', 'from rsocket.extensions.composite_metadata import CompositeMetadata\n'
                    'from rsocket.extensions.routing import RoutingMetadata\nfrom rsocket.extensions.mimetypes import WellKnownMimeTypes\n'
                    'from rsocket.extensions.composite_metadata_item import CompositeMetadataItem\n'
                    'def run():\n    cm = CompositeMetadata()\n    cm.append(RoutingMetadata(%r))\n'
                    '    cm.append(CompositeMetadataItem(%r, %r))\n    cm.append(CompositeMetadataItem(WellKnownMimeTypes.APPLICATION_JSON, %r))\n'
                    '    b = cm.serialize()\n    c2 = CompositeMetadata()\n    c2.parse(b)\n'
                    '    return [_j(b), [[_j(i.encoding), _j(getattr(i, "tags", getattr(i, "content", None)))] for i in c2.items], _j(c2.serialize())]\n'
                    % (tags, name, rb(rnd, 5), rb(rnd, 3))))
    # ---- containers
    for _ in range(max(2, n // 2)):
        ops = [rnd.choice(['a', 'p', 'l']) for _ in range(8)]
        ml = rnd.choice([None, 0, 1, 3])
        out.append(('deque', 'from collections import deque\ndef run():\n    d = deque(maxlen=%r)\n    out = []\n    n = 0\n'
                    '    for op in %r:\n        n += 1\n        if op == "a":\n            d.append(n)\n        elif op == "l":\n'
                    '            d.appendleft(n)\n        else:\n            out.append(_try(lambda: d.popleft()))\n'
                    '        out.append([len(d), bool(d), list(d)])\n    return out\n' % (ml, ops)))
        out.append(('queue', 'import asyncio\ndef run():\n    q = asyncio.Queue(%d)\n    out = []\n    n = 0\n'
                    '    for op in %r:\n        n += 1\n        if op in ("a", "l"):\n            out.append(_try(lambda: q.put_nowait(n)))\n'
                    '        else:\n            out.append(_try(lambda: q.get_nowait()))\n        out.append([q.qsize(), q.empty(), q.full()])\n    return out\n'
                    % (rnd.choice([0, 1, 2]), ops)))
    return out


# --------------------------------------------------------------------------- engine side

def conc(v):
    from .values import SInt, SBool, SBytes, SByteArray, EnumMember, SObj, SOpaque
    if v is None or isinstance(v, (bool, int, str)):
        return v
    if isinstance(v, float):
        return ['float', repr(v)]
    if isinstance(v, (bytes, bytearray)):
        return ['bytes', bytes(v).hex()]
    if isinstance(v, SInt):
        r = z3.simplify(v.e)
        if z3.is_int_value(r):
            return r.as_long()
        raise ValueError('symbolic int in concrete run: %s' % r)
    if isinstance(v, SBool):
        r = z3.simplify(v.e)
        if z3.is_true(r) or z3.is_false(r):
            return z3.is_true(r)
        raise ValueError('symbolic bool in concrete run: %s' % r)
    if isinstance(v, SByteArray):
        return conc(v.val)
    if isinstance(v, SBytes):
        n = v.n if isinstance(v.n, int) else z3.simplify(v.n).as_long()
        bs = bytearray()
        for i in range(n):
            x = z3.simplify(v.at(z3.IntVal(i)))
            if not z3.is_int_value(x):
                raise ValueError('symbolic byte in concrete run')
            bs.append(x.as_long())
        return ['bytes', bytes(bs).hex()]
    if isinstance(v, (list, tuple)):
        return [conc(x) for x in v]
    if isinstance(v, dict):
        return [[conc(k), conc(x)] for k, x in v.items()]
    if isinstance(v, EnumMember):
        return ['enum', v.name]
    if isinstance(v, SObj):
        return ['obj', v.cls.name]
    raise ValueError('cannot concretise %r' % (v,))


def run_engine(src, backend):
    sys.path.insert(0, ROOT)
    from pyvc import engine as ENG, harness as H
    from pyvc.values import PyExc
    E = ENG.Engine(backend=backend, repo_root=REPO)
    H.install_common_stubs(E)
    out = {}

    def h(E_):
        full = PRELUDE + src
        m = ENG.Module('diffscn', 'diffscn.py', ast.parse(full), full)
        E_.modules['diffscn'] = m
        E_._load_module(m)
        out['value'] = conc(E_.call(m.globals['run'], []))
    res, errs = E.explore(h, max_paths=4)
    if errs:
        return ['engine-error', errs[0][:300]]
    if 'value' not in out:
        esc = [r.name for r in res if r.status == 'refuted']
        return ['engine-error', 'no value (%s)' % esc[:1]]
    return out['value']


NATIVE_DRIVER = r'''
import json, sys, logging
logging.disable(logging.CRITICAL)
backend = sys.argv[1]
if backend == 'native':
    sys.modules['cbitstruct'] = None
scen = json.load(sys.stdin)
out = []
for name, src in scen:
    g = {}
    try:
        exec(PRELUDE + src, g)
        out.append(_jj(g['run']()))
    except BaseException as e:
        out.append(['native-error', repr(e)[:200]])
print(json.dumps(out))
'''


def run_native(scen, backend):
    drv = 'PRELUDE = %r\n' % PRELUDE + NATIVE_J + NATIVE_DRIVER
    p = subprocess.run([NATIVE_PY, '-c', drv, backend], input=json.dumps(scen), capture_output=True, text=True, cwd=REPO,
                       env=dict(os.environ, PYTHONPATH=REPO, PYTHONDONTWRITEBYTECODE='1'), timeout=600)
    if p.returncode != 0:
        raise RuntimeError('native driver failed: ' + p.stderr[-500:])
    return json.loads(p.stdout.strip().splitlines()[-1])


def _engine_task(args):
    name, src, backend = args
    try:
        return run_engine(src, backend)
    except BaseException as e:
        return ['engine-error', repr(e)[:300]]


def main(argv=None):
    ap = argparse.ArgumentParser()
    ap.add_argument('--n', type=int, default=6)
    ap.add_argument('--jobs', type=int, default=16)
    ap.add_argument('--json', default=None)
    a = ap.parse_args(argv)
    seed = int(os.environ.get('VERIF_SEED', '0') or 0)
    rnd = random.Random(seed)
    scen = scenarios(rnd, a.n)
    import multiprocessing as mp
    bad = []
    total = 0
    kinds = {}
    for backend in ('native', 'cbitstruct'):
        nat = run_native(scen, backend)
        with mp.get_context('fork').Pool(a.jobs) as pool:
            eng = pool.map(_engine_task, [(n, s, backend) for n, s in scen], chunksize=4)
        for (name, src), x, y in zip(scen, nat, eng):
            total += 1
            kinds[name] = kinds.get(name, 0) + 1
            x = json.loads(json.dumps(x).replace('["raise", "error"]', '["raise", "struct.error"]'))     # struct.error.__name__ == 'error'
            if x != json.loads(json.dumps(y)):
                bad.append(dict(scenario=name, backend=backend, native=x, engine=y, source=src))
    print('differential: %d scenario runs (%d scenarios x 2 back ends), %d disagreements' % (total, len(scen), len(bad)))
    for b in bad[:8]:
        print('DISAGREEMENT', b['scenario'], b['backend'], '\n  native:', json.dumps(b['native'])[:300], '\n  engine:', json.dumps(b['engine'])[:300])
    if a.json:
        json.dump(dict(seed=seed, runs=total, kinds=kinds, disagreements=bad[:20]), open(a.json, 'w'), indent=1)
    return 3 if bad else 0


if __name__ == '__main__':
    sys.exit(main())
