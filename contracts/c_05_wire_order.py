"""C05 - per-stream wire order and fragment contiguity under multiplexing.  (DESIGN 5/C05)

Send queue = arbitrary FIFO of item ids.  Ghost functions on ids: stream(id), seq(id) (enqueue sequence number),
fragmentable(id); ghost array started[id] (a fragment of this source has been emitted).
Inv_Q:  for queue positions i < j with stream(Q[i]) = stream(Q[j]):  seq(Q[i]) < seq(Q[j])  and  not started(Q[j]).
Emission legality: the emitted frame belongs to the head; by Inv_Q the head is the oldest queued source of its
stream and no other source of that stream has started  =>  per-stream order and fragment contiguity (L-QUEUE).
"""
import z3

from pyvc.values import *   # noqa
from pyvc.engine import LoopSpec, EXC, Builtin
from pyvc.harness import harness, new_obj, OpaqueLog
from pyvc import models as M
from pyvc import aio

BASE = 'rsocket/rsocket_base.py::RSocketBase'
QP = 'rsocket/queue_peekable.py::QueuePeekable'

STREAM = z3.Function('q.stream', z3.IntSort(), z3.IntSort())
SEQ = z3.Function('q.seq', z3.IntSort(), z3.IntSort())
FRAGMENTABLE = z3.Function('q.fragmentable', z3.IntSort(), z3.BoolSort())


def inv_q(arr, h, t, started):
    i, j = z3.Ints('invq.i invq.j')
    return z3.ForAll([i, j], z3.Implies(
        z3.And(h <= i, i < j, j < t, STREAM(z3.Select(arr, i)) == STREAM(z3.Select(arr, j))),
        z3.And(SEQ(z3.Select(arr, i)) < SEQ(z3.Select(arr, j)), z3.Not(z3.Select(started, z3.Select(arr, j))))))


def inv_q_goal(E, arr, h, t, started):
    """skolemised form for proving"""
    i = z3.Int(E.path.fresh_name('sk.i'))
    j = z3.Int(E.path.fresh_name('sk.j'))
    return z3.Implies(
        z3.And(h <= i, i < j, j < t, STREAM(z3.Select(arr, i)) == STREAM(z3.Select(arr, j))),
        z3.And(SEQ(z3.Select(arr, i)) < SEQ(z3.Select(arr, j)), z3.Not(z3.Select(started, z3.Select(arr, j)))))


def mk_sock(E):
    E.import_module('asyncio')
    sock = new_obj(E, 'rsocket/rsocket_server.py::RSocketServer')
    q = aio.new_symbolic_queue(E, E.lookup(QP), 'sendq')
    sock.attrs['_send_queue'] = q
    sock.attrs['_fragment_size_bytes'] = None
    started = z3.Array(E.path.fresh_name('started'), z3.IntSort(), z3.BoolSort())
    s = q.attrs['_sym']
    E.path.add(inv_q(s['arr'], s['h'], s['t'], started))
    return sock, q, started


@harness('c05.send_frame', ['C05', 'C01', 'C08'], functions=[BASE + '.send_frame'],
         assumptions=['asyncio.Queue modelled as FIFO of item ids (put_nowait appends, get_nowait pops the head)'])
def send_frame(E):
    sock, q, started = mk_sock(E)
    s = q.attrs['_sym']
    fr = SOpaque('frame', 'new-frame')
    fid = aio.registry(E).id_of(fr)
    i = z3.Int('fresh.i')
    # a newly queued source has the maximal sequence number and has not started
    E.path.add(z3.ForAll([i], z3.Implies(z3.And(i >= s['h0'], i < s['t0']), SEQ(z3.Select(s['arr0'], i)) < SEQ(fid))))
    E.path.add(z3.Not(z3.Select(started, fid)))
    E.call(E.getattr(sock, 'send_frame'), [fr])
    E.cover('queued')
    E.prove('send_frame:appended_at_tail', z3.And(s['h'] == s['h0'], s['t'] == s['t0'] + 1, z3.Select(s['arr'], s['t0']) == fid))
    x = z3.Int(E.path.fresh_name('sk.x'))
    E.prove('send_frame:rest_of_queue_unchanged',
            z3.Implies(z3.And(x >= s['h0'], x < s['t0']), z3.Select(s['arr'], x) == z3.Select(s['arr0'], x)))
    E.prove('send_frame:inv_q_preserved', inv_q_goal(E, s['arr'], s['h'], s['t'], started))


GET_NEXT = BASE + '._get_next_frame_to_send'


def emit_setup(E):
    sock, q, started = mk_sock(E)
    s = q.attrs['_sym']
    E.assume(s['t'] > s['h'])                    # peek() returned: queue not empty
    st = {'started': started, 'fragments': []}

    def isinst(E_, obj, cls):
        # queued sources are arbitrary frames: every class test on them has an arbitrary (but per-source fixed) answer;
        # the classes the library distinguishes are related as in frame.py: request frames are fragmentable
        if '_id' not in obj.attrs:
            raise Unsupported('isinstance of %r with %s' % (obj, cls.name))
        if cls.name == 'FrameFragmentMixin':
            return mk_bool(FRAGMENTABLE(obj.attrs['_id']))
        fn = z3.Function('q.isa.' + cls.name, z3.IntSort(), z3.BoolSort())
        t = fn(obj.attrs['_id'])
        if cls.name in ('RequestResponseFrame', 'RequestStreamFrame', 'RequestChannelFrame', 'RequestFireAndForgetFrame', 'PayloadFrame',
                        'RequestFrame', 'FragmentableFrame'):
            E_.path.axiom(z3.Implies(t, FRAGMENTABLE(obj.attrs['_id'])))
        return mk_bool(t)
    E.opaque_isinstance = isinst

    def next_fragment(E_, obj, method, args, kwargs):
        # contract of FrameFragmentMixin.get_next_fragment on the queued source (K-FRAG): yields the next fragment frame of
        # THIS source; `follows` is set iff more fragments remain
        fid = obj.attrs['_id']
        follows = E_.fresh_bool('follows')
        fr = SOpaque('fragment-frame', 'fragment-of[%s]' % z3.simplify(fid),
                     attrs={'flags_follows': follows, 'source': fid, 'sent_future': None})
        st['started'] = z3.Store(st['started'], fid, True)
        st['fragments'].append(fr)
        return fr
    log = OpaqueLog(E, returns={'get_next_fragment': next_fragment, 'requires_length_header': lambda *a: E.fresh_bool('lh')})
    E.stubs[QP + '.peek'] = lambda E_, f, a, k: aio.Awaitable('ready', result=aio.sq_peek(E_, a[0]))
    E.queue_item_hook = lambda E_, term, label: SOpaque('qitem', label, attrs={'_id': term, 'sent_future': None,
                                                                               'stream_id': mk_int(STREAM(term))})

    def contains_after_head(E_, f, a, k):
        # contract of QueuePeekable.contains_after_head(predicate) (proved separately for every queue content: c05.contains_after_head; bounded instances kept as a cross-check):
        # True iff some item strictly behind the head satisfies the predicate
        qq, pred = a[0], a[1]
        ss = qq.attrs['_sym']
        if E_.path.choice(2, 'exists-behind-head') == 1:
            w = E_.fresh_int('witness')
            E_.assume(z3.And(I(w) > ss['h'], I(w) < ss['t']))
            item = aio.registry(E_).obj_of(z3.Select(ss['arr'], I(w)), 'witness')
            E_.assume(B(E_.truth(E_.call(pred, [item]))))
            return True
        jj = z3.Int('cah.j')
        probe = aio.registry(E_).obj_of(z3.Select(ss['arr'], jj), 'generic')
        body = B(E_.truth(E_.call(pred, [probe])))
        E_.path.add(z3.ForAll([jj], z3.Implies(z3.And(jj > ss['h'], jj < ss['t']), z3.Not(body))))
        return False
    E.stubs[QP + '.contains_after_head'] = contains_after_head
    transport = SOpaque('transport', 'transport')
    return sock, q, st, log, transport


def suspension(E, sock, q, st, emitted):
    """The generator's `yield` is where the sender hands the frame to the transport and may be suspended in the write
    for any duration.  At that point (1) the queue invariant must hold - other coroutines run against it - and (2) the
    *rely* is applied: other coroutines may queue frames meanwhile (send_frame: fresh source, maximal sequence number,
    not started, any stream - in particular the stream being sent).  One append is enough to expose a step that is only
    safe when nothing is queued during the write; the remainder of the generator then runs on the changed queue."""
    def on_yield(v):
        emitted.append(v)
        s = q.attrs['_sym']
        E.prove('emit:inv_q_holds_when_the_sender_suspends_in_the_write', inv_q_goal(E, s['arr'], s['h'], s['t'], st['started']))
        if E.path.choice(2, 'queued-during-write') == 1:
            fr = SOpaque('frame', 'queued-during-write')
            fid = aio.registry(E).id_of(fr)
            i = z3.Int('rely.i')
            E.path.add(z3.ForAll([i], z3.Implies(z3.And(i >= s['h'], i < s['t']), SEQ(z3.Select(s['arr'], i)) < SEQ(fid))))
            E.path.add(z3.Not(z3.Select(st['started'], fid)))
            E.call(E.getattr(sock, 'send_frame'), [fr])
            st['queued_during_write'] = fid
        return None
    return on_yield


@harness('c05.emit', ['C05', 'C01', 'C09', 'C08', 'C03', 'C10', 'C06'], functions=[GET_NEXT], replay='c05_emit',
         assumptions=['QueuePeekable.peek is used through its contract: returns the head without removing it (verified separately: c05.peek)',
                      'get_next_fragment of the queued source is used through its K-FRAG contract (C03)',
                      'L-QUEUE (emission legality at every step => per-stream order and fragment contiguity of the wire log) is a '
                      'meta-level induction over emissions'])
def emit(E):
    sock, q, st, log, transport = emit_setup(E)
    s = q.attrs['_sym']
    head = z3.Select(s['arr0'], s['h0'])
    cm = E.call(E.getattr(sock, '_get_next_frame_to_send'), [transport])
    emitted = []
    E.run_generator(cm.gen, suspension(E, sock, q, st, emitted))
    E.cover('emitted')
    E.prove('emit:exactly_one_frame', len(emitted) == 1)
    fr = emitted[0]
    src = fr.attrs.get('source', fr.attrs.get('_id'))
    E.prove('emit:frame_belongs_to_the_head_source', src is not None and src == head)
    # legality, from Inv_Q of the pre-state: head is the oldest of its stream, nobody else of that stream has started
    j = E.fresh_int('other')
    E.assume(z3.And(I(j) > s['h0'], I(j) < s['t0'], STREAM(z3.Select(s['arr0'], I(j))) == STREAM(head)))
    E.prove('emit:legal[head is the oldest source of its stream and no other one has started]',
            z3.And(SEQ(head) < SEQ(z3.Select(s['arr0'], I(j))), z3.Not(z3.Select(st['started'], z3.Select(s['arr0'], I(j))))))


@harness('c05.emit.inv', ['C05', 'C01', 'C09', 'C08', 'C03', 'C10', 'C06'], functions=[GET_NEXT], replay='c05_emit',
         assumptions=['as c05.emit'])
def emit_inv(E):
    sock, q, st, log, transport = emit_setup(E)
    s = q.attrs['_sym']
    cm = E.call(E.getattr(sock, '_get_next_frame_to_send'), [transport])
    emitted = []
    E.run_generator(cm.gen, suspension(E, sock, q, st, emitted))
    E.cover('emitted')
    follows = emitted[0].attrs.get('flags_follows', False) if emitted else False
    case = 'source finished or not fragmentable' if follows is False else 'fragment with more to follow'
    if isinstance(follows, SBool):
        case = 'fragment with more to follow' if E.decide(follows, 'follows') else 'last fragment'
    E.prove('emit:inv_q_preserved[%s]' % case, inv_q_goal(E, s['arr'], s['h'], s['t'], st['started']))
    extra = 1 if 'queued_during_write' in st else 0       # a frame queued by another coroutine during the write
    if case != 'fragment with more to follow':
        E.prove('emit:finished_source_leaves_queue[%s]' % case, z3.And(s['h'] == s['h0'] + 1, s['t'] == s['t0'] + extra))
    else:
        E.prove('emit:unfinished_source_stays_queued',
                z3.Or(z3.And(s['h'] == s['h0'], s['t'] == s['t0'] + extra),                # kept at the head
                      z3.And(s['h'] == s['h0'] + 1, s['t'] == s['t0'] + 1 + extra,         # or moved to the tail, *before* the write
                             z3.Select(s['arr'], s['t0']) == z3.Select(s['arr0'], s['h0']))))
    if extra:
        E.prove('emit:frame_queued_during_the_write_is_behind_everything_queued_before',
                z3.Select(s['arr'], s['t'] - 1) == st['queued_during_write'])


def _emit_bounded(n):
    """Bounded instance of c05.emit.inv (queue length n, quantifiers expanded): gives concrete counter-models, which the
    quantified obligation cannot (solver answers unknown on refutation)."""
    def run(E):
        E.import_module('asyncio')
        sock = new_obj(E, 'rsocket/rsocket_server.py::RSocketServer')
        q = E.call(E.lookup(QP), [])
        sock.attrs['_send_queue'] = q
        items = []
        for i in range(n):
            it = SOpaque('qitem', 'item%d' % i, attrs={'stream_id': E.input('stream[%d]' % i, E.fresh_int('stream%d' % i, 0, 7)),
                                                      'seq': E.fresh_int('seq%d' % i), 'sent_future': None,
                                                      'fragmentable': E.input('fragmentable[%d]' % i, E.fresh_bool('fragmentable%d' % i)),
                                                      'is_request': E.input('is_request[%d]' % i, E.fresh_bool('is_request%d' % i)),
                                                      'started': E.input('started[%d]' % i, E.fresh_bool('started%d' % i))})
            E.assume(z3.Implies(B(it.attrs['is_request']), B(it.attrs['fragmentable'])))      # request frames are fragmentable
            items.append(it)
            E.call(E.getattr(q, 'put_nowait'), [it])

        def invq(seq_items):
            conj = []
            for a in range(len(seq_items)):
                for b in range(a + 1, len(seq_items)):
                    x, y = seq_items[a], seq_items[b]
                    conj.append(z3.Implies(I(x.attrs['stream_id']) == I(y.attrs['stream_id']),
                                           z3.And(I(x.attrs['seq']) < I(y.attrs['seq']), z3.Not(B(y.attrs['started'])))))
            return z3.And(conj) if conj else z3.BoolVal(True)
        E.assume(invq(items))
        REQ = ('RequestResponseFrame', 'RequestStreamFrame', 'RequestChannelFrame', 'RequestFireAndForgetFrame')
        E.opaque_isinstance = lambda E_, obj, cls: (obj.attrs['fragmentable'] if cls.name == 'FrameFragmentMixin' else
                                                    (obj.attrs.get('is_request', False) if cls.name in REQ else False))

        def next_fragment(E_, obj, method, args, kwargs):
            obj.attrs['started'] = True
            return SOpaque('fragment-frame', 'fragment', attrs={'flags_follows': E_.input('follows', E_.fresh_bool('follows')),
                                                                 'source': obj, 'sent_future': None})
        log = OpaqueLog(E, returns={'get_next_fragment': next_fragment, 'requires_length_header': lambda *a: True})
        cm = E.call(E.getattr(sock, '_get_next_frame_to_send'), [SOpaque('transport', 'transport')])
        emitted = []
        E.run_generator(cm.gen, lambda v: emitted.append(v))
        E.cover('emitted')
        src = emitted[0].attrs.get('source', emitted[0])
        E.prove('emit.bounded:frame_belongs_to_head', src is items[0])
        E.prove('emit.bounded:inv_q_preserved', invq(q.attrs['_queue']))
    return run


from pyvc.harness import thorough as _thorough   # noqa: E402

for _n in range(1, 7 if _thorough() else 5):
    harness('c05.emit.bounded[queue_length=%d]' % _n, ['C05', 'C08', 'C09', 'C01', 'C03', 'C10'], kind='bounded', functions=[GET_NEXT], replay='c05_emit',
            assumptions=['BOUNDED instance (queue length <= 4, quantifiers expanded) used only to obtain concrete counter-models; '
                         'the unbounded obligation is c05.emit.inv'])(_emit_bounded(_n))


@harness('c05.peek', ['C05'], functions=[QP + '.peek', QP + '.peek_nowait'])
def peek(E):
    E.import_module('asyncio')
    q = aio.new_symbolic_queue(E, E.lookup(QP), 'sendq')
    s = q.attrs['_sym']
    E.assume(s['t'] > s['h'])
    r = E.await_value(E.call(E.getattr(q, 'peek'), []))
    E.cover('peeked')
    E.prove('peek:returns_head', r.attrs['_id'].eq(z3.Select(s['arr0'], s['h0'])) or
            z3.simplify(r.attrs['_id'] == z3.Select(s['arr0'], s['h0'])))
    E.prove('peek:queue_unchanged', z3.And(s['h'] == s['h0'], s['t'] == s['t0'], s['arr'].eq(s['arr0'])))
    q2 = aio.new_symbolic_queue(E, E.lookup(QP), 'emptyq')
    E.path.add(q2.attrs['_sym']['t'] == q2.attrs['_sym']['h'])
    try:
        E.call(E.getattr(q2, 'peek_nowait'), [])
        E.prove('peek_nowait:empty_raises', False)
    except PyExc as e:
        E.prove('peek_nowait:empty_raises_QueueEmpty', e.value.cls.issubclass(EXC['QueueEmpty']))


def _contains_after_head(n):
    def run(E):
        E.import_module('asyncio')
        q = E.call(E.lookup(QP), [])
        vals = [E.fresh_int('v%d' % i) for i in range(n)]
        for v in vals:
            E.call(E.getattr(q, 'put_nowait'), [SOpaque('item', 'i', attrs={'stream_id': v})])
        sid = E.fresh_int('sid')
        # the queue operation itself, with a predicate of the contract (how the endpoint uses it is part of the emission contract)
        pred = Builtin('predicate', lambda item: mk_bool(I(item.attrs['stream_id']) == I(sid)))
        r = E.call(E.getattr(q, 'contains_after_head'), [pred])
        E.cover('checked')
        want = z3.Or([I(v) == I(sid) for v in vals[1:]]) if n > 1 else z3.BoolVal(False)
        E.prove('contains_after_head:true_iff_some_item_behind_the_head_matches', B(E.truth(r)) == want)
        E.prove('contains_after_head:queue_unchanged', len(q.attrs['_queue']) == n)
        if n >= 1:
            # asked again after the queue changed without changing its length: the answer is about the current content
            E.call(E.getattr(q, 'get_nowait'), [])
            E.call(E.getattr(q, 'put_nowait'), [SOpaque('item', 'queued-later', attrs={'stream_id': sid})])
            r2 = E.call(E.getattr(q, 'contains_after_head'), [pred])
            E.prove('contains_after_head:answers_for_the_current_content[a matching frame queued meanwhile counts iff something is in front of it]',
                    B(E.truth(r2)) == z3.BoolVal(n >= 2))
    return run


@harness('c05.contains_after_head', ['C05', 'C08', 'C09', 'C01', 'C10'], functions=[QP + '.contains_after_head'],
         fallback=r'^c05\.contains_after_head\[',
         assumptions=['Python semantics of list(deque)[1:] and any(generator expression) as modelled: the slice drops exactly the first '
                      'element (none if empty), any() is the existential over the elements; the element test is evaluated on a generic '
                      'element and must not branch on it'])
def contains_after_head_unbounded(E):
    """For EVERY queue content (any length): true iff some item strictly behind the head satisfies the predicate; the queue is
    not changed.  (The bounded instances below stay as a cross-check that does not depend on the quantified model.)"""
    E.import_module('asyncio')
    q = aio.new_symbolic_queue(E, E.lookup(QP), 'sendq')
    E.queue_item_hook = lambda E_, term, label: SOpaque('qitem', label, attrs={'_id': term, 'stream_id': mk_int(STREAM(term))})
    s = q.attrs['_sym']
    sid = E.fresh_int('sid')
    pred = Builtin('predicate', lambda item: mk_bool(I(item.attrs['stream_id']) == I(sid)))
    r = E.call(E.getattr(q, 'contains_after_head'), [pred])
    E.cover('checked')
    res = B(E.truth(r))
    w = z3.Int(E.path.fresh_name('witness'))
    j = z3.Int('cah.j')
    E.prove('contains_after_head:true_if_some_item_behind_the_head_matches[any position, any length]',
            z3.Implies(z3.And(w > s['h0'], w < s['t0'], STREAM(z3.Select(s['arr0'], w)) == I(sid)), res))
    E.prove('contains_after_head:false_if_no_item_behind_the_head_matches[the head itself does not count]',
            z3.Implies(z3.ForAll([j], z3.Implies(z3.And(j > s['h0'], j < s['t0']), STREAM(z3.Select(s['arr0'], j)) != I(sid))), z3.Not(res)))
    E.prove('contains_after_head:queue_unchanged', z3.And(s['h'] == s['h0'], s['t'] == s['t0'], s['arr'].eq(s['arr0'])))
    # ... and it answers for the queue's CURRENT content: asked again after the queue changed (same length: the head was sent,
    # a frame of the stream in question was queued), the new frame counts and the old snapshot does not
    if E.decide(mk_bool(s['t'] > s['h']), 'non-empty'):
        nid = aio.registry(E).id_of(SOpaque('frame', 'later'))
        E.assume(STREAM(I(nid)) == I(sid))
        newcomer = SOpaque('qitem', 'queued-later', attrs={'_id': nid, 'stream_id': sid})
        E.call(E.getattr(q, 'get_nowait'), [])
        E.call(E.getattr(q, 'put_nowait'), [newcomer])
        r2 = E.call(E.getattr(q, 'contains_after_head'), [pred])
        # the newcomer (stream sid) sits at the tail: it is behind the head exactly when something else is still in front of it
        E.prove('contains_after_head:answers_for_the_current_content[a frame queued meanwhile counts, same queue length or not]',
                z3.Implies(s['t'] - s['h'] >= 2, B(E.truth(r2))))


for _n in range(0, 5):
    harness('c05.contains_after_head[queue_length=%d]' % _n, ['C05', 'C08', 'C09', 'C01', 'C10'], kind='bounded',
            functions=[QP + '.contains_after_head', BASE + '._is_stream_queued_behind_head'],
            assumptions=['BOUNDED stand-in: the scan over the deque is checked for queue lengths 0..4 with symbolic stream ids'])(
        _contains_after_head(_n))


SPF = BASE + '.send_priority_frame'


@harness('c05.send_priority_frame', ['C05', 'C16', 'C08', 'C01'], functions=[SPF], fallback=r'^c05\.send_priority_frame\[',
         assumptions=['the drained items are held in a Python list: modelled as a list of symbolic length (append / len / iteration in '
                      'order); asyncio.Queue put_nowait / get_nowait / empty as modelled (FIFO)'])
def priority_unbounded(E):
    """For EVERY content of the send queue: afterwards the queue holds the priority frame at its head followed by exactly the
    previous content in the previous order - nothing lost, nothing duplicated, nothing re-ordered.  Two loop contracts (drain,
    refill) over a symbolic list of drained items."""
    E.import_module('asyncio')
    sock = new_obj(E, 'rsocket/rsocket_client.py::RSocketClient')
    q = aio.new_symbolic_queue(E, E.lookup(QP), 'sendq')
    sock.attrs['_send_queue'] = q
    E.queue_item_hook = lambda E_, term, label: SOpaque('qitem', label, attrs={'_id': term})
    s = q.attrs['_sym']
    arr0, h0, t0 = s['arr0'], s['h0'], s['t0']
    fr = SOpaque('frame', 'priority')
    fid = aio.registry(E).id_of(fr)
    ITEMS = (('appended',),)
    j = z3.Int('spf.j')
    st = {}

    def drained(ctx):
        return ctx.local('items', *ITEMS)

    def inv_drain(ctx):
        k = I(ctx.k)
        if ctx.phase == 'entry':
            it = drained(ctx)
            return [('nothing drained yet', isinstance(it, list) and it == [] and True)]
        it = drained(ctx)
        return [('k items drained from the head, in order, nothing else touched',
                 z3.And(I(it.n) == k, s['h'] == h0 + k, s['t'] == t0, k <= t0 - h0, s['arr'].eq(arr0) if ctx.phase == 'head' else s['arr'] == arr0,
                        z3.ForAll([j], z3.Implies(z3.And(j >= 0, j < k), z3.Select(it.arr, j) == z3.Select(arr0, h0 + j)))))]

    def havoc_drain(ctx):
        lst = M.SymList(z3.Array(E.path.fresh_name('items.arr'), z3.IntSort(), z3.IntSort()), E.fresh_int('items.n', 0), 'items')
        ctx.set_local('items', lst, *ITEMS)
        st['items'] = lst
        s['h'] = z3.Int(E.path.fresh_name('sendq.h'))
    E.loop_specs[(SPF, 0)] = LoopSpec(inv_drain, lambda ctx: s['t'] - s['h'], havoc=havoc_drain, modifies=['!items'])

    def inv_refill(ctx):
        k = I(ctx.k)
        it = st['items']
        return [('priority frame first, then the first k drained items in order',
                 z3.And(s['h'] == t0, s['t'] == t0 + 1 + k, z3.Select(s['arr'], t0) == fid,
                        z3.ForAll([j], z3.Implies(z3.And(j >= 0, j < k), z3.Select(s['arr'], t0 + 1 + j) == z3.Select(it.arr, j)))))]

    def havoc_refill(ctx):
        s['t'] = z3.Int(E.path.fresh_name('sendq.t'))
        s['arr'] = z3.Array(E.path.fresh_name('sendq.arr'), z3.IntSort(), z3.IntSort())
        q.attrs['_unfinished_tasks'] = E.fresh_int('sendq.unfinished')
    E.loop_specs[(SPF, 1)] = LoopSpec(inv_refill, None, havoc=havoc_refill)
    E.call(E.getattr(sock, 'send_priority_frame'), [fr])
    E.cover('inserted')
    n = t0 - h0
    E.prove('priority:frame_at_the_head', z3.And(s['t'] - s['h'] == n + 1, z3.Select(s['arr'], s['h']) == fid))
    E.prove('priority:previous_content_behind_it_in_the_previous_order[nothing lost, duplicated or re-ordered; any length]',
            z3.ForAll([j], z3.Implies(z3.And(j >= 0, j < n), z3.Select(s['arr'], s['h'] + 1 + j) == z3.Select(arr0, h0 + j))))


def _priority(n):
    def run(E):
        E.import_module('asyncio')
        sock = new_obj(E, 'rsocket/rsocket_client.py::RSocketClient')
        q = E.call(E.lookup(QP), [])
        sock.attrs['_send_queue'] = q
        old = [SOpaque('frame', 'queued%d' % i) for i in range(n)]
        for f in old:
            E.call(E.getattr(q, 'put_nowait'), [f])
        fr = SOpaque('frame', 'priority')
        E.call(E.getattr(sock, 'send_priority_frame'), [fr])
        E.cover('inserted')
        now = q.attrs['_queue']
        E.prove('priority:frame_at_head_previous_content_behind_in_order',
                len(now) == n + 1 and now[0] is fr and all(a is b for a, b in zip(now[1:], old)))
    return run


for _n in range(0, 6):
    harness('c05.send_priority_frame[queue_length=%d]' % _n, ['C05', 'C16', 'C08', 'C01'], functions=[BASE + '.send_priority_frame'], kind='bounded',
            assumptions=['BOUNDED stand-in: head insert checked for queue lengths 0..5 with generic items (the two loops are '
                         'element-independent); not counted as proved'])(_priority(_n))


SENDER = BASE + '._sender'


@harness('c05.sender.iteration', ['C05', 'C01', 'C11', 'C12'], functions=[SENDER, GET_NEXT],
         assumptions=['Transport.send_frame / on_send_queue_empty are abstract suspension points that may raise',
                      'rely: while the sender is suspended other segments only append to the send queue (send_frame contract), '
                      'which preserves Inv_Q (c05.send_frame)'])
def sender_iteration(E):
    sock, q, st, log, transport = emit_setup(E)
    s = q.attrs['_sym']
    futs = []
    gave_up = []

    def next_fragment(E_, obj, method, args, kwargs):
        fid = obj.attrs['_id']
        fut = None
        if E_.path.choice(2, 'has-sent-future') == 1:
            fut = aio.new_future(E_)
            futs.append(fut)
            # the future is the awaitable fire_and_forget() / metadata_push() handed to the application, which may have given
            # up on it (asyncio.wait_for timing out cancels it) before the frame is written
            if E_.path.choice(2, 'application-cancelled-the-awaitable-before-the-frame-was-written') == 1:
                fut.attrs['state'] = 'cancelled'
                gave_up.append(fut)
        fr = SOpaque('fragment-frame', 'fragment', attrs={'flags_follows': E_.fresh_bool('follows'), 'source': fid, 'sent_future': fut})
        return fr
    log.returns['get_next_fragment'] = next_fragment
    log.returns['send_frame'] = lambda *a: aio.Awaitable('ready')
    log.returns['on_send_queue_empty'] = lambda *a: aio.Awaitable('ready')
    E.queue_item_hook = lambda E_, term, label: SOpaque('qitem', label, attrs={'_id': term, 'sent_future': None})
    tf = aio.new_future(E, 'result', transport)
    E.stubs['rsocket/rsocket_server.py::RSocketServer._current_transport'] = lambda E_, f, a, k: tf
    alive = [True, False]
    E.stubs['rsocket/rsocket_server.py::RSocketServer.is_server_alive'] = lambda E_, f, a, k: alive.pop(0)
    try:
        E.await_value(E.call(E.getattr(sock, '_sender'), []))
    except PyExc as e:
        E.cover('sender-died')
        E.prove('@C12,C05,C11,C01:sender:an_awaitable_the_application_gave_up_on_does_not_stop_the_sender[%s escaped: nothing is written any more, '
                'every later request on the connection hangs]' % e.value.cls.name, False)
        return
    E.cover('one-iteration')
    sends = log.of(transport, 'send_frame')
    E.prove('sender:exactly_one_frame_written_per_iteration', len(sends) == 1)
    fr = sends[0][2][0]
    src = fr.attrs.get('source', fr.attrs.get('_id'))
    E.prove('sender:written_frame_belongs_to_head', src == z3.Select(s['arr0'], s['h0']))
    fut = fr.attrs.get('sent_future')
    if fut is not None and fut in gave_up:
        E.prove('sender:a_cancelled_awaitable_stays_cancelled', fut.attrs['state'] == 'cancelled')
    elif fut is not None:
        E.prove('sender:sent_future_of_written_frame_resolved', fut.attrs['state'] == 'result')
        ev = [e for e in E.path.ghost.get('events', []) if e[0] == 'future.set_result' and e[1] == fut.attrs['label']]
        E.prove('sender:resolved_exactly_once', len(ev) == 1)
    for other in futs:
        if other is not fut:
            E.prove('sender:no_other_future_resolved', other.attrs['state'] == ('cancelled' if other in gave_up else 'pending'))


# --------------------------------------------------------------------------- frame condition: who may touch the send queue

KNOWN_QUEUE_METHODS = {'send_frame', 'send_priority_frame', '_get_next_frame_to_send', '_reset_internals',
                       '_is_stream_queued_behind_head', '_sender'}


READ_ONLY_QUEUE_OPS = {'qsize', 'empty', 'full', 'peek', 'peek_nowait', 'contains_after_head'}


def _queue_mutators(E):
    """Methods of RSocketBase (and subclasses in the same files) whose body calls something on self._send_queue."""
    import ast as _ast
    import os as _os
    out = []
    for rel in ('rsocket/rsocket_base.py', 'rsocket/rsocket_client.py', 'rsocket/rsocket_server.py'):
        tree = _ast.parse(open(_os.path.join(E.repo_root, rel)).read())
        for cls in [n for n in tree.body if isinstance(n, _ast.ClassDef)]:
            for fn in [n for n in cls.body if isinstance(n, (_ast.FunctionDef, _ast.AsyncFunctionDef))]:
                # any mention of self._send_queue counts (a method call on it, or taking it into a local alias) - except as the
                # receiver of a call that only OBSERVES the queue (logging its size, testing emptiness, peeking)
                observers = set()
                for n in _ast.walk(fn):
                    if isinstance(n, _ast.Call) and isinstance(n.func, _ast.Attribute) and n.func.attr in READ_ONLY_QUEUE_OPS \
                            and isinstance(n.func.value, _ast.Attribute) and n.func.value.attr == '_send_queue':
                        observers.add(id(n.func.value))
                for n in _ast.walk(fn):
                    if isinstance(n, _ast.Attribute) and n.attr == '_send_queue' and isinstance(n.ctx, _ast.Load) and id(n) not in observers:
                        out.append((rel, cls.name, fn.name, 'uses', isinstance(fn, _ast.AsyncFunctionDef), len(fn.args.args) - 1))
                        break
    return out


def _only_called_from_contracted_methods(E, mname, known):
    """A PRIVATE helper all of whose call sites (self.<name>(...)) are inside methods that have a queue contract of their own
    is executed, with its real body, whenever those contracts are checked: it is part of them, not an operation of its own."""
    import ast as _ast
    import os as _os
    if not mname.startswith('_') or mname.startswith('__'):
        return False
    callers = set()
    for rel in ('rsocket/rsocket_base.py', 'rsocket/rsocket_client.py', 'rsocket/rsocket_server.py'):
        tree = _ast.parse(open(_os.path.join(E.repo_root, rel)).read())
        for cls in [n for n in tree.body if isinstance(n, _ast.ClassDef)]:
            for fn in [n for n in cls.body if isinstance(n, (_ast.FunctionDef, _ast.AsyncFunctionDef))]:
                for n in _ast.walk(fn):
                    if isinstance(n, _ast.Attribute) and n.attr == mname and isinstance(n.value, _ast.Name) and n.value.id == 'self' \
                            and fn.name != mname:
                        callers.add(fn.name)
    return bool(callers) and all(c in known for c in callers)


@harness('c05.queue_frame_condition.bounded', ['C05', 'C10', 'C09', 'C08', 'C01'], kind='bounded', functions=[BASE + '.send_frame'],
         assumptions=['BOUNDED stand-in for operations on the send queue that have no contract of their own (none on the unchanged '
                      'tree): queue of up to 3 sources with symbolic streams / started flags; integer arguments symbolic'])
def queue_frame_condition(E):
    """The queue invariant is proved for send_frame / send_priority_frame / the sender step.  Any OTHER operation of the
    endpoint that touches the queue must at least keep it: per-stream order, and - since the receiver is in the middle of
    reassembling it - a partially sent source is never dropped."""
    muts = _queue_mutators(E)
    E.cover('scanned')
    names = set(KNOWN_QUEUE_METHODS)
    changed = True
    while changed:          # helpers of helpers
        changed = False
        for m in muts:
            if m[2] not in names and _only_called_from_contracted_methods(E, m[2], names):
                names.add(m[2])
                changed = True
    known = [m for m in muts if m[2] in names]
    other = [m for m in muts if m[2] not in names]
    E.prove('frame_condition:every_other_user_of_the_send_queue_is_checked_below', len(other) == len([m for m in muts if m not in known]))
    for rel, cname, mname, op, is_async, nargs in other:
        E.import_module('asyncio')
        sock = new_obj(E, 'rsocket/rsocket_server.py::RSocketServer')
        q = E.call(E.lookup(QP), [])
        sock.attrs['_send_queue'] = q
        n = 1 + E.path.choice(3, 'queue-length')
        items = []
        for i in range(n):
            it = SOpaque('qitem', 'item%d' % i, attrs={'stream_id': E.input('stream[%d]' % i, E.fresh_int('stream%d' % i, 0, 7)),
                                                      'seq': i, 'sent_future': None,
                                                      'started': E.input('started[%d]' % i, E.fresh_bool('started%d' % i))})
            items.append(it)
            E.call(E.getattr(q, 'put_nowait'), [it])
        # Inv_Q of the pre-state: only the oldest source of a stream may have started
        for a in range(n):
            for b in range(a + 1, n):
                E.assume(z3.Implies(I(items[a].attrs['stream_id']) == I(items[b].attrs['stream_id']), z3.Not(B(items[b].attrs['started']))))
        args = [E.input('arg%d' % j, E.fresh_int('arg%d' % j, 0, 7)) for j in range(nargs)]
        log = OpaqueLog(E)
        try:
            r = E.call(E.getattr(sock, mname), args)
            if is_async:
                E.await_value(r)
        except PyExc:
            pass
        left = list(q.attrs['_queue'])
        E.prove('frame_condition:a_partially_sent_frame_is_never_dropped_from_the_send_queue[%s.%s]' % (cname, mname),
                z3.And([z3.Implies(B(it.attrs['started']), any(x is it for x in left)) for it in items]))
        order = [items.index(x) for x in left if any(x is y for y in items)]
        E.prove('frame_condition:queue_order_kept[%s.%s]' % (cname, mname), order == sorted(order))


@harness('c05.peek.waiting', ['C05'], functions=[QP + '.peek', QP + '.peek_nowait'],
         assumptions=['asyncio.Queue internals as in CPython 3.8-3.12: put_nowait appends the item, then _wakeup_next pops the first '
                      'waiter of _getters that is not done and gives it a result; waiters are plain loop futures'])
def peek_waiting(E):
    """The sender parks in peek() while the queue is empty.  When another coroutine queues a frame, peek() returns that
    frame WITHOUT removing it; when the wait fails, the waiter is withdrawn and a frame that arrived meanwhile is handed to
    the next waiter - nothing is lost, nothing is taken twice."""
    E.import_module('asyncio')
    q = E.call(E.lookup(QP), [])
    item = SOpaque('frame', 'queued-while-waiting')
    how = E.path.choice(3, 'wait-ends-by')           # 0 put_nowait wakes us, 1 wait fails and nothing arrived, 2 fails but an item arrived
    err = E.make_exc('RuntimeError', 'loop shutting down')
    other = aio.new_future(E)
    woken = []

    def on_suspend(E_, what):
        kind, fut = what
        if kind != 'future':
            return None
        getters = q.attrs['_getters']
        E_.prove('peek:parks_exactly_one_waiter_in_the_getters_list', len(getters) == 1 and getters[0] is fut)
        if how == 0:
            q.attrs['_queue'].append(item)       # put_nowait(item) by another coroutine ...
            getters.remove(fut)                  # ... whose _wakeup_next pops the waiter
            fut.attrs['state'], fut.attrs['value'] = 'result', None
        else:
            if how == 2:
                q.attrs['_queue'].append(item)
                getters.append(other)            # somebody else waits as well
            fut.attrs['state'], fut.attrs['value'] = 'exception', err
        return None
    E.suspend_hook = on_suspend
    # instrument the modelled asyncio.Queue method (not an attribute of the repository class: set below the sealing check)
    dict.__setitem__(q.attrs, '_wakeup_next', Builtin('Queue._wakeup_next', lambda waiters: woken.append(list(waiters))))
    if True:
        try:
            r = E.await_value(E.call(E.getattr(q, 'peek'), []))
        except PyExc as e:
            E.cover('wait-failed')
            E.prove('peek:only_the_failure_of_the_wait_escapes', how in (1, 2) and e.value is err)
            E.prove('peek:failed_waiter_withdrawn', not any(g is not other for g in q.attrs['_getters']))
            E.prove('peek:a_frame_that_arrived_meanwhile_stays_queued', len(q.attrs['_queue']) == (1 if how == 2 else 0))
            if how == 2:
                E.prove('peek:the_next_waiter_is_woken_for_the_frame_it_cannot_take', len(woken) == 1)
            return
        E.cover('woken')
        E.prove('peek:returns_the_frame_that_was_queued', how == 0 and r is item)
        E.prove('peek:does_not_remove_it', len(q.attrs['_queue']) == 1 and q.attrs['_queue'][0] is item)
        E.prove('peek:no_waiter_left_behind', q.attrs['_getters'] == [])
