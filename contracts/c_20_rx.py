"""C20 - Rx (v3) / ReactiveX (v4) adapters are transparent.  (DESIGN 5/C20)
Both packages are verified with the same contracts.  The rx / reactivex libraries themselves are assumed models
(pyvc.rxmodel): Subject delivers synchronously in order, create(f).subscribe(o) calls f(o, scheduler), operators opaque."""
import z3

from pyvc.values import *   # noqa
from pyvc.engine import LoopSpec, EXC
from pyvc.harness import state_attr, harness, new_obj, OpaqueLog
from pyvc import models as M
from pyvc import aio
from contracts.c_06_sources import range_stub

PKGS = {
    'reactivex': dict(dir='rsocket/reactivex/', adapter='reactivex_handler_adapter.py::ReactivexHandlerAdapter',
                      client='reactivex_client.py::ReactiveXClient'),
    'rx': dict(dir='rsocket/rx_support/', adapter='rx_handler_adapter.py::RxHandlerAdapter', client='rx_rsocket.py::RxRSocket'),
}
RXA = ['rx / reactivex library behaviour is an assumed model (pyvc.rxmodel; conformance-checked on short signal sequences, bounded)']


def _delegation(pkg):
    P = PKGS[pkg]
    AD = P['dir'] + P['adapter']

    def run(E):
        E.import_module('asyncio')
        delegate = SOpaque('delegate', 'delegate-handler')
        ad = E.call(E.lookup(AD), [delegate])
        methods = {'on_setup': 3, 'on_metadata_push': 1, 'request_fire_and_forget': 1, 'on_error': 2, 'on_keepalive_timeout': 2,
                   'on_connection_error': 2, 'on_close': 2}
        name = sorted(methods)[E.path.choice(len(methods), 'method')]
        args = [SOpaque('arg', '%s-arg%d' % (name, i)) for i in range(methods[name])]
        log = OpaqueLog(E, returns={name: lambda *a: aio.Awaitable('ready')})
        try:
            E.await_value(E.call(E.getattr(ad, name), args))
        except PyExc as e:
            E.cover('raised')
            E.prove('delegate:%s_terminates_and_reaches_the_delegate' % name, False)
            return
        E.cover('delegated')
        calls = log.of(delegate)
        E.prove('delegate:%s_awaits_the_delegate_method_of_the_same_name_exactly_once_with_the_same_arguments' % name,
                len(calls) == 1 and calls[0][1] == name and all(a is b for a, b in zip(calls[0][2], args)) and len(calls[0][2]) == len(args))
    return run


def _adapter_requests(pkg):
    P = PKGS[pkg]
    AD = P['dir'] + P['adapter']
    BP = P['dir'] + 'back_pressure_publisher.py::'

    def run(E):
        E.import_module('asyncio')
        delegate = SOpaque('delegate', 'delegate-handler')
        ad = E.call(E.lookup(AD), [delegate])
        payload = SOpaque('payload', 'payload')
        kind = E.path.choice(3, 'observable-kind')
        rx = E.import_module('reactivex' if pkg == 'reactivex' else 'rx')
        plain = SObj(M._builtin_class('rx.Observable'), {'tag': 'plain'})
        if kind == 0:
            obs = plain
        elif kind == 1:
            obs = E.call(E.lookup(BP + 'from_observable_with_backpressure'), [SOpaque('callable', 'factory')])
        else:
            obs = None
        which = E.path.choice(3, 'interaction')
        if which == 2:
            # request-response: the handler's observable (given directly or through a future) becomes the response future:
            # its first element, or an empty payload if it completes empty (Rx: default_if_empty + to_future, assumed semantics)
            if kind != 0:
                raise PathEnd('request-response handlers return a plain observable')
            # (only the ReactiveX v4 adapter accepts a future of an observable; the Rx v3 handler interface returns the observable)
            via_future = pkg == 'reactivex' and E.path.choice(2, 'observable-given-through-a-future') == 1
            given = aio.new_future(E, 'result', plain) if via_future else plain
            log = OpaqueLog(E, returns={'request_response': lambda *a: aio.Awaitable('ready', result=given)})
            r = E.await_value(E.call(E.getattr(ad, 'request_response'), [payload]))
            E.cover('response')
            calls = log.of(delegate)
            E.prove('request_response:delegate_called_once_with_the_payload', len(calls) == 1 and calls[0][1] == 'request_response' and calls[0][2] == (payload,))
            ops = r.attrs.get('operators', []) if isinstance(r, SObj) else None
            E.prove('request_response:response_is_the_first_element_of_exactly_the_handlers_observable_or_an_empty_payload',
                    isinstance(r, SObj) and r.attrs.get('source') is plain and [getattr(o, 'ident', None) for o in ops] == ['default_if_empty', 'to_future']
                    and len(ops[0].attrs['args']) == 1 and isinstance(ops[0].attrs['args'][0], SObj) and ops[0].attrs['args'][0].cls.name == 'Payload'
                    and ops[0].attrs['args'][0].attrs['data'] is None and ops[0].attrs['args'][0].attrs['metadata'] is None)
            return
        if which == 0:
            log = OpaqueLog(E, returns={'request_stream': lambda *a: aio.Awaitable('ready', result=obs)})
            r = E.await_value(E.call(E.getattr(ad, 'request_stream'), [payload]))
            E.cover('stream')
            calls = log.of(delegate)
            E.prove('request_stream:delegate_called_once_with_the_payload', len(calls) == 1 and calls[0][1] == 'request_stream' and calls[0][2] == (payload,))
            pub = r
            observer, limit = None, None
        else:
            observer = SOpaque('observer', 'handler-observer') if E.path.choice(2, 'observer') else None
            limit = E.fresh_int('limit_rate', 1, 0x7FFFFFFF)
            chan = SOpaque('channel', 'reactive-channel', attrs={'observable': obs, 'observer': observer, 'limit_rate': limit})
            log = OpaqueLog(E, returns={'request_channel': lambda *a: aio.Awaitable('ready', result=chan)})
            r = E.await_value(E.call(E.getattr(ad, 'request_channel'), [payload]))
            E.cover('channel')
            calls = log.of(delegate)
            E.prove('request_channel:delegate_called_once_with_the_payload', len(calls) == 1 and calls[0][1] == 'request_channel' and calls[0][2] == (payload,))
            pub, sub = r
            if observer is None:
                E.prove('request_channel:no_observer_no_subscriber', sub is None)
            else:
                E.prove('request_channel:observer_wrapped_with_its_limit_rate', isinstance(sub, SObj) and sub.cls.name == 'RxSubscriberFromObserver'
                        and sub.attrs['observer'] is observer and sub.attrs['limit_rate'] is limit)
        if kind == 2:
            E.prove('publisher:none_stays_none', pub is None)
        elif kind == 1:
            E.prove('publisher:backpressure_aware_factory_gets_the_feedback_publisher', isinstance(pub, SObj) and pub.cls.name == 'InternalBackPressurePublisher'
                    and pub.attrs['_factory'] is obs)
        else:
            E.prove('publisher:plain_observable_buffered_by_BackPressurePublisher', isinstance(pub, SObj) and pub.cls.name == 'BackPressurePublisher')
    return run


def _client(pkg):
    P = PKGS[pkg]
    CL = P['dir'] + P['client']

    def run(E):
        E.import_module('asyncio')
        rs = SOpaque('rsocket', 'core-rsocket')
        cl = E.call(E.lookup(CL), [rs])
        payload = SOpaque('payload', 'payload')
        limit = E.fresh_int('request_limit', 1, 0x7FFFFFFF)
        requester = SOpaque('requester', 'requester')
        fut = aio.new_future(E)
        log = OpaqueLog(E, returns={'request_stream': lambda *a: requester, 'request_channel': lambda *a: requester,
                                    'initial_request_n': lambda E_, o, m, a, k: o, 'request_response': lambda *a: fut,
                                    'fire_and_forget': lambda *a: fut, 'metadata_push': lambda *a: fut})
        seen = []
        frp = P['dir'] + 'from_rsocket_publisher.py::from_rsocket_publisher'
        E.stubs[frp] = lambda E_, f, a, k: (seen.append((tuple(a), k)), SOpaque('observable', 'result'))[1]
        which = E.path.choice(5, 'method')
        if which == 0:
            r = E.call(E.getattr(cl, 'request_stream'), [payload, limit])
            E.cover('stream')
            E.prove('client.request_stream:core_request_with_the_payload', [c[1:3] for c in log.of(rs)] == [('request_stream', (payload,))])
            E.prove('client.request_stream:limit_is_initial_request_n_and_batch_size',
                    [c[1:3] for c in log.of(requester)] == [('initial_request_n', (limit,))] and seen == [((requester, limit), {})])
        elif which == 1:
            obs = SObj(M._builtin_class('rx.Observable'), {}) if E.path.choice(2, 'observable') else None
            sd = SOpaque('event', 'sending_done')
            r = E.call(E.getattr(cl, 'request_channel'), [payload, limit, obs, sd])
            E.cover('channel')
            rc = log.of(rs)
            E.prove('client.request_channel:core_request_with_payload_publisher_and_event',
                    len(rc) == 1 and rc[0][1] == 'request_channel' and rc[0][2][0] is payload and rc[0][2][2] is sd
                    and ((rc[0][2][1] is None) if obs is None else (rc[0][2][1].cls.name == 'BackPressurePublisher')))
            E.prove('client.request_channel:limit_is_initial_request_n_and_batch_size',
                    [c[1:3] for c in log.of(requester)] == [('initial_request_n', (limit,))] and seen == [((requester, limit), {})])
        else:
            mname = ['request_response', 'fire_and_forget', 'metadata_push'][which - 2]
            arg = payload if which < 4 else E.fresh_bytes('md')
            r = E.call(E.getattr(cl, mname), [arg])
            E.cover(mname)
            E.prove('client.%s:core_method_called_once_with_the_argument' % mname, [c[1:3] for c in log.of(rs)] == [(mname, (arg,))])
            src = r.attrs.get('source', r)
            E.prove('client.%s:observable_of_the_returned_future' % mname, isinstance(src, SObj) and src.attrs.get('from_future') is fut)
    return run


def _rx_subscriber(pkg):
    P = PKGS[pkg]
    FP = P['dir'] + 'from_rsocket_publisher.py::'

    def run(E):
        E.import_module('asyncio')
        observer = SOpaque('observer', 'observer')
        subscription = SOpaque('subscription', 'subscription')
        limit = E.fresh_int('limit_rate', 1, 0x7FFFFFFF)
        cls = ['RxSubscriber', 'RxSubscriberFromObserver'][E.path.choice(2, 'class')]
        log = OpaqueLog(E)
        sub = E.call(E.lookup(FP + cls), [observer, limit])
        E.call(E.getattr(sub, 'on_subscribe'), [subscription])
        if cls == 'RxSubscriberFromObserver':
            E.prove('from_observer:on_subscribe_requests_the_limit', [(c[1], c[2]) for c in log.of(subscription)] == [('request', (limit,))])
        cnt = state_attr(sub, '_received_messages', 0)      # the window counter, by role (robust against renaming)
        E.prove('subscriber:starts_with_an_empty_window_and_not_done', sub.attrs[cnt] == 0 and (cls != 'RxSubscriber' or (
            sub.attrs['done'].attrs['flag'] is False and sub.attrs['get_next_n'].attrs['flag'] is False)))
        got = E.fresh_int('received_in_window', 0)
        E.assume(I(got) < I(limit))
        sub.attrs[cnt] = got
        n0 = len(log.calls)
        what = E.path.choice(3, 'signal')
        v = SOpaque('payload', 'element')
        if what == 0:
            comp = E.path.choice(2, 'is_complete') == 1
            E.call(E.getattr(sub, 'on_next'), [v, comp])
            E.cover('on_next')
            sig = [(c[1], c[2]) for c in log.calls[n0:] if c[0] is observer]
            E.prove('subscriber:element_forwarded_once_then_completion_if_flagged', sig == ([('on_next', (v,)), ('on_completed', ())] if comp else [('on_next', (v,))]))
            window_full = I(got) + 1 == I(limit)
            reqs = [(c[1], c[2]) for c in log.calls[n0:] if c[0] is subscription]
            if not comp:
                # the window invariant 0 <= counter < limit is re-established: the pre-state above is every reachable state
                E.prove('subscriber:window_counter_advances_by_one_and_restarts_when_full',
                        I(sub.attrs[cnt]) == z3.If(window_full, 0, I(got) + 1))
            if cls == 'RxSubscriber':
                flag = sub.attrs['get_next_n'].attrs['flag']
                if comp:
                    E.prove('subscriber:done_after_complete_and_no_further_request', sub.attrs['done'].attrs['flag'] is True and flag is False)
                else:
                    E.prove('subscriber:next_batch_triggered_exactly_when_the_window_is_full', window_full if flag else z3.Not(window_full))
            else:
                if comp:
                    E.prove('from_observer:no_request_after_complete', reqs == [])
                elif reqs:
                    E.prove('from_observer:requests_exactly_the_limit_when_the_window_is_full', reqs == [('request', (limit,))] and True)
                    E.prove('from_observer:only_when_window_full', window_full)
                else:
                    E.prove('from_observer:no_request_while_window_not_full', z3.Not(window_full))
        elif what == 1:
            E.call(E.getattr(sub, 'on_complete'), [])
            E.cover('on_complete')
            E.prove('subscriber:completion_preserved', [(c[1], c[2]) for c in log.calls[n0:] if c[0] is observer] == [('on_completed', ())])
            if cls == 'RxSubscriber':
                E.prove('subscriber:stream_marked_done_after_completion[the subscription task ends, a later dispose cancels nothing]',
                        sub.attrs['done'].attrs['flag'] is True)
        else:
            ex = E.make_exc('ValueError', 'boom')
            E.call(E.getattr(sub, 'on_error'), [ex])
            E.cover('on_error')
            E.prove('subscriber:error_preserved', [(c[1], c[2]) for c in log.calls[n0:] if c[0] is observer] == [('on_error', (ex,))])
            if cls == 'RxSubscriber':
                E.prove('subscriber:stream_marked_done_after_error[the subscription task ends, a later dispose cancels nothing]',
                        sub.attrs['done'].attrs['flag'] is True)
    return run


def _dispose(pkg):
    P = PKGS[pkg]
    FP = P['dir'] + 'from_rsocket_publisher.py::'

    def run(E):
        E.import_module('asyncio')
        observer = SOpaque('observer', 'observer')
        publisher = SOpaque('publisher', 'publisher')
        subscription = SOpaque('subscription', 'subscription')
        limit = E.fresh_int('limit_rate', 1, 0x7FFFFFFF)
        tasks = []
        E.create_task_hook = lambda E_, t, coro: tasks.append((t, coro))
        log = OpaqueLog(E, returns={('publisher', 'subscribe'): lambda E_, o, m, a, k: E_.call(E_.getattr(a[0], 'on_subscribe'), [subscription])})
        ob = E.call(E.lookup(FP + 'from_rsocket_publisher'), [publisher, limit])
        disp = E.call(E.getattr(ob, 'subscribe'), [observer])
        E.cover('subscribed')
        E.prove('from_publisher:two_tasks_started', len(tasks) == 2 and sorted(c.func.name for t, c in tasks) == ['_aio_sub', '_trigger_next_request_n'])
        sub_task = [tc for tc in tasks if tc[1].func.name == '_aio_sub'][0]
        trg_task = [tc for tc in tasks if tc[1].func.name == '_trigger_next_request_n'][0]
        targs = list(trg_task[1].env.vars.values())            # by value, not by position or name
        ssubs = [v for v in sub_task[1].env.vars.values() if isinstance(v, SObj) and v.cls.name == 'RxSubscriber']
        E.prove('from_publisher:the_request_task_serves_the_same_subscriber_with_the_request_limit',
                len(ssubs) == 1 and any(v is ssubs[0] for v in targs) and any(v is limit for v in targs)
                and ssubs[0].attrs['limit_rate'] is limit)
        # the request task, run to its first suspension: it parks on the subscriber's wake-up event without having requested
        # anything (and without failing: it was given the subscriber and the limit the right way round)
        E.suspend_hook = lambda E_, what: E_.throw('CancelledError')
        try:
            E.await_value(trg_task[1])
            E.prove('from_publisher:the_request_task_parks_until_woken', not log.of(subscription, 'request'))
        except PyExc as e:
            E.prove('from_publisher:the_request_task_parks_until_woken[it failed with %s]' % e.value.cls.name, False)
            return
        if E.path.choice(2, 'disposed-before-the-tasks-ran') == 1:
            # disposed in the same event-loop iteration as subscribed: asyncio never runs the body of a task that is
            # cancelled before its first step.  Whatever was started synchronously has to be undone synchronously.
            E.call(E.getattr(disp, 'dispose'), [])
            E.cover('disposed-at-once')
            subs = log.of(publisher, 'subscribe')
            E.prove('dispose:both_tasks_cancelled', all(t.attrs['cancel_requested'] for t, c in tasks))
            E.prove('dispose:a_stream_that_was_requested_is_cancelled[also when disposed before the adapter tasks ran]',
                    len(log.of(subscription, 'cancel')) == len(subs) and len(subs) <= 1)
            return
        # run the subscription task up to its wait, then dispose
        done_before = E.path.choice(2, 'stream-already-done') == 1
        state = {'cancel': False}

        def on_suspend(E_, what):
            if what[0] == 'event.wait':
                if done_before:
                    what[1].attrs['flag'] = True
                    return None
                # the result observable is disposed while the stream is running: the task is cancelled at its await
                E_.call(E_.getattr(disp, 'dispose'), [])
                state['cancel'] = True
                E_.throw('CancelledError')
            return None
        E.suspend_hook = on_suspend
        E.await_value(sub_task[1])
        subs = log.of(publisher, 'subscribe')
        E.prove('from_publisher:core_publisher_subscribed_once_with_the_rx_subscriber', len(subs) == 1 and subs[0][2][0].cls.name == 'RxSubscriber'
                and subs[0][2][0].attrs['observer'] is observer and subs[0][2][0].attrs['limit_rate'] is limit)
        if done_before:
            E.prove('dispose:nothing_cancelled_after_normal_end', not log.of(subscription, 'cancel'))
        else:
            E.prove('dispose:both_tasks_cancelled', all(t.attrs['cancel_requested'] for t, c in tasks))
            E.prove('dispose:cancels_the_core_subscription_exactly_once', len(log.of(subscription, 'cancel')) == 1)
    return run


def _subscribe_failure(pkg):
    """_aio_sub when subscribing to the core publisher fails: the error is preserved - it reaches the observer (scheduled on
    the loop), exactly once, as the exception that was raised."""
    P = PKGS[pkg]
    FP = P['dir'] + 'from_rsocket_publisher.py::'

    def run(E):
        E.import_module('asyncio')
        observer = SOpaque('observer', 'observer')
        publisher = SOpaque('publisher', 'publisher')
        limit = E.fresh_int('limit_rate', 1, 0x7FFFFFFF)
        tasks = []
        E.create_task_hook = lambda E_, t, coro: tasks.append((t, coro))
        log = OpaqueLog(E, may_raise=lambda o, m: o is publisher and m == 'subscribe')
        ob = E.call(E.lookup(FP + 'from_rsocket_publisher'), [publisher, limit])
        E.call(E.getattr(ob, 'subscribe'), [observer])
        sub_task = [tc for tc in tasks if tc[1].func.name == '_aio_sub'][0]
        failed = {}

        def on_suspend(E_, what):
            # subscribe() returned normally and the stream is running: not the case of this contract
            failed['no'] = True
            what[1].attrs['flag'] = True
            return None
        E.suspend_hook = on_suspend
        try:
            E.await_value(sub_task[1])
        except PyExc as e:
            E.prove('subscribe_failure:contained_in_the_subscription_task', False)
            return
        if failed:
            return
        E.cover('subscribe-raised')
        E.prove('subscribe_failure:observer_not_called_synchronously_from_the_task', not log.of(observer))
        sched = E.path.ghost.get('call_soon', [])
        E.prove('subscribe_failure:one_callback_scheduled', len(sched) == 1)
        if len(sched) == 1:
            cb, args = sched[0]
            E.call(cb, list(args))
            sig = [(c[1], c[2]) for c in log.of(observer)]
            E.prove('subscribe_failure:error_reaches_the_observer_exactly_once_as_raised',
                    len(sig) == 1 and sig[0][0] == 'on_error' and len(sig[0][1]) == 1 and isinstance(sig[0][1][0], SObj)
                    and sig[0][1][0].attrs.get('from_opaque') == (publisher.ident, 'subscribe'))
    return run


def _trigger(pkg):
    P = PKGS[pkg]
    FP = P['dir'] + 'from_rsocket_publisher.py::'
    TR = FP + '_trigger_next_request_n'

    def run(E):
        E.import_module('asyncio')
        subscription = SOpaque('subscription', 'subscription')
        limit = E.fresh_int('limit_rate', 1, 0x7FFFFFFF)
        sub = E.call(E.lookup(FP + 'RxSubscriber'), [SOpaque('observer', 'o'), limit])
        sub.attrs['subscription'] = subscription
        log = OpaqueLog(E)
        st = {}

        def inv(ctx):
            if ctx.phase != 'step':
                return []
            E.cover('iteration')
            new = [(c[1], c[2]) for c in log.calls[st['n0']:]]
            return [('one wake-up => exactly one request of exactly the limit, flag cleared', new == [('request', (limit,))]
                     and sub.attrs['get_next_n'].attrs['flag'] is False),
                    ('a request is made only after the subscriber signalled a full window (never spontaneously)', st.get('woken') is True)]

        def havoc(ctx):
            st['n0'] = len(log.calls)
            st['woken'] = False
        spec = LoopSpec(inv, None, havoc=havoc)
        spec.nonterminating = True
        E.loop_specs[(TR, 0)] = spec

        def on_suspend(E_, what):
            if what[0] == 'event.wait' and what[1] is sub.attrs['get_next_n']:
                st['woken'] = True                      # RxSubscriber.on_next found the window full
                what[1].attrs['flag'] = True
            return None
        E.suspend_hook = on_suspend
        E.await_value(E.call(E.lookup(TR), [sub, limit]))
        # the loop contract above ends every path that iterates; getting here means the task returned on its own
        E.prove('trigger:serves_wake-ups_until_it_is_cancelled[never returns on its own]', False)
    return run


def _publisher(pkg):
    P = PKGS[pkg]
    BP = P['dir'] + 'back_pressure_publisher.py::'

    def run(E):
        E.import_module('asyncio')
        fed = []
        factory_obs = SObj(M._builtin_class('rx.Observable'), {})
        got = {}

        def factory(E_, o, m, a, k):
            got['feedback'] = a[0]
            E_.call(E_.getattr(a[0], 'subscribe'), [], dict(on_next=Builtin('feed', lambda n: fed.append(n)),
                                                          on_completed=Builtin('feed-done', lambda: fed.append('completed'))))
            return factory_obs
        fac = SOpaque('callable', 'observable-factory')
        subscriber = SOpaque('subscriber', 'core-subscriber')
        log = OpaqueLog(E, returns={('callable', '__call__'): factory})
        pub = E.call(E.lookup(BP + 'InternalBackPressurePublisher'), [fac])
        E.call(E.getattr(pub, 'subscribe'), [subscriber])
        E.cover('subscribed')
        E.prove('bp_publisher:on_subscribe_with_the_publisher_as_subscription', [(c[1], c[2]) for c in log.of(subscriber)] == [('on_subscribe', (pub,))])
        E.prove('bp_publisher:factory_asked_once_with_a_feedback_subject', len(log.of(fac)) == 1 and got['feedback'].cls.name == 'rx.Subject')
        subs = factory_obs.attrs.get('subscriptions', [])
        E.prove('bp_publisher:observable_subscribed_once_with_an_adapter_of_the_subscriber',
                len(subs) == 1 and subs[0]['observer'].cls.name == 'SubscriberAdapter' and subs[0]['observer'].attrs['_subscriber'] is subscriber)
        n1, n2 = E.fresh_int('n1', 1, 0x7FFFFFFF), E.fresh_int('n2', 1, 0x7FFFFFFF)
        E.call(E.getattr(pub, 'request'), [n1])
        E.call(E.getattr(pub, 'request'), [n2])
        E.prove('bp_publisher:factory_is_asked_for_exactly_the_credited_amounts_in_order', fed == [n1, n2])
        E.call(E.getattr(pub, 'cancel'), [])
        E.prove('bp_publisher:cancel_completes_the_feedback', fed == [n1, n2, 'completed'])
        ad = subs[0]['observer']
        v, ex = SOpaque('payload', 'v'), E.make_exc('ValueError', 'x')
        n0 = len(log.calls)
        E.call(E.getattr(ad, 'on_next'), [v])
        E.call(E.getattr(ad, 'on_error'), [ex])
        E.call(E.getattr(ad, 'on_completed'), [])
        E.prove('subscriber_adapter:signals_forwarded_one_to_one', [(c[1], c[2]) for c in log.calls[n0:]] ==
                [('on_next', (v,)), ('on_error', (ex,)), ('on_complete', ())])
    return run


def _plain_publisher(pkg):
    """observable_to_publisher(plain observable) -> BackPressurePublisher: subscribing wires the buffering bridge
    (observable_to_async_event_generator, through its contract c20.*.event_generator) to a sender task (contract
    c20.*.aio_next) that is driven by the requester's credit."""
    P = PKGS[pkg]
    BP = P['dir'] + 'back_pressure_publisher.py::'

    def run(E):
        E.import_module('asyncio')
        range_stub(E)
        source = SObj(M._builtin_class('rx.Observable'), {'tag': 'plain'})
        subscriber = SOpaque('subscriber', 'core-subscriber')
        bridge = SOpaque('iterator', 'notification-generator')
        bridged = []
        E.stubs[BP + 'observable_to_async_event_generator'] = lambda E_, f, a, k: (bridged.append(a[0]), bridge)[1]
        tasks = []
        E.create_task_hook = lambda E_, t, coro: tasks.append((t, coro))
        log = OpaqueLog(E, returns={'__aiter__': lambda E_, o, m, a, k: o,
                                    '__anext__': lambda E_, o, m, a, k: aio.Awaitable('anext', o)})
        pub = E.call(E.lookup(BP + 'observable_to_publisher'), [source])
        E.prove('plain:wrapped_in_a_BackPressurePublisher', isinstance(pub, SObj) and pub.cls.name == 'BackPressurePublisher')
        E.call(E.getattr(pub, 'subscribe'), [subscriber])
        E.cover('subscribed')
        E.prove('plain:on_subscribe_with_the_publisher_as_subscription', [(c[1], c[2]) for c in log.of(subscriber)] == [('on_subscribe', (pub,))])
        E.prove('plain:one_sender_task_started', len(tasks) == 1 and tasks[0][1].func.name == '_aio_next')
        E.prove('plain:one_bridge_over_exactly_the_wrapped_observable', len(bridged) == 1 and bridged[0] is source)
        E.prove('plain:nothing_is_pulled_from_the_bridge_before_credit_arrives', not log.of(bridge, '__anext__'))
        n1 = E.fresh_int('n1', 1, 0x7FFFFFFF)
        E.call(E.getattr(pub, 'request'), [n1])
        seen = []

        def on_suspend(E_, what):
            seen.append(what[0] if what[0] != 'queue.get' else ('queue.get', list(what[1].attrs['_queue'])))
            E_.throw('CancelledError')
        E.suspend_hook = on_suspend
        inner = LoopSpec(lambda ctx: [], None)      # the credit loop itself is under contract in c20.*.aio_next
        inner.nonterminating = True
        E.loop_specs[(BP + 'from_async_event_iterator.<locals>.on_subscribe.<locals>._aio_next', 1)] = inner
        try:
            E.await_value(tasks[0][1])
            E.prove('plain:with_credit_the_sender_pulls_from_the_bridge', False)
        except PyExc as e:
            E.prove('plain:with_credit_the_sender_pulls_from_the_bridge[the credit reached its queue; it now waits for the first notification]',
                    e.value.cls.name == 'CancelledError' and (
                        (seen == ['anext'] and len(log.of(bridge, '__anext__')) == 1)       # inside the credit loop (cut: any iteration)
                        or seen == [('queue.get', [])]))                                  # after it: the credit was taken, waits for more
        E.prove('plain:nothing_signalled_to_the_subscriber_yet', [(c[1]) for c in log.of(subscriber)] == ['on_subscribe'])
    return run


def _queue_generator(E):
    """async_generator_from_queue (the source behind observable_from_queue, both Rx packages): yields the queued values in
    order, each once, until the stop value; while it waits on an empty queue a cancellation is NOT an end of stream - it
    propagates (a cancelled stream must not be completed on the wire)."""
    E.import_module('asyncio')
    AG = 'rsocket/streams/helpers.py::async_generator_from_queue'
    q = E.call(E.import_module('asyncio').getattr(E, 'Queue'), [])
    stop = SOpaque('sentinel', 'stop-value') if E.path.choice(2, 'stop-value') == 1 else None
    vals = [SOpaque('payload', 'q%d' % i) for i in range(2)]
    how = E.path.choice(2, 'then')            # 0: the stop value is queued; 1: nothing more arrives and the consumer is cancelled
    for v in vals:
        E.call(E.getattr(q, 'put_nowait'), [v])
    if how == 0:
        E.call(E.getattr(q, 'put_nowait'), [stop])

    def on_suspend(E_, what):
        if what[0] == 'queue.get':
            E_.throw('CancelledError')
        return None
    E.suspend_hook = on_suspend
    g = E.call(E.lookup(AG), [q] if stop is None else [q, stop])
    out = []
    try:
        E.run_generator(g, lambda v: out.append(v))
    except PyExc as e:
        E.cover('cancelled-on-empty-queue')
        E.prove('queue_generator:only_a_cancellation_escapes_and_only_when_nothing_is_queued', how == 1 and e.value.cls.name == 'CancelledError')
        E.prove('queue_generator:everything_queued_before_was_yielded_in_order', len(out) == 2 and out[0] is vals[0] and out[1] is vals[1])
        return
    E.cover('ended')
    E.prove('queue_generator:ends_normally_only_at_the_stop_value[a cancelled wait is not an end of stream]', how == 0)
    E.prove('queue_generator:yields_exactly_the_values_before_the_stop_value_in_order', len(out) == 2 and out[0] is vals[0] and out[1] is vals[1])


harness('c20.queue_generator', ['C20', 'C09', 'C06'], functions=['rsocket/streams/helpers.py::async_generator_from_queue'],
        assumptions=['asyncio.Queue.get on an empty queue suspends; a cancelled task gets CancelledError there'])(_queue_generator)


def _observable_from_queue(pkg):
    P = PKGS[pkg]
    BP = P['dir'] + 'back_pressure_publisher.py::'

    def run(E):
        E.import_module('asyncio')
        q = E.call(E.import_module('asyncio').getattr(E, 'Queue'), [])
        feedback = SOpaque('subject', 'feedback')
        seen = []
        gen = SOpaque('iterator', 'queue-generator')
        made = SOpaque('observable', 'observable')
        E.stubs['rsocket/streams/helpers.py::async_generator_from_queue'] = lambda E_, f, a, k: (seen.append(('gen', list(a), dict(k))), gen)[1]
        E.stubs[BP + 'observable_from_async_generator'] = lambda E_, f, a, k: (seen.append(('obs', list(a))), made)[1]
        r = E.call(E.lookup(BP + 'observable_from_queue'), [q, feedback])
        E.cover('built')
        E.prove('observable_from_queue:the_queue_generator_of_exactly_this_queue_drives_a_credit_aware_observable_with_this_feedback',
                len(seen) == 2 and seen[0][0] == 'gen' and seen[0][1][0] is q and seen[1][0] == 'obs' and seen[1][1][0] is gen
                and seen[1][1][1] is feedback and r is made)
    return run


from pyvc.engine import Builtin  # noqa: E402


def _aio_next(pkg, fn='from_async_event_iterator'):
    """The sender task of a back-pressure-aware observable (both variants: an iterator of notifications, a plain async
    generator).  Loop contract of the credit loop (`async for i in async_range(next_n)`):
       * one item is taken from the source per unit of credit, and an element is forwarded exactly once;
       * the loop goes round again ONLY after an element - a terminal item ends the task;
    and at the end of the task: the terminal item was translated into exactly its own terminal signal (completion stays
    completion, an error stays that error, a failing source is an error), with nothing after it."""
    P = PKGS[pkg]
    BP = P['dir'] + 'back_pressure_publisher.py::'
    FN = BP + fn + '.<locals>.on_subscribe.<locals>._aio_next'
    notif = fn == 'from_async_event_iterator'

    def run(E):
        E.import_module('asyncio')
        range_stub(E)
        rx = E.import_module('reactivex' if pkg == 'reactivex' else 'rx')
        backpressure = E.call(rx.getattr(E, 'Subject'), [])
        observer = SOpaque('observer', 'observer')
        it = SOpaque('iterator', 'event-iterator')
        events = []          # (kind, payload)   kind: N element, C completed, E error notification, X source raised

        def anext(E_, o, m, a, k):
            if E_.path.choice(2, 'requester-cancels-while-the-sender-waits-for-the-source') == 1 and 'cancelled_at' not in st:
                # the requester cancelled (feedback completed) inside a credited batch: asyncio delivers a requested task
                # cancellation at this await; whatever the adapter does instead, nothing more may reach the observer
                E_.call(E_.getattr(backpressure, 'on_completed'), [])
                st['cancelled_at'] = len(log.calls)
                if tasks[0][0].attrs['cancel_requested']:
                    E_.throw('CancelledError')
            kind = 'NCEX'[E_.path.choice(4, 'item-kind')]
            if kind == 'N':
                v = SOpaque('payload', 'v%d' % len(events))
                events.append(('N', v))
                return aio.Awaitable('ready', result=SObj(M._builtin_class('rx.OnNext'), {'value': v, 'kind': 'N'}) if notif else v)
            if kind == 'X' or (kind == 'E' and not notif):
                ex = E_.make_exc('ValueError', 'source failed')
                events.append(('X', ex))
                raise PyExc(ex)
            if kind == 'C':
                events.append(('C', None))
                if notif:
                    return aio.Awaitable('ready', result=SObj(M._builtin_class('rx.OnCompleted'), {'kind': 'C'}))
                raise PyExc(E_.make_exc('StopAsyncIteration'))
            ex = E_.make_exc('ValueError', 'x')
            events.append(('E', ex))
            return aio.Awaitable('ready', result=SObj(M._builtin_class('rx.OnError'), {'exception': ex, 'kind': 'E'}))
        log = OpaqueLog(E, returns={'__anext__': anext})
        tasks = []
        E.create_task_hook = lambda E_, t, coro: tasks.append((t, coro))
        ob = E.call(E.lookup(BP + fn), [it, backpressure])
        disp = E.call(E.getattr(ob, 'subscribe'), [observer])
        E.prove('aio_next:sender_task_started_once', len(tasks) == 1 and tasks[0][1].func.name == '_aio_next')
        E.prove('aio_next:subscribing_returns_the_disposable_of_the_credit_subscription', disp is not None)
        n = E.fresh_int('credit', 1, 0x7FFFFFFF)
        E.call(E.getattr(backpressure, 'on_next'), [n])
        st = {}

        def sigs():
            return [(c[1], c[2]) for c in log.calls[st['c0']:] if c[0] is observer]

        def no_signal_after_cancel():
            return 'cancelled_at' not in st or not [c for c in log.calls[st['cancelled_at']:] if c[0] is observer]

        def inv(ctx):
            if ctx.phase != 'step':
                return []
            E.cover('iteration')
            new_ev = events[st['e0']:]
            if 'cancelled_at' in st:
                return [('nothing reaches the observer after the requester cancelled [also inside a credited batch]', no_signal_after_cancel())]
            out = [('one item taken per unit of credit', len(new_ev) == 1)]
            if len(new_ev) == 1:
                out.append(('the credit loop continues only after an element [a terminal item ends the task]', new_ev[0][0] == 'N'))
                if new_ev[0][0] == 'N':
                    out.append(('element forwarded exactly once', sigs() == [('on_next', (new_ev[0][1],))]))
            return out

        def havoc(ctx):
            st['e0'], st['c0'] = len(events), len(log.calls)
        inner = LoopSpec(inv, None, havoc=havoc)
        inner.nonterminating = True
        E.loop_specs[(FN, 1)] = inner

        def on_suspend(E_, what):
            if what[0] == 'queue.get':
                E_.throw('CancelledError')
            return None
        E.suspend_hook = on_suspend
        try:
            E.await_value(tasks[0][1])
        except PyExc as e:
            E.cover('cancelled-waiting-for-credit')
            E.prove('aio_next:only_cancellation_escapes_the_sender_task', e.value.cls.name == 'CancelledError')
            E.prove('aio_next:nothing_reaches_the_observer_after_the_requester_cancelled', no_signal_after_cancel())
            ctx = E.path.ghost.get('loops', {}).get((FN, 1))
            if ctx is not None:
                E.prove('aio_next:events_forwarded_for_one_credit_bounded_by_it', I(ctx.k) <= I(n))
            return
        E.cover('ended')
        ctx = E.path.ghost.get('loops', {}).get((FN, 1))
        if ctx is not None:
            E.prove('aio_next:events_forwarded_for_one_credit_bounded_by_it', I(ctx.k) <= I(n))
        if 'cancelled_at' in st:
            E.prove('aio_next:nothing_reaches_the_observer_after_the_requester_cancelled', no_signal_after_cancel())
            return
        # the task ended on its own: in an arbitrary iteration (st['e0'], st['c0'] mark its start) a terminal item was taken
        new_ev = events[st['e0']:] if 'e0' in st else events
        E.prove('aio_next:the_task_ends_only_on_a_terminal_item', len(new_ev) == 1 and new_ev[0][0] != 'N')
        if len(new_ev) == 1 and new_ev[0][0] != 'N':
            kind, ex = new_ev[0]
            got = sigs()
            if kind == 'C':
                E.prove('aio_next:completion_preserved[exactly on_completed, nothing else]', got == [('on_completed', ())])
            elif kind == 'E':
                E.prove('aio_next:error_notification_preserved[exactly on_error with that exception]', got == [('on_error', (ex,))])
            else:
                E.prove('aio_next:a_failing_source_is_reported_as_that_error[exactly once]', got == [('on_error', (ex,))])
    return run


def _event_generator(pkg):
    """observable_to_async_event_generator: the buffering bridge for plain observables.  Under the assumed contract of
    materialize() (signals become notifications 1:1, the terminal one followed by on_completed) the generator yields
    exactly the notifications, once each, in order, whatever the timing between signals and consumption, and ends after
    the terminal one."""
    P = PKGS[pkg]
    BP = P['dir'] + 'back_pressure_publisher.py::'

    def run(E):
        E.import_module('asyncio')
        rx = E.import_module('reactivex' if pkg == 'reactivex' else 'rx')
        source = SObj(M._builtin_class('rx.Observable'), {})
        captured = []
        E.rx_subscribe_hook = lambda E_, ob, o: captured.append((ob, o)) or SObj(M._builtin_class('rx.Disposable'), {'action': None, 'disposed': False})
        n1 = SObj(M._builtin_class('rx.OnNext'), {'value': SOpaque('payload', 'v1'), 'kind': 'N'})
        n2 = SObj(M._builtin_class('rx.OnNext'), {'value': SOpaque('payload', 'v2'), 'kind': 'N'})
        term = [SObj(M._builtin_class('rx.OnCompleted'), {'kind': 'C'}),
                SObj(M._builtin_class('rx.OnError'), {'exception': E.make_exc('ValueError', 'x'), 'kind': 'E'})][E.path.choice(2, 'terminal')]
        script = [n1, n2, term]
        burst = E.path.choice(3, 'signals-arrive')       # 0 one per wait, 1 all before consumption starts, 2 two then one
        emitted = []

        def emit(k):
            from pyvc import rxmodel
            ob, o = captured[0]
            for _ in range(k):
                if len(emitted) == len(script):
                    return
                ev = script[len(emitted)]
                emitted.append(ev)
                rxmodel._signal(E, o, 'on_next', ev)
                if ev is term:
                    rxmodel._signal(E, o, 'on_completed')

        def on_suspend(E_, what):
            if what[0] == 'queue.get':
                if len(emitted) == len(script):
                    E_.throw('CancelledError')        # nothing will ever arrive: the consumer is cancelled
                emit({0: 1, 1: 3, 2: 2}[burst])
                return what[1].attrs['_queue'].pop(0)
            return None
        E.suspend_hook = on_suspend
        g = E.call(E.lookup(BP + 'observable_to_async_event_generator'), [source])
        out = []
        first = [True]

        def on_yield(v):
            out.append(v)
            return None
        if burst == 1:
            pass
        try:
            E.run_generator(g, on_yield)
        except PyExc as e:
            E.cover('cancelled-while-waiting')
            E.prove('event_generator:ends_by_itself_after_the_terminal_notification', False)
            return
        E.cover('generator-ended')
        E.prove('event_generator:subscribed_once_through_materialize',
                len(captured) == 1 and captured[0][0].attrs.get('source') is source
                and [getattr(x, 'ident', None) for x in captured[0][0].attrs.get('operators', [])] == ['materialize'])
        E.prove('event_generator:every_notification_once_in_order_then_end', len(out) == 3 and all(a is b for a, b in zip(out, script)))
    return run


def _credit_wakeup(pkg, fn='from_async_event_iterator'):
    """BOUNDED, and independent of how the publisher keeps its credit (queue, counter + event, ...): the observable-backed
    publisher is built and driven through its public operations only; the sender coroutine is run with every loop unrolled.
    Safety form of "delivers every element once enough credit has been granted": the coroutine is never parked waiting
    for credit while credit it has not used yet is outstanding (a lost wake-up)."""
    P = PKGS[pkg]
    BP = P['dir'] + 'back_pressure_publisher.py::'

    def run(E):
        E.import_module('asyncio')
        rx = E.import_module('reactivex' if pkg == 'reactivex' else 'rx')
        backpressure = E.call(rx.getattr(E, 'Subject'), [])
        observer = SOpaque('observer', 'observer')
        it = SOpaque('iterator', 'event-iterator')
        st = {'credit': 0, 'taken': 0, 'grants': 0, 'checked': False}

        def grant(n):
            st['credit'] += n
            st['grants'] += 1
            E.call(E.getattr(backpressure, 'on_next'), [n])

        def anext(E_, o, m, a, k):
            st['taken'] += 1
            return aio.Awaitable('anext', result=None)
        log = OpaqueLog(E, returns={'__anext__': anext})
        tasks = []
        E.create_task_hook = lambda E_, t, coro: tasks.append((t, coro))
        ob = E.call(E.lookup(BP + fn), [it, backpressure])
        E.call(E.getattr(ob, 'subscribe'), [observer])
        grant(1 + E.path.choice(2, 'first-grant'))

        def on_suspend(E_, what):
            kind, obj = what
            if kind == 'anext':
                # the source is slow: while the sender waits for the next element the requester may top up its credit
                if st['grants'] < 2 and E_.path.choice(2, 'credit-granted-mid-batch') == 1:
                    grant(1 + E_.path.choice(2, 'second-grant'))
                if fn == 'observable_from_async_generator':
                    return SOpaque('payload', 'v%d' % st['taken'])      # this variant iterates plain values
                return SObj(M._builtin_class('rx.OnNext'), {'value': SOpaque('payload', 'v%d' % st['taken']), 'kind': 'N'})
            blocked = (kind == 'queue.get') or (kind == 'event.wait' and obj.attrs.get('flag') is not True)
            if blocked:
                E_.cover('parked-waiting-for-credit')
                E_.prove('credit:never_parked_while_granted_credit_is_unused[lost wake-up]', st['credit'] - st['taken'] == 0)
                st['checked'] = True
                E_.throw('CancelledError')
            return None
        E.suspend_hook = on_suspend
        E.unroll_limit = 12
        try:
            E.await_value(tasks[0][1])
        except PyExc as e:
            pass
        delivered = [c for c in log.calls if c[0] is observer and c[1] == 'on_next']
        E.prove('credit:every_element_taken_is_delivered_once_and_never_more_than_granted',
                len(delivered) == st['taken'] and st['taken'] <= st['credit'])
        E.prove('credit:scenario_reached_the_waiting_state', st['checked'])
    return run


for _pkg in PKGS:
    _d = PKGS[_pkg]['dir']
    harness('c20.%s.credit_wakeup.bounded' % _pkg, ['C20', 'C06'], kind='bounded',
            functions=[_d + 'back_pressure_publisher.py::from_async_event_iterator'],
            assumptions=RXA + ['BOUNDED stand-in: one or two grants of 1..2 units, the second possibly arriving while the sender awaits the '
                               'next element; loops unrolled; asyncio.Queue.get / Event.wait suspend iff empty / not set'])(_credit_wakeup(_pkg))
    harness('c20.%s.credit_wakeup.bounded[async-generator-observable]' % _pkg, ['C20', 'C06'], kind='bounded',
            functions=[_d + 'back_pressure_publisher.py::observable_from_async_generator'],
            assumptions=RXA + ['BOUNDED stand-in: as c20.*.credit_wakeup.bounded, for the back-pressure-aware helper observable'])(
        _credit_wakeup(_pkg, 'observable_from_async_generator'))
    harness('c20.%s.event_generator' % _pkg, ['C20', 'C06'], functions=[_d + 'back_pressure_publisher.py::observable_to_async_event_generator'],
            assumptions=RXA + ['materialize(): each signal of the source becomes one notification, in order; the terminal notification is '
                               'followed by on_completed (assumed contract of the Rx operator)'])(_event_generator(_pkg))
    harness('c20.%s.delegation' % _pkg, ['C20', 'C12'], functions=[_d + PKGS[_pkg]['adapter'] + '.' + m for m in
            ('on_setup', 'on_metadata_push', 'request_fire_and_forget', 'on_error', 'on_keepalive_timeout', 'on_connection_error', 'on_close', '__init__')],
            replay='c20_delegation', assumptions=RXA)(_delegation(_pkg))
    harness('c20.%s.adapter_requests' % _pkg, ['C20'], functions=[_d + PKGS[_pkg]['adapter'] + '.request_stream', _d + PKGS[_pkg]['adapter'] + '.request_channel', _d + PKGS[_pkg]['adapter'] + '.request_response',
                                                                _d + 'back_pressure_publisher.py::observable_to_publisher',
                                                                _d + 'back_pressure_publisher.py::from_observable_with_backpressure'], assumptions=RXA)(_adapter_requests(_pkg))
    harness('c20.%s.client' % _pkg, ['C20', 'C06'], functions=[_d + PKGS[_pkg]['client'] + '.' + m for m in
            ('request_stream', 'request_channel', 'request_response', 'fire_and_forget', 'metadata_push', '__init__')], assumptions=RXA)(_client(_pkg))
    harness('c20.%s.rx_subscriber' % _pkg, ['C20', 'C06', 'C07'], functions=[_d + 'from_rsocket_publisher.py::RxSubscriber.on_next',
            _d + 'from_rsocket_publisher.py::RxSubscriberFromObserver.on_next', _d + 'from_rsocket_publisher.py::RxSubscriberFromObserver.on_subscribe'],
            assumptions=RXA)(_rx_subscriber(_pkg))
    harness('c20.%s.dispose' % _pkg, ['C20', 'C09'], functions=[_d + 'from_rsocket_publisher.py::from_rsocket_publisher', _d + 'from_rsocket_publisher.py::_aio_sub'],
            assumptions=RXA + ['asyncio: a cancelled task gets CancelledError at its await'])(_dispose(_pkg))
    harness('c20.%s.subscribe_failure' % _pkg, ['C20', 'C12'], functions=[_d + 'from_rsocket_publisher.py::_aio_sub'],
            assumptions=RXA + ['loop.call_soon(cb, *args) runs cb(*args) later, once'])(_subscribe_failure(_pkg))
    harness('c20.%s.trigger_next_request_n' % _pkg, ['C20', 'C06'], functions=[_d + 'from_rsocket_publisher.py::_trigger_next_request_n'],
            assumptions=RXA)(_trigger(_pkg))
    harness('c20.%s.backpressure_publisher' % _pkg, ['C20', 'C06'], functions=[_d + 'back_pressure_publisher.py::InternalBackPressurePublisher.' + m for m in
            ('__init__', 'subscribe', 'request', 'cancel')] + [_d + 'subscriber_adapter.py::SubscriberAdapter.on_next'], assumptions=RXA)(_publisher(_pkg))
    harness('c20.%s.plain_observable_publisher' % _pkg, ['C20', 'C06'], functions=[_d + 'back_pressure_publisher.py::observable_to_publisher',
            _d + 'back_pressure_publisher.py::BackPressurePublisher.__init__', _d + 'back_pressure_publisher.py::InternalBackPressurePublisher.subscribe',
            _d + 'back_pressure_publisher.py::from_async_event_generator'], assumptions=RXA)(_plain_publisher(_pkg))
    harness('c20.%s.observable_from_queue' % _pkg, ['C20'], functions=[_d + 'back_pressure_publisher.py::observable_from_queue'],
            assumptions=RXA + ['async_generator_from_queue and observable_from_async_generator through their contracts '
                               '(c20.queue_generator, c20.*.aio_next.async_generator)'])(_observable_from_queue(_pkg))
    harness('c20.%s.aio_next' % _pkg, ['C20', 'C06'], functions=[_d + 'back_pressure_publisher.py::from_async_event_iterator'],
            assumptions=RXA + ['async_range through its contract (c06.async_range)'])(_aio_next(_pkg))
    harness('c20.%s.aio_next.async_generator' % _pkg, ['C20', 'C06'], functions=[_d + 'back_pressure_publisher.py::observable_from_async_generator'],
            assumptions=RXA + ['async_range through its contract (c06.async_range)'])(_aio_next(_pkg, 'observable_from_async_generator'))
