"""C14 - lease: no request without a valid lease, never more than granted, FIFO release, LEASE frame content.
(DESIGN 5/C14)   Clock: ghost `now` (microseconds), datetime.now() reads it."""
import z3

from pyvc.values import *   # noqa
from pyvc.engine import LoopSpec, EXC
from pyvc.harness import harness, new_obj, OpaqueLog
from pyvc import models as M
from pyvc import aio

LEASE = 'rsocket/lease.py::'
BASE = 'rsocket/rsocket_base.py::RSocketBase'
FR = 'rsocket/frame.py::'
REQUEST_CLASSES = ['RequestResponseFrame', 'RequestStreamFrame', 'RequestChannelFrame', 'RequestFireAndForgetFrame']
OTHER_CLASSES = ['RequestNFrame', 'CancelFrame', 'PayloadFrame', 'ErrorFrame', 'KeepAliveFrame', 'MetadataPushFrame', 'LeaseFrame']


def td(E, us):
    E.import_module('datetime')
    return aio.mk_timedelta(E, us)


@harness('c14.to_milliseconds', ['C14', 'C16'], functions=['rsocket/datetime_helpers.py::to_milliseconds'], replay='c14_to_ms',
         assumptions=['float arithmetic of timedelta.total_seconds()*1000 treated as exact real arithmetic (periods < 2^53 us); '
                      'round() = round-half-to-even'])
def to_ms(E):
    us = E.input('microseconds', E.fresh_int('us', 0, (1 << 53) - 1))
    r = E.call(E.lookup('rsocket/datetime_helpers.py::to_milliseconds'), [td(E, us)])
    E.cover('converted')
    E.prove('ms:is_int', isinstance(r, (int, SInt)))
    E.prove('ms:exact_for_whole_milliseconds', z3.Implies(I(us) % 1000 == 0, I(r) * 1000 == I(us)))
    E.prove('ms:nearest_millisecond', z3.And(I(r) * 1000 - I(us) <= 500, I(us) - I(r) * 1000 <= 500))


def mk_lease(E):
    """Arbitrary DefinedLease state reachable from __init__: counter >= 0, ghost used <= min(counter, max)."""
    E.import_module('datetime')
    mx = E.input('granted', E.fresh_int('max', 0, 0x7FFFFFFF))
    ttl = E.input('ttl_us', E.fresh_int('ttl', 0))
    created = E.input('created', E.fresh_int('created'))
    counter = E.input('counter', E.fresh_int('counter', 0))
    lease = new_obj(E, LEASE + 'DefinedLease', maximum_request_count=mx, maximum_lease_time=td(E, ttl),
                    _lease_created_at=aio.mk_datetime(E, created), _request_counter=counter)
    return lease, mx, ttl, created, counter


@harness('c14.lease.is_request_allowed', ['C14'], functions=[LEASE + 'DefinedLease._is_request_allowed',
                                                             LEASE + 'DefinedLease.is_request_allowed'], replay='c14_lease',
         assumptions=['wall clock replaced by a ghost clock: datetime.now() returns the ghost value'])
def is_allowed(E):
    lease, mx, ttl, created, counter = mk_lease(E)
    now = E.input('now', E.fresh_int('now'))
    E.path.ghost['now'] = I(now)
    E.assume(I(now) >= I(created))
    used = E.fresh_int('used', 0)                       # ghost: number of True answers so far
    E.assume(z3.And(I(used) <= I(counter), I(used) <= I(mx)))
    r = E.call(E.getattr(lease, 'is_request_allowed'), [E.fresh_int('stream_id')])
    E.cover('answered')
    c1 = I(lease.attrs['_request_counter'])
    expired = I(created) + I(ttl) <= I(now)
    ok = B(E.truth(r))
    E.prove('lease:allows_iff_not_expired_and_within_count', ok == z3.And(z3.Not(expired), I(counter) + 1 <= I(mx)))
    E.prove('lease:nothing_at_or_after_expiry', z3.Implies(expired, z3.Not(ok)))
    E.prove('lease:counter_counts_every_granted_request', z3.Implies(ok, c1 == I(counter) + 1))
    E.prove('lease:counter_never_decreases', c1 >= I(counter))
    used1 = I(used) + z3.If(ok, 1, 0)
    E.prove('lease:inv_used_le_granted', z3.And(used1 <= c1, used1 <= I(mx)))
    E.prove('lease:grant_and_ttl_unchanged', z3.And(I(lease.attrs['maximum_request_count']) == I(mx),
                                                   I(lease.attrs['maximum_lease_time'].attrs['us']) == I(ttl),
                                                   I(lease.attrs['_lease_created_at'].attrs['t']) == I(created)))


@harness('c14.lease.init_and_frame', ['C14'], functions=[LEASE + 'DefinedLease.__init__', LEASE + 'DefinedLease.to_frame',
                                                         LEASE + 'NullLease.is_request_allowed', LEASE + 'NullLease.to_frame'])
def lease_init(E):
    E.import_module('datetime')
    now = E.fresh_int('now')
    E.path.ghost['now'] = I(now)
    mx = E.fresh_int('max', 0, 0x7FFFFFFF)
    ms = E.fresh_int('ttl_ms', 0, 0x7FFFFFFF)
    lease = E.call(E.lookup(LEASE + 'DefinedLease'), [mx, td(E, mk_int(I(ms) * 1000))])
    E.cover('created')
    E.prove('init:created_now', I(lease.attrs['_lease_created_at'].attrs['t']) == I(now))
    E.prove('init:nothing_used', lease.attrs['_request_counter'] == 0)
    E.prove('init:grant', I(lease.attrs['maximum_request_count']) == I(mx))
    E.prove('init:ttl_is_exactly_the_given_period[zero included]', I(lease.attrs['maximum_lease_time'].attrs['us']) == I(ms) * 1000)
    fr = E.call(E.getattr(lease, 'to_frame'), [])
    E.prove('to_frame:is_lease_frame', fr.cls is E.lookup(FR + 'LeaseFrame'))
    E.prove('to_frame:granted_count', I(E.getattr(fr, 'number_of_requests')) == I(mx))
    E.prove('to_frame:ttl_in_milliseconds', I(E.getattr(fr, 'time_to_live')) == I(ms))
    E.prove('to_frame:stream_0', E.getattr(fr, 'stream_id') == 0)
    nl = E.call(E.lookup(LEASE + 'NullLease'), [])
    E.prove('null_lease:always_allows', E.call(E.getattr(nl, 'is_request_allowed'), []) is True)


def mk_socket(E, honor, lease=None, maxsize=None):
    E.import_module('asyncio')
    qcls = E.lookup('rsocket/queue_peekable.py::QueuePeekable')
    sock = new_obj(E, 'rsocket/rsocket_server.py::RSocketServer')
    sock.attrs['_honor_lease'] = honor
    sock.attrs['_send_queue'] = aio.new_symbolic_queue(E, qcls, 'sendq')
    ms = maxsize if maxsize is not None else E.input('request_queue_size', E.fresh_int('reqq.maxsize', 0))
    sock.attrs['_request_queue'] = aio.new_symbolic_queue(E, M._builtin_class('Queue'), 'reqq', ms)
    sock.attrs['_requester_lease'] = lease
    sock.attrs['_fragment_size_bytes'] = None
    return sock


def qstate(q):
    s = q.attrs['_sym']
    return s['arr'], s['h'], s['t']


def appended_exactly(E, q, items):
    """queue content = old content ++ items (ids), head unchanged"""
    s = q.attrs['_sym']
    reg = aio.registry(E)
    conj = [s['h'] == s['h0'], s['t'] == s['t0'] + len(items)]
    x = z3.Int(E.path.fresh_name('sk.q'))
    conj.append(z3.Implies(z3.And(x >= s['h0'], x < s['t0']), z3.Select(s['arr'], x) == z3.Select(s['arr0'], x)))
    for j, it in enumerate(items):
        conj.append(z3.Select(s['arr'], s['t0'] + j) == reg.id_of(it))
    return z3.And(conj)


def _send_request(cname, is_request):
    def run(E):
        honor = E.path.choice(2, 'honor_lease') == 1
        lease_kind = E.path.choice(2, 'lease-kind') if honor else 1
        if lease_kind == 0:
            lease, mx, ttl, created, counter = mk_lease(E)
            now = E.fresh_int('now')
            E.path.ghost['now'] = I(now)
            E.assume(I(now) >= I(created))
        else:
            lease = E.call(E.lookup(LEASE + 'NullLease'), [])
        sock = mk_socket(E, honor, lease)
        fr = E.call(E.lookup(FR + cname), [])
        E.setattr(fr, 'stream_id', E.fresh_int('sid', 1, 0x7FFFFFFF))
        sq, rq = sock.attrs['_send_queue'], sock.attrs['_request_queue']
        c0 = lease.attrs.get('_request_counter')
        try:
            E.call(E.getattr(sock, 'send_request'), [fr])
        except PyExc as e:
            E.cover('queue-full')
            E.prove('send_request:only_QueueFull_can_escape', e.value.cls.issubclass(EXC['QueueFull']))
            a, h, t = qstate(rq)
            E.prove('send_request:QueueFull_only_when_retention_queue_is_full',
                    z3.And(I(rq.attrs['maxsize']) > 0, t - h >= I(rq.attrs['maxsize'])))
            E.prove('send_request:refused_frame_not_sent', appended_exactly(E, sq, []))
            return
        E.cover('done')
        if not honor or not is_request:
            E.prove('send_request:sent_directly', z3.And(appended_exactly(E, sq, [fr]), appended_exactly(E, rq, [])))
            if lease_kind == 0:
                E.prove('send_request:non_request_consumes_no_lease' if honor else 'send_request:lease_ignored_when_not_honoured',
                        I(lease.attrs['_request_counter']) == I(c0))
            return
        if lease_kind == 1:
            E.prove('send_request:null_lease_sends', appended_exactly(E, sq, [fr]))
            return
        expired = I(created) + I(ttl) <= I(now)
        allowed = z3.And(z3.Not(expired), I(c0) + 1 <= I(mx))
        sent = appended_exactly(E, sq, [fr])
        kept = appended_exactly(E, rq, [fr])
        E.prove('send_request:sent_iff_lease_allows', z3.And(z3.Implies(allowed, z3.And(sent, appended_exactly(E, rq, []))),
                                                            z3.Implies(z3.Not(allowed), z3.And(kept, appended_exactly(E, sq, [])))))
        E.prove('send_request:sent_at_most_once_and_never_both', z3.Not(z3.And(sent, kept)))
        E.prove('send_request:a_sent_request_consumes_one_unit', z3.Implies(allowed, I(lease.attrs['_request_counter']) == I(c0) + 1))
    return run


for _c in REQUEST_CLASSES:
    harness('c14.send_request[%s]' % _c, ['C14', 'C08'], functions=[BASE + '.send_request', BASE + '._queue_request_frame',
                                                                    BASE + '._is_frame_allowed_to_send', BASE + '.send_frame'],
            assumptions=['asyncio.Queue modelled as an unbounded FIFO of item ids with put_nowait/get_nowait/empty/QueueFull'])(
        _send_request(_c, True))
for _c in OTHER_CLASSES:
    harness('c14.send_request[%s]' % _c, ['C14', 'C08'], functions=[BASE + '.send_request', BASE + '._is_frame_allowed_to_send'])(
        _send_request(_c, False))


HL = BASE + '.handle_lease'


@harness('c14.handle_lease', ['C14'], functions=[HL, LEASE + 'DefinedLease.__init__', LEASE + 'DefinedLease._is_request_allowed'],
         replay='c14_handle_lease', fallback=r'^c14\.history\.bounded',
         assumptions=['the ghost clock does not advance inside handle_lease (one atomic segment, no await that suspends)'])
def handle_lease(E):
    E.import_module('datetime')
    now = E.fresh_int('now')
    E.path.ghost['now'] = I(now)
    sock = mk_socket(E, True, E.call(E.lookup(LEASE + 'DefinedLease'), [0]))
    sq, rq = sock.attrs['_send_queue'], sock.attrs['_request_queue']
    n = E.input('number_of_requests', E.fresh_int('n', 0, 0x7FFFFFFF))
    ttl = E.input('time_to_live_ms', E.fresh_int('ttl_ms', 0, 0x7FFFFFFF))
    fr = E.call(E.lookup(FR + 'LeaseFrame'), [])
    E.setattr(fr, 'number_of_requests', n)
    E.setattr(fr, 'time_to_live', ttl)
    ra, rh0, rt0 = qstate(rq)
    sa0, sh0, st0 = qstate(sq)
    E.input('queued_requests', mk_int(rt0 - rh0))

    def inv(ctx):
        k = I(ctx.k)
        lease = sock.attrs['_requester_lease']
        a, h, t = qstate(rq)
        s_a, s_h, s_t = qstate(sq)
        j = z3.Int('inv.j')
        out = [
            ('lease is the new lease', z3.And(lease.cls.name == 'DefinedLease', True)),
            ('new lease: grant, ttl, created now', z3.And(I(lease.attrs['maximum_request_count']) == I(n),
                                                         I(lease.attrs['maximum_lease_time'].attrs['us']) == I(ttl) * 1000,
                                                         I(lease.attrs['_lease_created_at'].attrs['t']) == I(now))),
            ('one unit consumed per moved frame', I(lease.attrs['_request_counter']) == k),
            ('k frames taken from the head', z3.And(h == rh0 + k, t == rt0, a.eq(ra), k >= 0, k <= rt0 - rh0)),
            ('never more than granted', k <= I(n)),
            ('nothing is released under a lease that has already expired', z3.Implies(I(ttl) * 1000 <= 0, k == 0)),
            ('k frames appended to the send queue in order',
             z3.And(s_h == sh0, s_t == st0 + k,
                    z3.ForAll([j], z3.Implies(z3.And(j >= 0, j < k), z3.Select(s_a, st0 + j) == z3.Select(ra, rh0 + j))),
                    z3.ForAll([j], z3.Implies(z3.And(j >= sh0, j < st0), z3.Select(s_a, j) == z3.Select(sa0, j))))),
        ]
        return out

    def havoc(ctx):
        lease = sock.attrs['_requester_lease']
        lease.attrs['_request_counter'] = E.fresh_int('lease.counter', 0)
        s = rq.attrs['_sym']
        s['h'] = z3.Int(E.path.fresh_name('reqq.h'))
        s2 = sq.attrs['_sym']
        s2['t'] = z3.Int(E.path.fresh_name('sendq.t'))
        s2['arr'] = z3.Array(E.path.fresh_name('sendq.arr'), z3.IntSort(), z3.IntSort())
        rq.attrs['_unfinished_tasks'] = E.fresh_int('reqq.unfinished')
        sq.attrs['_unfinished_tasks'] = E.fresh_int('sendq.unfinished')

    def variant(ctx):
        a, h, t = qstate(rq)
        return t - h
    E.loop_specs[(HL, 0)] = LoopSpec(inv, variant, havoc=havoc)
    E.await_value(E.call(E.getattr(sock, 'handle_lease'), [fr]))
    E.cover('drained')
    ctx = E.path.ghost.get('loops', {}).get((HL, 0))
    lease = sock.attrs['_requester_lease']
    a, h, t = qstate(rq)
    s_a, s_h, s_t = qstate(sq)
    E.prove('handle_lease:lease_replaced_by_the_announced_one',
            lease.cls.name == 'DefinedLease' and z3.And(I(lease.attrs['maximum_request_count']) == I(n),
                                                       I(lease.attrs['maximum_lease_time'].attrs['us']) == I(ttl) * 1000,
                                                       I(lease.attrs['_lease_created_at'].attrs['t']) == I(now)))
    k = h - rh0                                       # number of released requests
    expired = I(ttl) * 1000 <= 0
    E.prove('handle_lease:released_requests_moved_to_send_queue', z3.And(s_t == st0 + k, s_h == sh0, t == rt0, k >= 0))
    E.prove('handle_lease:stops_only_when_queue_empty_or_lease_refuses', z3.Or(h == t, k >= I(n), expired))
    E.prove('handle_lease:released_count', z3.And(k <= I(n), k <= rt0 - rh0, z3.Implies(expired, k == 0)))
    E.prove('handle_lease:releases_as_many_as_allowed', z3.Implies(z3.Not(expired), z3.Or(h == t, k == I(n))))
    if ctx is None:
        E.prove('handle_lease:without_the_drain_loop_nothing_may_be_queued', rt0 == rh0)


@harness('c14.initial_lease_grants_nothing', ['C14', 'C17'], functions=[BASE + '._reset_internals', LEASE + 'DefinedLease.__init__'])
def initial_lease(E):
    E.import_module('datetime')
    E.path.ghost['now'] = I(E.fresh_int('now'))
    honor = E.path.choice(2, 'honor') == 1
    sock = new_obj(E, 'rsocket/rsocket_client.py::RSocketClient', _honor_lease=honor, _request_queue_size=E.fresh_int('qs', 0))
    stale = E.call(E.lookup(LEASE + 'DefinedLease'), [5])        # whatever lease the previous connection had left
    sock.attrs['_requester_lease'] = stale
    E.call(E.getattr(sock, '_reset_internals'), [])
    E.cover('reset')
    lease = sock.attrs['_requester_lease']
    E.prove('reset:the_lease_of_a_previous_connection_is_discarded', lease is not stale)
    if honor:
        E.prove('reset:initial_lease_is_defined_with_zero_grant',
                lease.cls.name == 'DefinedLease' and lease.attrs['maximum_request_count'] == 0)
        r = E.call(E.getattr(lease, 'is_request_allowed'), [1])
        E.prove('reset:no_request_before_first_LEASE', E.truth(r) is False)
    else:
        E.prove('reset:null_lease_without_honor', lease.cls.name == 'NullLease')
    E.prove('reset:queues_empty', sock.attrs['_request_queue'].attrs['_queue'] == [] and sock.attrs['_send_queue'].attrs['_queue'] == [])
    E.prove('reset:retention_queue_size_is_configured', sock.attrs['_request_queue'].attrs['maxsize'] is sock.attrs['_request_queue_size'])


@harness('c14.send_lease', ['C14', 'C08'], functions=[BASE + '.send_lease', BASE + '.LeaseSubscriber.on_next',
                                                     BASE + '._subscribe_to_lease_publisher', LEASE + 'DefinedLease.to_frame'])
def send_lease(E):
    E.import_module('datetime')
    E.path.ghost['now'] = I(E.fresh_int('now'))
    sock = mk_socket(E, False, None)
    mx = E.fresh_int('max', 0, 0x7FFFFFFF)
    ms = E.fresh_int('ttl_ms', 0, 0x7FFFFFFF)
    lease = E.call(E.lookup(LEASE + 'DefinedLease'), [mx, td(E, mk_int(I(ms) * 1000))])
    sub = E.call(E.getattr(E.lookup(BASE), 'LeaseSubscriber'), [sock])
    sent = []
    orig = E.lookup(BASE + '.send_frame')
    E.stubs[orig.qualname] = lambda E_, f, a, k: sent.append(a[1])
    E.call(E.getattr(sub, 'on_next'), [lease])
    E.cover('announced')
    E.prove('send_lease:exactly_one_frame', len(sent) == 1)
    fr = sent[0]
    E.prove('send_lease:LEASE_on_stream_0', fr.cls is E.lookup(FR + 'LeaseFrame') and E.getattr(fr, 'stream_id') == 0)
    E.prove('send_lease:granted_count', I(E.getattr(fr, 'number_of_requests')) == I(mx))
    E.prove('send_lease:ttl_ms', I(E.getattr(fr, 'time_to_live')) == I(ms))
    E.prove('send_lease:remembers_lease', sock.attrs['_responder_lease'] is lease)
    # subscription: the publisher is subscribed exactly once with a LeaseSubscriber of this socket
    pub = SOpaque('publisher', 'lease_publisher')
    log = OpaqueLog(E)
    sock.attrs['_lease_publisher'] = pub
    E.call(E.getattr(sock, '_subscribe_to_lease_publisher'), [])
    calls = log.of(pub, 'subscribe')
    E.prove('subscribe:publisher_subscribed_once_with_own_subscriber',
            len(calls) == 1 and isinstance(calls[0][2][0], SObj) and calls[0][2][0].cls.name == 'LeaseSubscriber'
            and calls[0][2][0].attrs['_socket'] is sock)


# --------------------------------------------------------------------------- history, through the public operations only (bounded)

def _lease_history(k, qsize):
    """Representation-independent: the endpoint is set up by the real _reset_internals and driven only through
    send_request / handle_lease, so the clauses do not depend on which container holds the retained requests.
    BOUNDED: k requests before the first LEASE, retention queue size qsize (0 = unbounded); loops are unrolled."""
    def run(E):
        E.import_module('datetime')
        E.import_module('asyncio')
        now0 = E.fresh_int('now')
        E.path.ghost['now'] = I(now0)
        sock = new_obj(E, 'rsocket/rsocket_client.py::RSocketClient', _honor_lease=True, _request_queue_size=qsize,
                       _fragment_size_bytes=None)
        E.call(E.getattr(sock, '_reset_internals'), [])
        wire = []
        E.stubs[BASE + '.send_frame'] = lambda E_, f, a, kw: wire.append(a[1])
        same = lambda xs, ys: len(xs) == len(ys) and all(x is y for x, y in zip(xs, ys))
        reqs, accepted = [], []
        for i in range(k):
            fr = E.call(E.lookup(FR + REQUEST_CLASSES[i % 4]), [])
            E.setattr(fr, 'stream_id', 2 * i + 1)
            reqs.append(fr)
            try:
                E.call(E.getattr(sock, 'send_request'), [fr])
                accepted.append(fr)
            except PyExc as e:
                E.prove('history:a_request_is_refused_only_with_QueueFull', e.value.cls.issubclass(EXC['QueueFull']))
        E.cover('requests-made')
        E.prove('history:nothing_sent_before_the_first_LEASE', wire == [])
        E.prove('history:requests_retained_up_to_the_configured_queue_size_the_rest_refused',
                same(accepted, reqs[:qsize] if qsize > 0 else reqs))
        n = E.fresh_int('granted', 0, 0x7FFFFFFF)
        ttl = E.fresh_int('ttl_ms', 0, 0x7FFFFFFF)
        lf = E.call(E.lookup(FR + 'LeaseFrame'), [])
        E.setattr(lf, 'number_of_requests', n)
        E.setattr(lf, 'time_to_live', ttl)
        E.await_value(E.call(E.getattr(sock, 'handle_lease'), [lf]))
        released = len(accepted)
        # a LEASE whose time-to-live is zero has elapsed the moment it arrives: it releases nothing and admits nothing
        dead = E.decide(mk_bool(I(ttl) == 0), 'time-to-live=0')
        if dead:
            released = 0
        for m in range(len(accepted) if not dead else 0):
            if E.decide(mk_bool(I(n) == m), 'granted=%d' % m):
                released = m
                break
        E.cover('lease-arrived')
        E.prove('history:retained_requests_released_in_FIFO_order_up_to_the_grant_each_once', same(wire, accepted[:released]))
        if released < len(accepted) and E.path.choice(2, 'a-second-LEASE-arrives') == 1:
            # the backlog outlived the first lease: the next LEASE continues exactly where the first one stopped
            n2 = E.fresh_int('granted2', 0, 0x7FFFFFFF)
            lf2 = E.call(E.lookup(FR + 'LeaseFrame'), [])
            E.setattr(lf2, 'number_of_requests', n2)
            E.setattr(lf2, 'time_to_live', ttl)
            E.await_value(E.call(E.getattr(sock, 'handle_lease'), [lf2]))
            rest = len(accepted) - released
            more = rest if not dead else 0       # the second LEASE carries the same time-to-live
            for m in range(rest if not dead else 0):
                if E.decide(mk_bool(I(n2) == m), 'granted2=%d' % m):
                    more = m
                    break
            E.prove('history:a_later_LEASE_continues_the_backlog_in_FIFO_order[nothing skipped, nothing re-ordered]',
                    same(wire, accepted[:released + more]))
            return
        # one more request under the same lease
        late = E.call(E.lookup(FR + 'RequestResponseFrame'), [])
        E.setattr(late, 'stream_id', 99)
        left = (not dead) and released == len(accepted) and E.decide(mk_bool(I(n) > len(accepted)), 'grant-left')
        if E.path.choice(2, 'lease-expired-meanwhile') == 1:
            E.path.ghost['now'] = I(now0) + I(ttl) * 1000       # exactly at the end of the time-to-live
            left = False
        try:
            E.call(E.getattr(sock, 'send_request'), [late])
        except PyExc as e:
            E.prove('history:late_request_refused_only_with_QueueFull', e.value.cls.issubclass(EXC['QueueFull']) and not left)
            return
        E.prove('history:a_later_request_is_sent_iff_the_lease_is_valid_and_has_units_left',
                same(wire, accepted[:released] + ([late] if left else [])))
    return run


from pyvc.harness import thorough as _thorough   # noqa: E402

for _k in (1, 2, 4) + ((6,) if _thorough() else ()):
    for _qs in (0, 1, 3) + ((5,) if _thorough() else ()):
        harness('c14.history.bounded[requests=%d,queue_size=%d]' % (_k, _qs), ['C14'], kind='bounded', replay='c14_history',
                functions=[BASE + '.send_request', BASE + '._queue_request_frame', BASE + '.handle_lease', BASE + '._reset_internals'],
                assumptions=['BOUNDED stand-in: up to 4 requests before the first LEASE, retention queue sizes 0 (unbounded), 1, 3; '
                             'symbolic grant, time-to-live and clock; driven through the public operations only'])(_lease_history(_k, _qs))


@harness('c14.single_lease_publisher', ['C14'], functions=[LEASE + 'SingleLeasePublisher.__init__', LEASE + 'SingleLeasePublisher.subscribe',
                                                           LEASE + 'SingleLeasePublisher._send_lease', LEASE + 'DefinedLease.__init__'],
         assumptions=['virtual clock: asyncio.sleep(d) advances the ghost clock by exactly d'])
def single_lease_publisher(E):
    """The library's own lease publisher publishes exactly one lease: the configured count and time-to-live, after the
    configured wait, to the subscriber it was given (which announces it: c14.send_lease)."""
    E.import_module('asyncio')
    E.import_module('datetime')
    t0 = E.fresh_int('t0')
    E.path.ghost['now'] = I(t0)
    mx = E.fresh_int('max', 0, 0x7FFFFFFF)
    ttl = E.fresh_int('ttl_us', 0)
    wait = E.fresh_int('wait_us', 0)
    pub = E.call(E.lookup(LEASE + 'SingleLeasePublisher'), [mx, td(E, ttl), td(E, wait)])
    tasks = []
    E.create_task_hook = lambda E_, t, coro: tasks.append((t, coro))
    sub = SOpaque('subscriber', 'lease-subscriber')
    log = OpaqueLog(E)
    E.call(E.getattr(pub, 'subscribe'), [sub])
    E.prove('lease_publisher:nothing_published_synchronously', len(tasks) == 1 and not log.of(sub))
    slept = []

    def on_suspend(E_, what):
        if what[0] == 'sleep':
            slept.append(what[1])
            aio.advance_clock(E_, z3.ToInt(R(what[1]) * 1000000) if not isinstance(what[1], int) else what[1] * 1000000)
        return None
    E.suspend_hook = on_suspend
    E.await_value(tasks[0][1])
    E.cover('published')
    calls = log.of(sub)
    E.prove('lease_publisher:exactly_one_lease_published', [c[1] for c in calls] == ['on_next'])
    lease = calls[0][2][0]
    E.prove('lease_publisher:it_is_the_configured_grant_and_ttl', isinstance(lease, SObj) and lease.cls.name == 'DefinedLease'
            and z3.And(I(lease.attrs['maximum_request_count']) == I(mx), I(lease.attrs['maximum_lease_time'].attrs['us']) == I(ttl)))
    E.prove('lease_publisher:after_the_configured_wait_and_valid_from_then',
            z3.And(I(aio.now(E)) == I(t0) + I(wait), I(lease.attrs['_lease_created_at'].attrs['t']) == I(t0) + I(wait)))
