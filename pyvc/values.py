"""Symbolic value domain of pyvc.

Every value the interpreter manipulates has a *concrete Python type tag* and
symbolic contents.  Plain Python ints/bools/None/str/tuples/lists/dicts are used
directly when they are concrete; the classes below wrap z3 terms.
"""
import z3

# --------------------------------------------------------------------------- exceptions used for control flow


class Unsupported(Exception):
    """Construct outside the engine's subset -> obligation family is *undecided* (never a violation)."""


class PathEnd(Exception):
    """The current path ends here (infeasible assumption, loop cut, ...)."""


class PyExc(Exception):
    """An interpreted Python exception propagating through interpreted code."""

    def __init__(self, value):
        super().__init__(repr(value))
        self.value = value          # SObj of an exception class / BuiltinExc


class ReturnSig(Exception):
    def __init__(self, value):
        self.value = value


class BreakSig(Exception):
    pass


class ContinueSig(Exception):
    pass


# --------------------------------------------------------------------------- scalars

def is_z3(x):
    return isinstance(x, z3.ExprRef)


class SInt:
    __slots__ = ('e',)

    def __init__(self, e):
        self.e = e

    def __repr__(self):
        return 'SInt(%s)' % self.e


class SReal:
    __slots__ = ('e',)

    def __init__(self, e):
        self.e = e

    def __repr__(self):
        return 'SReal(%s)' % self.e


class SBool:
    __slots__ = ('e',)

    def __init__(self, e):
        self.e = e

    def __repr__(self):
        return 'SBool(%s)' % self.e


def mk_int(e):
    """Wrap a z3 Int term, folding numerals to Python ints."""
    if isinstance(e, bool):
        return int(e)
    if isinstance(e, int):
        return e
    e2 = z3.simplify(e)
    if z3.is_int_value(e2):
        return e2.as_long()
    return SInt(e)      # keep the original term: bit-slice forms are registered by term identity


def mk_bool(e):
    if isinstance(e, bool):
        return e
    e = z3.simplify(e)
    if z3.is_true(e):
        return True
    if z3.is_false(e):
        return False
    return SBool(e)


def mk_real(e):
    if isinstance(e, (int, float)):
        return e
    e = z3.simplify(e)
    return SReal(e)


class EnumMember:
    """Member of an Enum/IntEnum class defined in the repository."""

    def __init__(self, cls, name, value):
        self.cls = cls
        self.name = name
        self.value = value

    def __repr__(self):
        return '%s.%s' % (self.cls.name, self.name)

    def __hash__(self):
        if self.cls.is_int_enum:
            return hash(self.value)
        return id(self)

    def __eq__(self, other):
        if isinstance(other, EnumMember):
            return self is other or (self.cls is other.cls and self.name == other.name)
        if self.cls.is_int_enum and isinstance(other, int) and not isinstance(other, bool):
            return self.value == other
        return False

    def __ne__(self, other):
        return not self.__eq__(other)


def is_intlike(v):
    return isinstance(v, (int, SInt)) or (isinstance(v, EnumMember) and v.cls.is_int_enum) \
        or isinstance(v, SBool)


def I(v):
    """Value -> z3 Int term."""
    if isinstance(v, bool):
        return z3.IntVal(1 if v else 0)
    if isinstance(v, int):
        return z3.IntVal(v)
    if isinstance(v, SInt):
        return v.e
    if isinstance(v, SBool):
        return z3.If(v.e, z3.IntVal(1), z3.IntVal(0))
    if isinstance(v, EnumMember) and v.cls.is_int_enum:
        return z3.IntVal(v.value)
    if is_z3(v):
        return v
    raise Unsupported('not an int: %r' % (v,))


def B(v):
    """Value -> z3 Bool term (for values already known to be bool-typed)."""
    if isinstance(v, bool):
        return z3.BoolVal(v)
    if isinstance(v, SBool):
        return v.e
    if is_z3(v):
        return v
    raise Unsupported('not a bool: %r' % (v,))


def R(v):
    if isinstance(v, SReal):
        return v.e
    if isinstance(v, float):
        from fractions import Fraction
        fr = Fraction(v)
        return z3.RealVal(fr.numerator) / z3.RealVal(fr.denominator)
    if isinstance(v, (int, SInt, EnumMember, SBool)):
        return z3.ToReal(I(v))
    raise Unsupported('not a real: %r' % (v,))


# --------------------------------------------------------------------------- byte strings

class SBytes:
    """Immutable byte string: length term + element function (Int index term -> Int term in 0..255)."""
    __slots__ = ('n', 'at', 'conc')

    def __init__(self, n, at, conc=None):
        self.n = n              # python int or z3 Int term
        self.at = at            # callable(z3 Int term) -> z3 Int term
        self.conc = conc        # python bytes when fully concrete

    def len_term(self):
        return self.n if is_z3(self.n) else z3.IntVal(self.n)

    def __repr__(self):
        if self.conc is not None:
            return 'SBytes(%r)' % (self.conc,)
        return 'SBytes(len=%s)' % (self.n,)


def lift_bytes(b):
    if isinstance(b, SBytes):
        return b
    if isinstance(b, SByteArray):
        return b.val
    if isinstance(b, (bytes, bytearray)):
        bb = bytes(b)

        def at(i, bb=bb):
            if isinstance(i, int):
                return z3.IntVal(bb[i]) if 0 <= i < len(bb) else z3.IntVal(0)
            i = z3.simplify(i)
            if z3.is_int_value(i):
                k = i.as_long()
                return z3.IntVal(bb[k]) if 0 <= k < len(bb) else z3.IntVal(0)
            r = z3.IntVal(0)
            for k in range(len(bb) - 1, -1, -1):
                r = z3.If(i == k, z3.IntVal(bb[k]), r)
            return r
        return SBytes(len(bb), at, bb)
    raise Unsupported('not bytes: %r' % (b,))


class SByteArray:
    """Mutable bytearray: identity + current contents."""
    __slots__ = ('val',)

    def __init__(self, val):
        self.val = val

    def __repr__(self):
        return 'SByteArray(%r)' % (self.val,)


def is_byteslike(v):
    return isinstance(v, (bytes, bytearray, SBytes, SByteArray))


# --------------------------------------------------------------------------- strings (opaque)

class SStr:
    """Opaque string: identified by a z3 Int handle; only equality and utf-8 encoding are modelled."""
    __slots__ = ('h', 'note')

    def __init__(self, h, note=''):
        self.h = h
        self.note = note

    def __repr__(self):
        return 'SStr(%s)' % (self.h,)


# --------------------------------------------------------------------------- objects

class SObj:
    """Instance of a class defined in the repository (or of a modelled external class)."""

    def __init__(self, cls, attrs=None):
        self.cls = cls
        self.attrs = attrs if attrs is not None else {}

    def __repr__(self):
        return '<%s obj %s>' % (self.cls.name, sorted(self.attrs))


class SOpaque:
    """Object whose class is not known (application object, abstract handler...).

    kind  : free text tag ('subscriber', 'subscription', 'handler', ...)
    ident : python value identifying it (string) -- used in ghost logs
    iface : optional PyClass the object is assumed to be an instance of
    props : dict of symbolic facts (e.g. isinstance answers)
    """

    def __init__(self, kind, ident, iface=None, props=None, attrs=None):
        self.kind = kind
        self.ident = ident
        self.iface = iface
        self.props = props or {}
        self.attrs = attrs if attrs is not None else {}

    def __repr__(self):
        return '<opaque %s %s>' % (self.kind, self.ident)


class SMap:
    """dict with symbolic Int keys: membership array + opaque value function.

    has : z3 Array Int -> Bool
    val : python callable key_term -> value (engine value) for keys that are present
    known: python dict {concrete key or term-id: value} of entries written on this path
    """

    def __init__(self, has, valfn, name='map'):
        self.has = has
        self.valfn = valfn
        self.writes = []        # list of (key term, value) in write order (latest last)
        self.name = name

    def __repr__(self):
        return '<SMap %s>' % self.name


class Extern:
    """Something imported from outside the repository that the engine has no model for."""

    def __init__(self, name):
        self.name = name

    def __repr__(self):
        return '<extern %s>' % self.name
