"""Native (CPython, real classes) oracles used to replay counter-models.  No z3 imports here.

Each function takes the concretised inputs of the failed obligation and returns None when the real code
satisfies the clause on that input (and on a small neighbourhood searched around it), or a dict describing the
concrete failing input and what was observed.
"""
import itertools


# --------------------------------------------------------------------------- C13

def _first_free(cur, table, M, parity_of):
    mod = M + 1
    x = cur
    for _ in range(mod // 2 + 1):
        x = (x + 2) % mod
        if x != 0 and x not in table:
            return x
    return None


def _check_alloc(cur, table, M):
    from rsocket.stream_control import StreamControl
    from rsocket.exceptions import RSocketStreamAllocationFailure
    sc = StreamControl(1)
    sc._maximum_stream_id = M
    sc._current_stream_id = cur
    sc._streams = {k: object() for k in table}
    exp = _first_free(cur, set(table), M, cur % 2)
    try:
        r = sc.allocate_stream()
    except RSocketStreamAllocationFailure:
        r = 'fail'
    except Exception as ex:
        return dict(cur=cur, table=sorted(table), M=M, observed='unexpected %r' % ex, expected=exp)
    if exp is None and r != 'fail':
        return dict(cur=cur, table=sorted(table), M=M, observed=r, expected='RSocketStreamAllocationFailure')
    if exp is not None and r != exp:
        return dict(cur=cur, table=sorted(table), M=M, observed=r, expected=exp)
    if set(sc._streams) != set(table):
        return dict(cur=cur, table=sorted(table), M=M, observed='table changed')
    return None


def c13_allocate(inputs, doc):
    import re
    m = re.search(r'M=(0x[0-9a-f]+)', doc['harness'])
    M = int(m.group(1), 16)
    cur = inputs.get('current_stream_id', 0) or 0
    table = inputs.get('streams', {})
    keys = [int(k) for k, v in (table.get('entries', {}) if isinstance(table, dict) else {}).items() if v]
    bad = _check_alloc(cur, keys, M)
    if bad:
        return bad
    # bounded neighbourhood search: every state of the small id spaces, states near the model for the big one
    if M <= 15:
        ids = list(range(1, M + 1))
        for cur2 in range(0, M + 1):
            for r in range(0, len(ids) + 1):
                for tb in itertools.combinations(ids, r):
                    bad = _check_alloc(cur2, tb, M)
                    if bad:
                        return bad
    else:
        for cur2 in {cur, 0, 1, 2, M, M - 1, M - 2}:
            for tb in ([], [1], [2], [1, 3], [2, 4], [M], [M - 1], [1, 3, 5], [M, 1], [M - 1, 2]):
                bad = _check_alloc(cur2 % (M + 1), tb, M)
                if bad:
                    return bad
    return None


def c13_ops(inputs, doc):
    from rsocket.stream_control import StreamControl
    from rsocket.exceptions import RSocketStreamIdInUse
    from rsocket.error_codes import ErrorCode
    s = inputs.get('stream_id', 0)
    for table in ([], [s], [s, s + 2], [s + 2]):
        sc = StreamControl(1)
        sc._streams = {k: ('h', k) for k in table}
        before = dict(sc._streams)
        name = doc['harness']
        if 'finish' in name:
            sc.finish_stream(s)
            if set(sc._streams) != set(before) - {s}:
                return dict(op='finish', stream_id=s, table=table, observed=sorted(sc._streams))
        elif 'register' in name:
            try:
                sc.register_stream(s, 'new')
                ok = True
            except RuntimeError:
                ok = False
            should = s != 0 and s <= 0x7FFFFFFF
            if ok != should or (ok and (sc._streams.get(s) != 'new' or set(sc._streams) != set(before) | {s})):
                return dict(op='register', stream_id=s, table=table, accepted=ok, observed=sorted(sc._streams))
        elif 'assert' in name:
            try:
                sc.assert_stream_id_available(s)
                raised = None
            except Exception as ex:
                raised = ex
            if (s in before) != (raised is not None):
                return dict(op='assert_available', stream_id=s, table=table, raised=repr(raised))
            if raised is not None and not (isinstance(raised, RSocketStreamIdInUse) and raised.error_code == ErrorCode.REJECTED):
                return dict(op='assert_available', stream_id=s, table=table, raised=repr(raised))
    return None
